"""C14 object files and archives survive save and load.

Correspondence of Model.ObjSer (lean/PpciVerif/Model/ObjSer.lean) with
ppci/binutils/{objectfile,archive,debuginfo}.py and ppci/utils/binary_txt.py, and
evaluation of the property on the real code: every generated object is saved to
real JSON text, loaded again and compared with the original by an explicit field
walk (`walk_obj`, never `==`: ObjectFile.__eq__ ignores entry symbol, arch and
debug info); archives likewise; sets of real objects are linked before and after
the reload and the results compared byte for byte.
"""
import io
import json
import zlib

PROP = "C14"
TITLE = "Object files and archives survive save and load"
LEAN_PROPS = "PpciVerif/Props/C14.lean"
LEAN_TARGETS = ["PpciVerif.Props.C14", "Drivers.C14"]
LEVEL = "proof"
LEVEL_TEXT = (
    "Lean theorems over a hand model of objectfile.serialize/deserialize, debuginfo's DictSerializer/DictDeserializer, "
    "bin2asc/asc2bin, hex()/make_num and Archive.save/load, for ALL objects, byte strings and integers: "
    "deserialize(serialize o) = o as a record (hence field by field: arch, entry symbol, sections with name/address/alignment/data, "
    "symbols, relocations incl. negative addends, images with their sections, debug locations/types/variables/functions incl. "
    "base-type encoding and stack-slot size) for every well-formed o (distinct section names, symbol ids and global names; "
    "relocation and image sections exist; undefined symbols carry no section; debug type references registered) whose debug-type "
    "table the loader's get_type traversal accepts (one open finding: a type cycle entered through a pointer/array raises KeyError); "
    "asc2bin(bin2asc b) = b for all byte lists (both sides of the 30-byte chunk rule); make_num(hex n) = n for all integers; "
    "Archive.load(save a) = a (a value: the run compares the model with the first AND every later observation of the real loaded archive). JSON text <-> tree is Python's json module (trusted). 'Linking reloaded objects gives identical "
    "output' is evaluated on the real linker on every run, not proved (it follows from record equality only as far as the linker "
    "reads nothing but the compared fields)."
)
LEVEL_NOTE = (
    "trusted: Lean kernel; axioms propext/Classical.choice/Quot.sound; Python's json text layer; the harness' field walk that turns a "
    "live ObjectFile/DebugInfo object graph into the record (types by position in DebugInfo.types); get_arch(make_id_str()) is an "
    "assumption checked on every target; hand model <-> source correspondence is sampled (real asm/cc/c3c/link outputs for "
    "arm/x86_64/riscv/msp430 + generated objects + malformed JSON), not proved"
)
TECHNIQUE = "Lean 4 proof (structural induction over the record/JSON tree, invariant on the type-id assignment) over a hand model + differential correspondence with the Python code through real JSON text"
RULE = (
    "objects: outputs of ppci.api asm/cc/c3c/link for generated sources on several targets (some with debug=True), plus directly "
    "constructed ObjectFile instances (unicode/quoted names, data sizes around the 30-byte chunk limit and large, negative "
    "addresses/addends, undefined and absolute symbols, images, entry symbol, empty sections, debug info with struct/pointer/array "
    "type graphs incl. cycles), plus malformed JSON trees for the loader. distinct = distinct (op, request line) sent to the model; "
    "non-trivial = object with >=1 relocation or symbol or debug info, chunked data, negative number, or an error outcome. "
    "archives: every loaded archive is observed repeatedly (iter x3, .objs len/index, save, re-save chains, == both ways) and "
    "used as a link library four times on generated libraries with forward/backward/mutual member dependencies"
)
TRUSTED = [
    "hand model Model.ObjSer of objectfile.py serialize/deserialize, debuginfo.py DictSerializer/DictDeserializer, binary_txt.py, "
    "archive.py, common.make_num and builtin hex(); tied by differential run on every check",
    "Python json module (dump with sort_keys/indent, load): JSON text <-> tree of dict/list/str/int/None is not modelled",
    "binascii.hexlify/unhexlify modelled as two lowercase hex digits per byte / pairs of hex digits (either case)",
    "harness field walk walk_obj/walk_debug (object graph -> record; debug types identified by position in DebugInfo.types)",
]
ASSUMPTIONS = [
    "get_arch(arch.make_id_str()) returns an architecture of the same class with the same id string (checked on every registered target on every run)",
    "pass-through fields (symbol typ/size, source locations, names inside debug info) hold JSON-representable values (None/bool/int/str) for which json.loads(json.dumps(v)) == v",
    "int(s, 16) / int(s) are modelled on plain digit strings (optional sign for base 10); Python additionally accepts '_' and surrounding blanks, which hex() never emits",
    "SourceLocation.source (cached source text) and the derived lookup dicts symbol_map/section_map/image_map are not compared",
    "well-formedness of the object (see LEVEL_TEXT) is what ObjectFile's own API enforces on construction (create_section, add_symbol, add_relocation, add_type)",
]

TARGETS_QUICK = ["arm", "x86_64", "riscv"]
TARGETS_THOROUGH = ["arm", "x86_64", "riscv", "msp430", "avr", "xtensa", "or1k", "m68k", "arm:thumb", "riscv:rvc", "microblaze", "mips", "stm8"]

# --------------------------------------------------------------------------------------
# field walk: live object graph -> record (plain JSON-able tree)
# --------------------------------------------------------------------------------------


def walk_section(s):
    return {"name": s.name, "address": s.address, "alignment": s.alignment, "data": bytes(s.data).hex()}


def walk_symbol(s):
    return {"id": s.id, "name": s.name, "binding": s.binding, "value": s.value, "section": s.section, "typ": s.typ, "size": s.size}


def walk_reloc(r):
    return {"type": r.reloc_type, "symbol_id": r.symbol_id, "section": r.section, "offset": r.offset, "addend": r.addend}


def walk_srcloc(l):
    return {"filename": l.filename, "row": l.row, "col": l.col, "length": l.length}


def walk_addr(a):
    from ppci.binutils import debuginfo as D
    if isinstance(a, D.DebugAddress):
        return {"kind": "fixed", "symbol_id": a.symbol_id}
    if isinstance(a, D.FpOffsetAddress):
        return {"kind": "fprel", "offset": a.offset.offset, "size": a.offset.size}
    if isinstance(a, D.UnknownAddress):
        return {"kind": "unknown"}
    raise TypeError("address " + type(a).__name__)


class TypeIndex:
    """Debug types are identified by position in DebugInfo.types (object identity);
    types that are referenced but not registered get indices >= len(types) in discovery order."""

    def __init__(self, types):
        self.pos = {}
        self.n = len(types)
        for i, t in enumerate(types):
            self.pos.setdefault(id(t), i)
        self.keep = list(types)

    def ref(self, t):
        k = id(t)
        if k not in self.pos:
            self.pos[k] = self.n + sum(1 for v in self.pos.values() if v >= self.n)
            self.keep.append(t)
        return self.pos[k]


def walk_type(t, ti):
    from ppci.binutils import debuginfo as D
    if isinstance(t, D.DebugBaseType):
        return {"kind": "base", "name": t.name, "size": t.size, "encoding": t.encoding}
    if isinstance(t, D.DebugStructType):
        return {"kind": "struct", "fields": [{"name": f.name, "type": ti.ref(f.typ), "offset": f.offset} for f in t.fields]}
    if isinstance(t, D.DebugArrayType):
        return {"kind": "array", "element_type": ti.ref(t.element_type), "size": t.size}
    if isinstance(t, D.DebugPointerType):
        return {"kind": "pointer", "pointed_type": ti.ref(t.pointed_type)}
    raise TypeError("type " + type(t).__name__)


def walk_var(v, ti):
    return {"name": v.name, "type": ti.ref(v.typ), "loc": walk_srcloc(v.loc), "address": walk_addr(v.address)}


def walk_debug(di):
    ti = TypeIndex(di.types)
    return {
        "locations": [{"loc": walk_srcloc(l.loc), "address": walk_addr(l.address)} for l in di.locations],
        "types": [walk_type(t, ti) for t in di.types],
        "variables": [walk_var(v, ti) for v in di.variables],
        "functions": [{
            "name": f.name, "loc": walk_srcloc(f.loc), "return_type": ti.ref(f.return_type),
            "arguments": [{"name": a.name, "type": ti.ref(a.typ)} for a in f.arguments],
            "begin": walk_addr(f.begin), "end": walk_addr(f.end),
            "variables": [walk_var(v, ti) for v in f.variables]} for f in di.functions],
    }


def walk_obj(o):
    return {
        "arch": o.arch.make_id_str(),
        "entry": o.entry_symbol_id,
        "sections": [walk_section(s) for s in o.sections],
        "symbols": [walk_symbol(s) for s in o.symbols],
        "relocations": [walk_reloc(r) for r in o.relocations],
        "images": [{"name": i.name, "address": i.address, "sections": [walk_section(s) for s in i.sections]} for i in o.images],
        "debug": None if o.debug_info is None else walk_debug(o.debug_info),
    }


def diff_paths(a, b, path=""):
    """Paths (list indices replaced by []) at which two record trees differ."""
    if type(a) is not type(b):
        return [path or "."]
    if isinstance(a, dict):
        out = []
        for k in sorted(set(a) | set(b)):
            if k not in a or k not in b:
                out.append(f"{path}.{k}")
            else:
                out += diff_paths(a[k], b[k], f"{path}.{k}")
        return out
    if isinstance(a, list):
        if len(a) != len(b):
            return [path + ".len"]
        out = []
        for x, y in zip(a, b):
            out += diff_paths(x, y, path + "[]")
        return out
    return [] if a == b else [path or "."]


# --------------------------------------------------------------------------------------
# line protocol: JSON-like tree <-> one line of blank-separated tokens
#   n | t | f | i<int> | r<raw ascii> | s<cp.cp.cp> | [ ... ] | { key value ... }
# --------------------------------------------------------------------------------------
_RAW_OK = set("abcdefghijklmnopqrstuvwxyzABCDEFGHIJKLMNOPQRSTUVWXYZ0123456789_.:-")


def enc(v, out):
    if v is None:
        out.append("n")
    elif v is True:
        out.append("t")
    elif v is False:
        out.append("f")
    elif isinstance(v, int):
        out.append(f"i{v}")
    elif isinstance(v, str):
        if v and all(c in _RAW_OK for c in v):
            out.append("r" + v)
        else:
            out.append("s" + ".".join(str(ord(c)) for c in v))
    elif isinstance(v, (list, tuple)):
        out.append("[")
        for x in v:
            enc(x, out)
        out.append("]")
    elif isinstance(v, dict):
        out.append("{")
        for k in sorted(v):
            assert isinstance(k, str) and k and all(c in _RAW_OK for c in k), k
            out.append(k)
            enc(v[k], out)
        out.append("}")
    else:
        raise TypeError(f"cannot encode {type(v).__name__}")
    return out


def encode(v):
    return " ".join(enc(v, []))


def decode(text):
    toks = text.split(" ")
    pos = 0

    def rd():
        nonlocal pos
        t = toks[pos]
        pos += 1
        if t == "n":
            return None
        if t == "t":
            return True
        if t == "f":
            return False
        if t == "[":
            xs = []
            while toks[pos] != "]":
                xs.append(rd())
            pos += 1
            return xs
        if t == "{":
            d = {}
            while toks[pos] != "}":
                k = toks[pos]
                pos += 1
                d[k] = rd()
            pos += 1
            return d
        if t[0] == "i":
            return int(t[1:])
        if t[0] == "r":
            return t[1:]
        if t[0] == "s":
            return "".join(chr(int(c)) for c in t[1:].split(".")) if len(t) > 1 else ""
        raise ValueError("bad token " + t)

    v = rd()
    if pos != len(toks):
        raise ValueError("trailing tokens")
    return v


# --------------------------------------------------------------------------------------
# generators
# --------------------------------------------------------------------------------------
NAMES = ["code", "data", ".text", "a b", 'q"uo\'te', "üñí-cødé", "中文", "back\\slash", "tab\there", "", "x" * 70, "nul\u0000in", "\U0001F600"]


def rnd_name(rng):
    r = rng.random()
    if r < 0.5:
        return rng.choice(["code", "data", "bss", "rodata", "main", "f", "g", "_start", "vec"]) + str(rng.randrange(50))
    if r < 0.8:
        return rng.choice(NAMES) + str(rng.randrange(50))
    return "".join(chr(rng.choice([rng.randrange(32, 127), rng.randrange(0xA0, 0x2FF), rng.randrange(0x4E00, 0x4F00)])) for _ in range(rng.randint(1, 12)))


def rnd_int(rng, signed=True):
    r = rng.random()
    if r < 0.3:
        v = rng.choice([0, 1, 2, 4, 8, 15, 16, 17, 255, 256, 0x1000, 0x7FFFFFFF, 0x80000000, 0xFFFFFFFF, 1 << 64, (1 << 64) - 1])
    elif r < 0.7:
        v = rng.randrange(0, 1 << rng.randint(1, 40))
    else:
        v = rng.getrandbits(rng.randint(1, 100))
    if signed and rng.random() < 0.35:
        v = -v
    return v


def rnd_data(rng, big=False):
    r = rng.random()
    if r < 0.15:
        n = 0
    elif r < 0.55:
        n = rng.choice([1, 2, 29, 30, 31, 59, 60, 61, 90, 91])
    elif r < 0.95 or not big:
        n = rng.randint(0, 200)
    else:
        n = rng.randint(2000, 120000)
    return bytes(rng.getrandbits(8) for _ in range(n)) if n < 5000 else rng.randbytes(n)


def gen_debug(rng, sym_ids, wild=False):
    """A DebugInfo with a random type graph.  wild=True also produces pointer-first cycles
    (the open finding) and non-default encodings / slot sizes."""
    from ppci.binutils import debuginfo as D
    from ppci.common import SourceLocation
    from ppci.arch.stack import StackLocation
    di = D.DebugInfo()
    types = []

    def loc():
        return SourceLocation(rng.choice([None, "", "a.c", "dir/ü.c3", 'we"ird.c']), rng.randint(1, 500), rng.randint(1, 80), rng.randint(0, 20))

    def addr():
        r = rng.random()
        if r < 0.4 and sym_ids:
            return D.DebugAddress(rng.choice(sym_ids))
        if r < 0.5:
            return D.DebugAddress(rng.randint(0, 1000))
        if r < 0.85:
            return D.FpOffsetAddress(StackLocation(rng.randint(-400, 400), rng.choice([1, 1, 2, 4, 8, 12, 40])))
        return D.UnknownAddress()

    nt = rng.randint(0, 8)
    structs = []
    for _ in range(nt):
        r = rng.random()
        if r < 0.45 or not types:
            t = D.DebugBaseType(rng.choice(["int", "char", "void", "double", "ünt", "long long"]), rng.choice([0, 1, 2, 4, 8]),
                                rng.choice([1, 1, 1, 2, 5, 7]))
        elif r < 0.65:
            t = D.DebugStructType()
            structs.append(t)
        elif r < 0.85:
            t = D.DebugPointerType(rng.choice(types))
        else:
            t = D.DebugArrayType(rng.choice(types), rng.randint(0, 40))
        types.append(t)
    # struct fields may refer to any type (forward, backward, self): cycles go through structs
    for s in structs:
        off = 0
        for k in range(rng.randint(0, 4)):
            ft = rng.choice(types)
            s.add_field(rng.choice(["next", "v", "fld%d" % k, "π"]), ft, off)
            off += rng.choice([1, 2, 4, 8])
    order = list(types)
    if wild:
        rng.shuffle(order)          # may put a pointer before the struct it cycles through
        if order and rng.random() < 0.15:
            order.pop()             # a referenced but unregistered type: outside the domain (correspondence only)
    for t in order:
        di.add_type(t)
    if types:
        for _ in range(rng.randint(0, 4)):
            di.add_variable(D.DebugVariable(rnd_name(rng), rng.choice(types), loc(), address=addr() if rng.random() < 0.8 else None))
        for _ in range(rng.randint(0, 3)):
            args = [D.DebugParameter(rng.choice(["a", "b", "argc", "ä"]), rng.choice(types)) for _ in range(rng.randint(0, 3))]
            vs = [D.DebugVariable(rnd_name(rng), rng.choice(types), loc(), address=addr()) for _ in range(rng.randint(0, 3))]
            di.add_function(D.DebugFunction(rnd_name(rng), loc(), rng.choice(types), args, begin=addr(), end=addr(), variables=vs))
    for _ in range(rng.randint(0, 6)):
        di.add_location(D.DebugLocation(loc(), address=addr()))
    return di


def gen_object(rng, arch_name="arm", big=False, debug=None, wild_debug=False):
    """A directly constructed, well-formed ObjectFile (built through the public API)."""
    from ppci.api import get_arch
    from ppci.binutils.objectfile import ObjectFile, Image, RelocationEntry
    o = ObjectFile(get_arch(arch_name))
    names = []
    for _ in range(rng.randint(0, 5)):
        n = rnd_name(rng)
        if n in names:
            continue
        names.append(n)
        s = o.create_section(n)
        s.address = rnd_int(rng)
        s.alignment = rng.choice([1, 2, 4, 4, 8, 16, 0x1000, rnd_int(rng, False)])
        s.add_data(rnd_data(rng, big))
    sym_ids = []
    gnames = set()
    nid = rng.choice([0, 0, 1, 100])
    for _ in range(rng.randint(0, 8)):
        name = rnd_name(rng)
        binding = rng.choice(["global", "local", "local"])
        if binding == "global" and name in gnames:
            continue
        gnames.add(name) if binding == "global" else None
        kind = rng.random()
        if kind < 0.25:
            value, section = None, None                              # undefined
        elif kind < 0.4 or not names:
            value, section = rnd_int(rng), None                      # absolute
        else:
            value, section = rnd_int(rng, rng.random() < 0.2), rng.choice(names)
        o.add_symbol(nid, name, binding, value, section, rng.choice(["object", "func", "object", None]), rng.choice([0, 0, 4, rnd_int(rng, False), None]))
        sym_ids.append(nid)
        nid += rng.choice([1, 1, 1, 3])
    if names:
        for _ in range(rng.randint(0, 8)):
            sid = rng.choice(sym_ids) if sym_ids and rng.random() < 0.9 else rng.randint(0, 500)
            o.add_relocation(RelocationEntry(rng.choice(["abs32", "b_imm24", "rel8", "weird type"]), sid, rng.choice(names), rnd_int(rng, False), rnd_int(rng)))
        inames = []
        for _ in range(rng.randint(0, 3)):
            n = rnd_name(rng)
            if n in inames:
                continue
            inames.append(n)
            img = Image(n, rnd_int(rng))
            for sn in rng.sample(names, rng.randint(0, len(names))):
                img.add_section(o.get_section(sn))
            o.add_image(img)
    if sym_ids and rng.random() < 0.5:
        o.entry_symbol_id = rng.choice(sym_ids)
    elif rng.random() < 0.1:
        o.entry_symbol_id = 0
    if debug is None:
        debug = rng.random() < 0.5
    if debug:
        o.debug_info = gen_debug(rng, sym_ids, wild=wild_debug)
    return o


C_TEMPLATES = [
    "int g{n} = {k};\nint f{n}(int a, int b) {{ return a * {k} + b - g{n}; }}\n",
    "char buf{n}[{m}];\nextern int ext{n}(int);\nint h{n}(int x) {{ int i, s = 0; for (i = 0; i < x; i++) s += ext{n}(i) + buf{n}[i % {m}]; return s; }}\n",
    "static int t{n}[] = {{1, 2, {k}, 4}};\nint k{n}(int i) {{ switch (i) {{ case 0: return t{n}[1]; case {k}: return -1; default: return t{n}[i & 3]; }} }}\n",
    "struct s{n} {{ int a; char b; struct s{n} *next; }};\nstruct s{n} v{n};\nint w{n}(struct s{n} *p) {{ int c = 0; while (p) {{ c += p->a; p = p->next; }} return c + v{n}.b; }}\n",
]
C3_TEMPLATES = [
    "module m{n};\nvar int g{n};\nfunction int f{n}(int a, byte b) {{ var int x; x = a + b * {k}; g{n} = x; return x; }}\n",
    "module m{n};\ntype struct {{ int v; node{n}* next; byte c; }} node{n};\nvar node{n} head{n};\nvar int[{m}] tab{n};\n"
    "function int s{n}(int i) {{ var node{n} q; var int[3] arr; q.v = i; arr[1] = tab{n}[i]; head{n}.next = &q; return q.v + arr[1]; }}\n",
    "module m{n};\nfunction void e{n}() {{ var int i; i = 0; while (i < {k}) {{ i = i + 1; }} }}\n",
]
ASM = {
    "arm": "section code\nglobal a{n}\na{n}:\nmov r0, {k}\nb a{n}\nbl ext{n}\nldr r1, =d{n}\nsection data\nd{n}:\ndd {k}\ndcd =a{n}\n",
    "x86_64": "section code\nglobal a{n}\na{n}:\nmov rax, {k}\njmp a{n}\ncall ext{n}\nmov rbx, d{n}\nsection data\nd{n}:\ndb {k}\n",
    "riscv": "section code\nglobal a{n}\na{n}:\naddi x1, x2, {k}\nj a{n}\njal x1, ext{n}\nsection data\nd{n}:\ndd {k}\n",
    "msp430": "section code\nglobal a{n}\na{n}:\nmov.w #{k}, r4\njmp a{n}\ncall #ext{n}\nsection data\nd{n}:\ndw {k}\n",
}


def real_objects(ctx, arch):
    """Objects from the real assembler / compilers / linker for one target."""
    from ppci.api import asm, cc, c3c, link
    rng = ctx.rng
    out = []

    def attempt(kind, f):
        import contextlib
        import logging
        logging.disable(logging.CRITICAL)      # ppci logs/prints diagnostics of the templates; not C14's business
        try:
            with contextlib.redirect_stdout(io.StringIO()):
                o = f()
        except Exception as e:  # a target that cannot compile a template is not C14's business
            ctx.count(f"skip_{kind}_{type(e).__name__}")
            return None
        finally:
            logging.disable(logging.NOTSET)
        out.append((f"{kind}:{arch}", o))
        return o

    n = rng.randrange(1000)
    k = rng.randint(1, 120)
    m = rng.randint(2, 40)
    cobjs = []
    for i, tpl in enumerate(C_TEMPLATES):
        src = tpl.format(n=n + i, k=k, m=m)
        dbg = (i + ctx.seed) % 2 == 0
        o = attempt("cc-dbg" if dbg else "cc", lambda: cc(io.StringIO(src), arch, debug=dbg, opt_level=rng.choice([0, 2])))
        if o is not None:
            cobjs.append(o)
    for i, tpl in enumerate(C3_TEMPLATES):
        src = tpl.format(n=n + i, k=k, m=m)
        dbg = (i + ctx.seed) % 2 == 1 or i == 1
        o = attempt("c3c-dbg" if dbg else "c3c", lambda: c3c([io.StringIO(src)], [], arch, debug=dbg))
        if o is not None:
            cobjs.append(o)
    base = arch.split(":")[0]
    if base in ASM:
        o = attempt("asm", lambda: asm(io.StringIO(ASM[base].format(n=n, k=k)), arch))
        if o is not None:
            cobjs.append(o)
    groups = []
    if len(cobjs) >= 2:
        groups.append(cobjs)
        groups.append(cobjs[:2])
        for dbg in (False, True):
            lo = attempt("link-partial-dbg" if dbg else "link-partial", lambda: link(cobjs, partial_link=True, debug=dbg))
        layout = "MEMORY flash LOCATION=0x1000 SIZE=0x40000 { SECTION(code) ALIGN(8) SECTION(data) }\nMEMORY ram LOCATION=0x20000000 SIZE=0x8000 { SECTION(bss) }"
        exts = {}
        for o in cobjs:
            for s in o.symbols:
                if s.undefined:
                    exts[s.name] = 0x1234
        defined = {s.name for o in cobjs for s in o.symbols if s.defined}
        exts = {a: b for a, b in exts.items() if a not in defined}
        entry = next((s.name for s in cobjs[0].symbols if s.defined and s.is_global), None)
        attempt("link-image", lambda: link(cobjs, layout=io.StringIO(layout), extra_symbols=exts, entry=entry, debug=True))
    return out, groups


def all_arch_names():
    from ppci.arch.target_list import target_class_map
    names = []
    for name, cls in sorted(target_class_map.items()):
        names.append(name)
        for opt in getattr(cls, "option_names", ()):
            names.append(f"{name}:{opt}")
    return names


# --------------------------------------------------------------------------------------
# real-code adapters
# --------------------------------------------------------------------------------------
def exc_name(e):
    return type(e).__name__


def exc_site(e):
    tb = e.__traceback__
    last = None
    while tb is not None:
        last = tb
        tb = tb.tb_next
    if last is None:
        return "?"
    code = last.tb_frame.f_code
    return f"{code.co_filename.rsplit('/', 1)[-1]}:{code.co_name}"


def save_text(o):
    f = io.StringIO()
    o.save(f)
    return f.getvalue()


def load_text(text):
    from ppci.binutils.objectfile import ObjectFile
    return ObjectFile.load(io.StringIO(text))


def cycle_through_pointer(dbg_walk, key):
    """Independent description of the open finding: the type whose saved id is `key` is a
    pointer/array that lies on a reference cycle.  `key` is the KeyError argument; ids are
    handed out in first-visit order, which is recomputed here from the walked table."""
    types = dbg_walk["types"]

    def refs(t):
        if t["kind"] == "struct":
            return [f["type"] for f in t["fields"]]
        if t["kind"] == "array":
            return [t["element_type"]]
        if t["kind"] == "pointer":
            return [t["pointed_type"]]
        return []

    ids = {}
    for p, t in enumerate(types):
        ids.setdefault(p, len(ids))
        for r in refs(t):
            ids.setdefault(r, len(ids))
    pos = [p for p, i in ids.items() if i == key]
    if not pos or pos[0] >= len(types) or types[pos[0]]["kind"] not in ("pointer", "array"):
        return False
    start = pos[0]
    seen, todo = set(), list(refs(types[start]))
    while todo:
        x = todo.pop()
        if x == start:
            return True
        if x in seen or x >= len(types):
            continue
        seen.add(x)
        todo += refs(types[x])
    return False


def corpus_objects():
    """Fixed inputs that always run first: boundaries, past disagreements, the open finding."""
    from ppci.api import get_arch
    from ppci.binutils.objectfile import ObjectFile, Image, RelocationEntry
    from ppci.binutils import debuginfo as D
    from ppci.common import SourceLocation
    from ppci.arch.stack import StackLocation
    out = []
    o = ObjectFile(get_arch("arm"))
    out.append(("corpus:empty", o))
    # open finding: pointer registered before the struct it cycles through
    o = ObjectFile(get_arch("arm"))
    o.debug_info = D.DebugInfo()
    S = D.DebugStructType()
    P = D.DebugPointerType(S)
    S.add_field("next", P, 0)
    o.debug_info.add_type(P)
    o.debug_info.add_type(S)
    out.append(("corpus:ptr-first-cycle", o))
    # same through an array
    o = ObjectFile(get_arch("x86_64"))
    o.debug_info = D.DebugInfo()
    S = D.DebugStructType()
    A = D.DebugArrayType(S, 3)
    B = D.DebugBaseType("int", 4, 5)
    S.add_field("v", B, 0)
    S.add_field("arr", A, 4)
    for t in (B, A, S):
        o.debug_info.add_type(t)
    out.append(("corpus:array-first-cycle", o))
    # struct-first (as the compilers emit it) with the formerly lost fields
    o = ObjectFile(get_arch("riscv"))
    o.debug_info = D.DebugInfo()
    S = D.DebugStructType()
    P = D.DebugPointerType(S)
    B = D.DebugBaseType("ünt", 4, 7)
    S.add_field("next", P, 0)
    S.add_field("v", B, 8)
    for t in (S, P, B):
        o.debug_info.add_type(t)
    loc = SourceLocation("a.c", 3, 4, 5)
    o.debug_info.add_variable(D.DebugVariable("x", B, loc, address=D.FpOffsetAddress(StackLocation(-12, 4))))
    o.debug_info.add_function(D.DebugFunction("f", loc, B, [D.DebugParameter("a", P)], begin=D.DebugAddress(0), end=D.DebugAddress(1),
                                              variables=[D.DebugVariable("y", S, loc, address=D.FpOffsetAddress(StackLocation(-40, 12)))]))
    o.debug_info.add_location(D.DebugLocation(loc, address=D.DebugAddress(0)))
    o.add_symbol(0, "f", "global", 0, None, "func", 0)
    o.add_symbol(1, "f_end", "local", 64, None, "object", 0)
    out.append(("corpus:struct-first-debug", o))
    # data on both sides of the chunk rule, negative numbers, absolute/undefined symbols, entry 0, image
    o = ObjectFile(get_arch("arm"))
    for i, n in enumerate([0, 1, 29, 30, 31, 60, 61]):
        s = o.create_section(f"s{n}")
        s.address = -(1 << (4 * i)) if i % 2 else (1 << (9 * i))
        s.alignment = 1 << i
        s.add_data(bytes((7 * k + n) & 255 for k in range(n)))
    o.add_symbol(0, "undef", "global", None, None, "object", 0)
    o.add_symbol(1, "abs", "global", -1, None, "object", 4)
    o.add_symbol(2, 'lo"cal', "local", 0, "s30", "func", 0)
    o.add_symbol(5, 'lo"cal', "local", 3, "s31", None, None)
    o.add_relocation(RelocationEntry("abs32", 0, "s31", 0, -4))
    o.add_relocation(RelocationEntry("b_imm24", 77, "s0", 1 << 40, -(1 << 70)))
    img = Image("flash ü", -0x100)
    img.add_section(o.get_section("s61"))
    img.add_section(o.get_section("s0"))
    o.add_image(img)
    o.add_image(Image("empty", 0))
    o.entry_symbol_id = 0
    out.append(("corpus:edges", o))
    return out


MALFORMED = [
    ("drop-arch", lambda d, r: d.pop("arch")),
    ("drop-sections", lambda d, r: d.pop("sections")),
    ("drop-symbols", lambda d, r: d.pop("symbols")),
    ("drop-images", lambda d, r: d.pop("images")),
    ("sec-drop-data", lambda d, r: d["sections"][0].pop("data")),
    ("sec-odd-data", lambda d, r: d["sections"][0].__setitem__("data", "abc")),
    ("sec-bad-data", lambda d, r: d["sections"][0].__setitem__("data", ["00", "zz"])),
    ("sec-upper-data", lambda d, r: d["sections"][0].__setitem__("data", "AbCDef")),
    ("sec-nonascii-data", lambda d, r: d["sections"][0].__setitem__("data", "é0")),
    ("sec-data-part-int", lambda d, r: d["sections"][0].__setitem__("data", ["00", 5])),
    ("sec-data-dict", lambda d, r: d["sections"][0].__setitem__("data", {"a": 1})),
    ("sec-addr-bad", lambda d, r: d["sections"][0].__setitem__("address", "0xzz")),
    ("sec-addr-empty", lambda d, r: d["sections"][0].__setitem__("address", "0x")),
    ("sec-addr-int", lambda d, r: d["sections"][0].__setitem__("address", 16)),
    ("sec-addr-dollar", lambda d, r: d["sections"][0].__setitem__("address", "$1F")),
    ("sec-addr-bin", lambda d, r: d["sections"][0].__setitem__("address", "0b1011")),
    ("sec-addr-pct", lambda d, r: d["sections"][0].__setitem__("address", "%110")),
    ("sec-addr-dec", lambda d, r: d["sections"][0].__setitem__("address", "-42")),
    ("sec-align-bad", lambda d, r: d["sections"][0].__setitem__("alignment", "four")),
    ("sec-dup-name", lambda d, r: d["sections"].append(dict(d["sections"][0], address="0x99"))),
    ("rel-unknown-section", lambda d, r: d["relocations"][0].__setitem__("section", "nope")),
    ("rel-drop-addend", lambda d, r: d["relocations"][0].pop("addend")),
    ("rel-bool-symid", lambda d, r: d["relocations"][0].__setitem__("symbol_id", True)),
    ("rel-null-symid", lambda d, r: d["relocations"][0].__setitem__("symbol_id", None)),
    ("sym-dup-id", lambda d, r: d["symbols"].append(dict(d["symbols"][0], name="other", binding="local"))),
    ("sym-dup-global", lambda d, r: d["symbols"].append(dict(d["symbols"][0], id=9999, binding="global")) or d["symbols"][0].__setitem__("binding", "global")),
    ("sym-dup-local", lambda d, r: d["symbols"].append(dict(d["symbols"][0], id=9999, binding="local"))),
    ("sym-drop-typ", lambda d, r: d["symbols"][0].pop("typ")),
    ("sym-value-no-section", lambda d, r: (d["symbols"][0].__setitem__("value", "0x4"), d["symbols"][0].pop("section", None))),
    ("img-unknown-section", lambda d, r: d["images"][0]["sections"].append("nope")),
    ("img-addr-bad", lambda d, r: d["images"][0].__setitem__("address", "")),
    ("entry-null", lambda d, r: d.__setitem__("entry_symbol_id", None)),
    ("dbg-drop-types", lambda d, r: d["debug"].pop("types")),
    ("dbg-type-kind", lambda d, r: d["debug"]["types"][0].__setitem__("kind", "union")),
    ("dbg-dangling-var", lambda d, r: d["debug"]["variables"][0].__setitem__("type", 4242)),
    ("dbg-addr-kind", lambda d, r: d["debug"]["locations"][0]["address"].__setitem__("kind", "reg")),
    ("dbg-fixed-str", lambda d, r: d["debug"]["locations"][0].__setitem__("address", {"kind": "fixed", "symbol_id": "7"})),
    ("dbg-fprel-nosize", lambda d, r: d["debug"]["locations"][0].__setitem__("address", {"kind": "fprel", "offset": -8})),
    ("dbg-base-noenc", lambda d, r: [t.pop("encoding", None) for t in d["debug"]["types"]]),
    ("dbg-loc-drop-row", lambda d, r: d["debug"]["locations"][0]["source"].pop("row")),
    ("dbg-func-drop-name", lambda d, r: d["debug"]["functions"][0].pop("function_name")),
    ("dbg-array-size-str", lambda d, r: [t.__setitem__("size", "3") for t in d["debug"]["types"] if t["kind"] == "array"][0]),
    ("dbg-drop-type-entry", lambda d, r: d["debug"]["types"].pop(r.randrange(len(d["debug"]["types"])))),
    ("dbg-reverse-types", lambda d, r: d["debug"]["types"].reverse()),
]


def archive_text(a):
    f = io.StringIO()
    a.save(f)
    return f.getvalue()


def observe_archive(a):
    """Look at ONE archive object repeatedly and through every public route
    (`__iter__` three times, `.objs` as a sequence, `save`).  An observation that raises is
    recorded as 'raise <Exc>'.  A loaded archive is a value: every observation must agree."""
    obs = {}

    def it():
        return [walk_obj(o) for o in a]

    routes = [("iter#1", it), ("iter#2", it), ("objs.len", lambda: len(a.objs)),
              ("objs[i]", lambda: [walk_obj(a.objs[i]) for i in range(len(a.objs))]),
              ("iter#3", it), ("save", lambda: json.loads(archive_text(a))), ("iter#4-after-save", it)]
    for name, f in routes:
        try:
            obs[name] = f()
        except Exception as e:  # noqa
            obs[name] = "raise " + exc_name(e)
    return obs


def lib_member(arch, name, defines, needs, rng):
    """A library member defining the global symbols `defines` and referring to `needs`."""
    from ppci.api import get_arch
    from ppci.binutils.objectfile import ObjectFile
    o = ObjectFile(get_arch(arch))
    code = o.create_section("code")
    code.add_data(bytes(rng.getrandbits(8) for _ in range(rng.choice([4, 8, 31, 40]))))
    if rng.random() < 0.5:
        o.create_section("data").add_data(bytes(rng.getrandbits(8) for _ in range(rng.randint(1, 6))))
    sid = 0
    for d in defines:
        o.add_symbol(sid, d, "global", 4 * sid, "code", "func", 4)
        sid += 1
    for n in needs:
        o.add_symbol(sid, n, "global", None, None, "func", 0)
        sid += 1
    o.add_symbol(sid, name + "_local", "local", 0, "code", "object", 0)
    return o


# (what main needs, [(member defines, member needs)] in archive order)
LIB_SHAPES = {
    "forward": (["f0"], [(["f0"], ["f1"]), (["f1"], ["f2"]), (["f2"], [])]),
    "backward": (["f2"], [(["f0"], []), (["f1"], ["f0"]), (["f2"], ["f1"])]),           # needs >1 scan of the library
    "backward2": (["printf"], [(["putc"], []), (["printf"], ["putc"])]),
    "mutual": (["a"], [(["a"], ["b"]), (["b"], ["a"])]),
    "mutual-backward": (["b"], [(["a"], ["b", "c"]), (["b"], ["a"]), (["c"], [])]),
    "unused-member": (["x"], [(["junk"], []), (["x"], []), (["junk2"], ["never"])]),
    "diamond-backward": (["top"], [(["leaf"], []), (["l"], ["leaf"]), (["r"], ["leaf"]), (["top"], ["l", "r"])]),
    "single": (["only"], [(["only"], [])]),
}


def lib_scenarios(ctx):
    """(tag, main object, members) : archives whose members depend on each other forward, backward, mutually."""
    rng = ctx.rng
    out = []
    archs = ["arm", "msp430", "x86_64", "riscv"]
    for k, (shape, (main_needs, members)) in enumerate(sorted(LIB_SHAPES.items())):
        arch = archs[(k + ctx.seed) % len(archs)]
        main = lib_member(arch, "main", ["main"], main_needs, rng)
        out.append((f"lib:{shape}:{arch}", main, [lib_member(arch, f"m{i}", d, n, rng) for i, (d, n) in enumerate(members)]))
    for j in range(12 if ctx.thorough else 3):       # random dependency graphs over up to 6 members
        n = rng.randint(2, 6)
        arch = rng.choice(archs)
        order = list(range(n))
        rng.shuffle(order)
        members = []
        for i in range(n):
            needs = [f"s{t}" for t in rng.sample(range(n), rng.randint(0, min(2, n - 1))) if t != i]
            members.append(([f"s{i}"], needs))
        members = [members[i] for i in order]
        main = lib_member(arch, "main", ["main"], [f"s{rng.randrange(n)}"], rng)
        out.append((f"lib:random{j}:{arch}", main, [lib_member(arch, f"m{i}", d, nd, rng) for i, (d, nd) in enumerate(members)]))
    return out


C_LIB = [
    ("int lib_g{n} = {k};\nint lib_leaf{n}(int a) {{ return a * {k} + lib_g{n}; }}\n"),
    ("extern int lib_leaf{n}(int);\nint lib_mid{n}(int a) {{ int i, s = 0; for (i = 0; i < a; i++) s += lib_leaf{n}(i); return s; }}\n"),
    ("extern int lib_mid{n}(int);\nint main{n}(int x) {{ return lib_mid{n}(x) + 1; }}\n"),
]


def real_lib_scenarios(ctx, arch):
    """main calls lib_mid (LATER member) which calls lib_leaf (EARLIER member): a backward dependency in compiled code."""
    from ppci.api import cc
    import contextlib
    import logging
    n, k = ctx.rng.randrange(1000), ctx.rng.randint(2, 90)
    logging.disable(logging.CRITICAL)
    try:
        with contextlib.redirect_stdout(io.StringIO()):
            leaf, mid, main = [cc(io.StringIO(t.format(n=n, k=k)), arch, opt_level=ctx.rng.choice([0, 2])) for t in C_LIB]
    except Exception as e:  # noqa
        ctx.count(f"skip_reallib_{exc_name(e)}")
        return []
    finally:
        logging.disable(logging.NOTSET)
    return [(f"lib:cc-backward:{arch}", main, [leaf, mid]), (f"lib:cc-forward:{arch}", main, [mid, leaf])]


def real_deserialize(tree):
    from ppci.binutils.objectfile import deserialize
    try:
        return ("ok", walk_obj(deserialize(tree)))
    except Exception as e:  # noqa
        return ("err", exc_name(e))


def reply_of(kind, val):
    return ("ok " + encode(val)) if kind == "ok" else ("err " + val)


# --------------------------------------------------------------------------------------
# the check
# --------------------------------------------------------------------------------------
def check(ctx):
    from ppci.common import make_num
    from ppci.utils.binary_txt import bin2asc, asc2bin
    from ppci.api import get_arch, link
    from ppci.binutils.archive import Archive
    from ppci.binutils.objectfile import serialize as real_serialize
    import copy
    rng = ctx.rng
    reqs, impl, what = [], [], []

    def ask(op, tree, impl_reply, kind):
        reqs.append(op + " " + encode(tree))
        impl.append(impl_reply)
        what.append(kind)

    # ---- 0. assumption: arch id strings are stable under get_arch ------------------------
    for name in all_arch_names():
        ctx.count("eval_arch_id")
        try:
            a = get_arch(name)
            b = get_arch(a.make_id_str())
            if type(a) is not type(b) or a.make_id_str() != b.make_id_str():
                ctx.fail("arch:id-string-not-stable", f"get_arch({a.make_id_str()!r}) gives {b.make_id_str()!r}", name)
        except Exception as e:  # noqa
            ctx.fail("arch:get_arch-raises", f"get_arch({name!r}) raised {exc_name(e)}", name)

    # ---- 1. numbers ------------------------------------------------------------------------
    ints = list(range(-300, 301)) if not ctx.thorough else list(range(-70000, 70001))
    for k in range(1, 40):
        for d in (-1, 0, 1):
            ints += [(1 << (4 * k)) + d, -(1 << (4 * k)) + d]
    ints += [rnd_int(rng) for _ in range(3000 if ctx.thorough else 300)]
    for n in ints:
        s = hex(n)
        ask("hex", n, "ok " + encode(s), "hex")
        try:
            back = make_num(s)
        except Exception as e:  # noqa
            back = exc_name(e)
        ctx.count("eval_make_num_hex")
        if back != n:
            ctx.fail("make_num:hex-roundtrip", f"make_num(hex({n})) = {back}", n)
        if n < 0 or n > 255:
            ctx.nontrivial(("hex", n))
    strs = ["$1F", "$", "0b101", "0b", "0b12", "%11", "%", "12", "-12", "+7", "", "0x", "-0x", "0xZZ", "0xg", "abc", "-", "1a", "0X1F",
            "0xAbCdEf", "-0x0", "0x00000", "0b0", "$ff", "99999999999999999999999", "-0b1", "0x1G", "x", "0", "00", "007"]
    digs = "0123456789abcdefABCDEFgz"
    for _ in range(600 if ctx.thorough else 120):
        strs.append(rng.choice(["0x", "-0x", "$", "0b", "%", "", "-", "+"]) + "".join(rng.choice(digs) for _ in range(rng.randint(0, 6))))
    for s in strs + [5, None, ["0x1"]]:
        try:
            r = ("ok", make_num(s))
        except Exception as e:  # noqa
            r = ("err", exc_name(e))
        ask("mknum", s, reply_of(*r), "mknum")
        ctx.nontrivial(("mknum", str(s)))

    # ---- 2. byte strings -------------------------------------------------------------------
    blobs = [bytes(rng.getrandbits(8) for _ in range(n)) for n in range(0, 96 if ctx.thorough else 64)]
    blobs += [bytes([0] * 30), bytes([255] * 31), bytes(range(256)), rng.randbytes(3001)]
    blobs += [rnd_data(rng, big=False) for _ in range(400 if ctx.thorough else 40)]
    for b in blobs:
        a = bin2asc(b)
        ask("b2a", b.hex(), "ok " + encode(a), "b2a")
        try:
            back = asc2bin(a)
        except Exception as e:  # noqa
            back = exc_name(e)
        ctx.count("eval_asc2bin_bin2asc")
        if back != b:
            ctx.fail("asc2bin:bin2asc-roundtrip", f"asc2bin(bin2asc(<{len(b)} bytes>)) differs: {back!r:.80}", b.hex())
        ask("a2b", a, "ok " + encode(b.hex()), "a2b")
        if len(b) > 30:
            ctx.nontrivial(("chunked", len(b)))
    for a in ["abc", "0g", "AbCD", "é0", "", ["00", "ff", "A1"], ["0"], ["00", 5], [], {"a": 1}, 5, None, ["é"], ["zz"]]:
        try:
            r = ("ok", asc2bin(a).hex())
        except Exception as e:  # noqa
            r = ("err", exc_name(e))
        ask("a2b", a, reply_of(*r), "a2b-malformed")
        ctx.nontrivial(("a2b", json.dumps(a)))

    # ---- 3. objects ------------------------------------------------------------------------
    objs = corpus_objects()
    groups = []
    targets = TARGETS_THOROUGH if ctx.thorough else TARGETS_QUICK
    for arch in targets:
        ro, gr = real_objects(ctx, arch)
        objs += ro
        groups += [(arch, g) for g in gr]
    ngen = 600 if ctx.thorough else 60
    for i in range(ngen):
        arch = rng.choice(["arm", "x86_64", "riscv", "msp430", "arm:thumb", "riscv:rvc"])
        wild = i % 4 == 0
        objs.append(("gen-wild" if wild else "gen", gen_object(rng, arch, big=(i % 20 == 0), wild_debug=wild)))

    obj_meta = []   # (tag, walk, load outcome, walk2)
    for tag, o in objs:
        kind = tag.split(":")[0]
        ctx.count("objects_" + kind)
        w = walk_obj(o)
        tree = o.serialize()
        ask("ser", w, "ok " + encode(tree), "ser")
        text = save_text(o)
        jt = json.loads(text)
        if jt != tree:
            ctx.fail("json:text-tree-mismatch", "json.loads(save text) differs from serialize() tree", tag)
        try:
            o2 = load_text(text)
            outcome = ("ok", walk_obj(o2))
        except Exception as e:  # noqa
            outcome = ("err", exc_name(e), exc_site(e), e.args[0] if e.args else None)
        ask("deser", jt, reply_of(outcome[0], outcome[1]), "deser")
        ask("wf", w, None, "wf")
        ask("loadable", w, None, "loadable")
        obj_meta.append((tag, w, outcome, len(reqs) - 2, o))
        if w["symbols"] or w["relocations"] or w["debug"] is not None or any(len(s["data"]) > 60 for s in w["sections"]):
            ctx.nontrivial(("obj", zlib.crc32(text.encode())))
        if len(ctx.samples) < 3 and w["debug"] is not None and w["relocations"]:
            ctx.sample({"tag": tag, "sections": len(w["sections"]), "symbols": len(w["symbols"]), "relocations": len(w["relocations"]),
                        "debug_types": len(w["debug"]["types"]), "saved_bytes": len(text)})

    # archives: real groups and random groups of generated objects
    ar_groups = [g for _, g in groups]
    pool = [o for t, o in objs if t.split(":")[0] == "gen"]
    for _ in range(40 if ctx.thorough else 6):
        if pool:
            ar_groups.append(rng.sample(pool, rng.randint(0, min(4, len(pool)))))
    libs = lib_scenarios(ctx)
    for arch in (targets if ctx.thorough else TARGETS_QUICK):
        libs += real_lib_scenarios(ctx, arch)
    ar_groups += [m for _, _, m in libs]
    ar_meta = []
    for g in ar_groups:
        text = archive_text(Archive(g))
        jt = json.loads(text)
        ws = [walk_obj(o) for o in g]
        ask("arsave", ws, "ok " + encode(jt), "arsave")
        try:
            a2 = Archive.load(io.StringIO(text))
            obs = observe_archive(a2)
        except Exception as e:  # noqa
            obs = {"load": "raise " + exc_name(e)}
        first, second = obs.get("iter#1", obs.get("load")), obs.get("iter#2", obs.get("load"))
        # the model's loaded archive is a value: it must agree with the FIRST and with every LATER look at the real one
        for kind, o in (("arload", first), ("arload-second-look", second), ("arload-via-objs", obs.get("objs[i]", obs.get("load")))):
            ask("arload", jt, ("ok " + encode(o)) if isinstance(o, list) else "err " + str(o).replace("raise ", ""), kind)
        # save -> load -> save chain on the LOADED archive
        chain = {}
        try:
            a3 = Archive.load(io.StringIO(text))
            list(a3)                                   # somebody looked at it once
            t2 = archive_text(a3)
            a4 = Archive.load(io.StringIO(t2))
            chain = {"resaved": json.loads(t2), "reloaded": [walk_obj(o) for o in a4], "resaved-again": json.loads(archive_text(a4))}
            chain["eq"] = [list(Archive(g)) == list(a3), list(a3) == list(Archive(g)), list(a4) == list(g)]
        except Exception as e:  # noqa
            chain["raise"] = exc_name(e)
        ar_meta.append((ws, jt, obs, chain))

    # malformed trees for the loader
    donors = [o for t, o in objs if t.startswith("corpus:struct-first") or t.startswith("corpus:edges")]
    donors += [o for t, o in objs if t.split(":")[0] in ("c3c-dbg", "link-partial-dbg", "gen")][: (60 if ctx.thorough else 12)]
    for o in donors:
        base = o.serialize()
        for name, mut in MALFORMED:
            d = copy.deepcopy(base)
            try:
                mut(d, rng)
            except (KeyError, IndexError, ValueError):
                continue
            r = real_deserialize(d)
            ask("deser", d, reply_of(*r), "deser-malformed")
            ctx.count("malformed_" + ("ok" if r[0] == "ok" else r[1]))
            ctx.nontrivial(("malformed", name, r[1] if r[0] == "err" else "ok"))

    # ---- model side --------------------------------------------------------------------------
    model = ctx.driver("C14", reqs)
    for rq, i, m, k in zip(reqs, impl, model, what):
        ctx.count("eval_" + k)
        if m.startswith("bad-op") or m == "err Unsupported" or m == "err FuelExhausted":
            ctx.disagree(k + ":model-outside-fragment", rq[:400], i, m)
        elif i is not None and i != m:
            ctx.disagree(k, rq[:400], i[:400], m[:400])
    ctx.sample({"request": reqs[0], "impl": impl[0], "model": model[0]})

    # ---- the property on the real code ---------------------------------------------------
    for tag, w, outcome, qi, o in obj_meta:
        ctx.count("eval_roundtrip")
        wf = model[qi] == "ok t"
        loadable = model[qi + 1] == "ok t"
        ctx.count("domain_wf" if wf else "domain_not_wf")
        if not wf:
            if tag.split(":")[0] not in ("gen-wild",):
                ctx.disagree("wf:real-object-outside-domain", tag, "constructed through the public API", model[qi])
            continue
        if outcome[0] == "err":
            _, name, site, arg = outcome
            if name == "KeyError" and site == "debuginfo.py:get_type" and w["debug"] is not None and cycle_through_pointer(w["debug"], arg):
                ctx.fail("load:debug-type-cycle-through-pointer", f"{tag}: ObjectFile.load raises KeyError({arg}) in get_type", tag,
                         types=w["debug"]["types"])
                if loadable:
                    ctx.disagree("loadable", tag, "KeyError", "loadable = true")
            else:
                ctx.fail(f"load:{name}@{site}", f"{tag}: ObjectFile.load of the saved object raised {name}", tag, walk=w)
            continue
        if not loadable:
            ctx.disagree("loadable", tag, "load ok", "loadable = false")
        for p in sorted(set(diff_paths(w, outcome[1]))):
            ctx.fail("roundtrip:" + p, f"{tag}: field {p} differs after save+load", tag, walk=w if len(json.dumps(w)) < 4000 else "(large)")
    for ws, jt, obs, chain in ar_meta:
        ctx.count("eval_archive")
        if "load" in obs:      # members are real outputs / non-wild generated objects: each loads on its own
            ctx.fail(f"archive:load:{obs['load']}", f"Archive.load: {obs['load']}", [w["arch"] for w in ws])
            continue
        for route, seen in obs.items():
            ctx.count("eval_archive_observation")
            want = len(ws) if route == "objs.len" else (jt if route == "save" else ws)
            if isinstance(seen, str):
                ctx.fail(f"archive:{route}:raises", f"loaded archive, observation {route}: {seen} ({len(ws)} members saved)", len(ws))
            elif route == "objs.len" or not isinstance(seen, list):
                if seen != want:
                    ctx.fail(f"archive:{route}:differs", f"loaded archive, observation {route}: got {str(seen)[:80]}, saved {len(ws)} members", len(ws))
            elif len(seen) != len(want):
                ctx.fail(f"archive:{route}:member-count", f"loaded archive, observation {route}: {len(seen)} members, {len(ws)} were saved", len(ws))
            else:
                for p in sorted(set(diff_paths(ws, seen))):
                    ctx.fail(f"archive:roundtrip:{p}", f"archive member field {p} differs after save+load ({route})", len(ws))
        if "raise" in chain:
            ctx.fail(f"archive:resave-chain:raises:{chain['raise']}", "load -> look -> save -> load -> save raised", len(ws))
        else:
            if chain["resaved"] != jt or chain["resaved-again"] != jt:
                n2 = len(chain["resaved"].get("objects", []))
                ctx.fail("archive:resave-chain:text-differs", f"saving a loaded (and once inspected) archive again gives {n2} objects, {len(ws)} were saved", len(ws))
            elif diff_paths(ws, chain["reloaded"]):
                ctx.fail("archive:resave-chain:members-differ", "load(save(load(save a))) differs from a", len(ws))
            if ws and not all(chain["eq"]):
                ctx.fail("archive:equality", f"member lists compare unequal after reload (orig==loaded, loaded==orig, chain==orig) = {chain['eq']}", len(ws))

    # ---- linking against the reloaded ARCHIVE = linking against the original (real linker) ----
    def link_lib(main, lib):
        import logging
        logging.disable(logging.CRITICAL)          # the linker logs every undefined reference
        try:
            o = link([load_text(save_text(main))], libraries=[lib])
            return ("ok", save_text(o), [bytes(i.data) for i in o.images])
        except Exception as e:  # noqa
            return ("err", exc_name(e), str(getattr(e, "msg", e))[:120])
        finally:
            logging.disable(logging.NOTSET)

    for tag, main, members in libs:
        ref = link_lib(main, Archive(members))
        if ref[0] != "ok":
            ctx.count("liblink_skip_" + ref[1])          # the in-memory archive does not link either: no information
            continue
        text = archive_text(Archive(members))
        uses = {}
        fresh = Archive.load(io.StringIO(text))
        uses["first-use"] = link_lib(main, fresh)
        uses["second-use-of-same-archive"] = link_lib(main, fresh)
        looked = Archive.load(io.StringIO(text))
        try:
            list(looked)
        except Exception:  # noqa
            pass
        uses["after-inspection"] = link_lib(main, looked)
        chained = Archive.load(io.StringIO(archive_text(Archive.load(io.StringIO(text)))))
        uses["save-load-save-load"] = link_lib(main, chained)
        for use, got in uses.items():
            ctx.count("eval_link_with_reloaded_archive")
            if got[0] == "err":
                ctx.fail(f"archive-link:{use}:raises:{got[1]}", f"{tag}: linking against the reloaded archive ({use}) raised {got[1]}: {got[2]}; "
                         "the in-memory archive links", tag)
            elif got != ref:
                ctx.fail(f"archive-link:{use}:differs", f"{tag}: linking against the reloaded archive ({use}) gives a different output", tag)
        ctx.nontrivial(("liblink", tag))

    # ---- linking the reloaded objects gives byte-identical output (real linker) ---------
    layout = "MEMORY flash LOCATION=0x1000 SIZE=0x40000 { SECTION(code) ALIGN(8) SECTION(data) }\nMEMORY ram LOCATION=0x20000000 SIZE=0x8000 { SECTION(bss) }"
    for arch, g in groups:
        for dbg in (False, True):
            for mode in ("partial", "image"):
                kw = dict(partial_link=True) if mode == "partial" else dict(layout=io.StringIO(layout), extra_symbols={s.name: 0x1234 for o in g for s in o.symbols if s.undefined and s.name not in {t.name for q in g for t in q.symbols if t.defined}})
                try:
                    a = link(list(g), debug=dbg, **kw)
                except Exception as e:  # noqa  (e.g. relocation out of range with the fake externals)
                    ctx.count("link_skip_" + exc_name(e))
                    continue
                if mode == "image":
                    kw["layout"] = io.StringIO(layout)
                ctx.count("eval_link_reloaded")
                try:
                    g2 = [load_text(save_text(o)) for o in g]
                    b = link(g2, debug=dbg, **kw)
                except Exception as e:  # noqa
                    ctx.fail(f"link:reloaded-raises:{exc_name(e)}", f"linking the reloaded objects ({arch}, {mode}, debug={dbg}) raised {exc_name(e)}", arch)
                    continue
                if save_text(a) != save_text(b) or [bytes(i.data) for i in a.images] != [bytes(i.data) for i in b.images]:
                    d = sorted(set(diff_paths(walk_obj(a), walk_obj(b))))
                    ctx.fail("link:reloaded-differs:" + (d[0] if d else "text"), f"link of reloaded objects differs ({arch}, {mode}, debug={dbg}) at {d[:4]}", arch)
                ctx.nontrivial(("link", arch, mode, dbg))
    ctx.extra_cov["exhaustive"] = False
    ctx.extra_cov["targets"] = targets
    ctx.extra_cov["objects"] = len(objs)


def replay(ctx, rp):
    check(ctx)
