"""C03 optimization passes keep IR well-formed; no pass fails with an internal error on well-formed input.

check : for every input module (hand corpus, front-end produced, generated + "pessimised"), given as one line of
        text in the exchange format of notes/IR.md and accepted by the Lean checker `Spec.IR.wfModule`:
        1. every REAL pass of ppci/opt (9 classes) runs alone on a freshly built copy of the module;
        2. `api.optimize` runs at levels 0, 1, 2, s with `FunctionPass.run` wrapped from outside, so that the module is
           serialised after EVERY pass of the real pipeline;
        3. random pass sequences drawn from the pass set of that pipeline (+ CJumpPass) run step by step;
        every module a pass produces is serialised structurally (harness/irser.py, never ppci's writers) and goes
        through the Lean Boolean checker (`wf` of Drivers/C03.lean).  `Proofs.IRWF.wfFunc_iff` makes every acceptance a
        proof that the module is well-formed by the declarative definition of the property (`Spec.IRWF.WF`).
        The first pass of a sequence whose output is rejected (its input was accepted) is a failing input:
        `ctx.fail("<pass>:<violated clause>")`; a Python exception inside a pass on accepted input is
        `ctx.fail("<pass>:exception:<Name>")`.  ppci's own `verify_module` is never the oracle.
        4. correspondence for the P-part: the pass models `Model.Opt` that the preservation theorems of
           Props/C03.lean talk about run on the same text (`pass <name>`) and must give the alpha-equivalent module.
"""
import collections
import concurrent.futures
import io
import os
import time

from . import common, irgen, irser
from . import c02_ir as T

PROP = "C03"
LEAN_PROPS = "PpciVerif/Props/C03.lean"
LEAN_TARGETS = ["PpciVerif.Props.C03", "Drivers.C03"]
LEVEL = "proof"
LEVEL_TEXT = (
    "V+P. (V) Lean theorem for ALL modules and functions, no size bound: the Boolean checker Spec.IR.wfFunc/wfModule accepts exactly the "
    "functions/modules that satisfy the DECLARATIVE definition of well-formed written from the property text (Spec.IRWF.WF: every block "
    "ends in exactly one terminator, every block reachable by a path from the entry, every use dominated by its definition where "
    "dominance = every path from the entry passes through the defining block, every phi has exactly one incoming value per predecessor, "
    "operand types agree incl. call signatures) - wf_checker_decides_WF, resting on reach_is_path_reachability and "
    "dominates_is_path_dominance. Every module produced by every real pass (9 classes of ppci/opt alone, every pass inside api.optimize at "
    "levels 0/1/2/s observed by wrapping FunctionPass.run, random pass sequences) on checker-accepted input is fed through that checker on "
    "every run, so each acceptance is a kernel-checked proof that THIS output is well-formed; a Python exception in a pass is a failing input. "
    "(P) Lean theorems about the pass models Model.Opt, for all inputs: Value.replace_by keeps WF under type/dominance side conditions "
    "(replace_by_preserves_wf), CommonSubexpressionElimination, DeleteUnusedInstructions and ConstantFolder (fresh Const inserted "
    "before the folded value + the chain rewrite, whenever the model returns) keep every well-formed module well-formed "
    "(cse_preserves_wf, deleteUnused_preserves_wf, constFold_preserves_wf, no side condition), RemoveAddZero does so when no call goes "
    "through the result of a binop (removeAddZero_preserves_wf_partial; the unguarded statement is refuted by a Lean-checked witness = "
    "open finding). NOT shown as theorems: LoadAfterStore, CJump, mem2reg, clean, tailcall - for those only the per-output validation holds."
)
LEVEL_NOTE = (
    "trusted: Lean kernel; axioms propext/Classical.choice/Quot.sound; the structural serialiser harness/irser.py (ppci objects -> Spec.IR "
    "text, object identity -> names) and the Lean parser Spec.IRParse; the generators bound which pass outputs are seen (the universal "
    "quantifier over programs is discharged per output, not by a preservation proof, except for CSE / guarded RemoveAddZero whose models are "
    "tied to the code by a differential run); the definition of well-formed treats an indirect call as unchecked (as ppci's verifier does)"
)
TECHNIQUE = ("Lean 4: verified validator (Boolean checker proved equivalent to a declarative path-based definition) run on every real "
             "pass output + invariant proofs of pass models (substitution lemma, foldl invariants) + differential correspondence model/pass")
RULE = ("inputs: fixed corpus (CFG shapes of every past finding: constant cjump with dead arm / stale phi / same target / dead loop, tail "
        "call with loop-header entry, mem2reg critical edges, empty-block chains, values in two operand slots, indirect call through a "
        "replaced value, degenerate control flow: identical arms, arms that become the same empty block, forwarding chains, self loops), "
        "front-end produced modules (c_to_ir of 8 C sources incl. gotos to following labels and empty arms), irgen modules (6 "
        "configurations) optionally pessimised (x+0, constant cjumps, values/phis demoted to stack slots) and rewritten into degenerate "
        "control flow (degenerate_cfg) and given stack slots whose alloc sits in a non-entry block, mostly inside loops, with loads that may precede every store (local_slots); non-phi instructions are put in front of phis (nonphi_before_phi); the rewrites are also applied to front-end and corpus modules; fixed sequences mem2reg+{tailcall,cjump,clean} on small inputs. pipelines per input: 9 single passes, api.optimize levels, random "
        "sequences of 3..10 passes. evaluation = one pass application whose output differs from its input; distinct non-trivial = distinct "
        "(input, pipeline, step) whose output differs from its input")
TRUSTED = [
    "Spec.IRWF (declarative definition of well-formed, written from the property text) and Spec.IR.wfFunc (checker, independent of ppci.irutils.verify)",
    "harness/irser.py structural serialiser and Spec.IRParse (exchange format), harness/c02_ir.py loader (text -> ppci objects by public constructors)",
    "hand models Model.Opt.{removeAddZero,cse,deleteUnused,constFold} of ppci/opt, tied by differential run (alpha-equivalence of outputs) on every check",
]
ASSUMPTIONS = [
    "values and blocks are identified by object identity in ppci and by unique names in Spec.IR (the serialiser makes names unique)",
    "a pass is judged on the module it receives: the first pass of a sequence that turns an accepted module into a rejected one is the failing one",
]

WORKERS = int(os.environ.get("C03_WORKERS", "4"))

#: short name -> how to get the class; the order is the order of the api.optimize pipeline, CJumpPass last
PASS_NAMES = ["mem2reg", "addzero", "constfold", "cse", "tailcall", "las", "delunused", "clean", "cjump"]
#: passes whose Lean model is tied by correspondence here (the ones the preservation theorems are about)
MODELLED = ["addzero", "cse", "delunused", "constfold"]


def pass_classes():
    from ppci import opt
    from ppci.opt.cjmp import CJumpPass
    from ppci.opt.tailcall import TailCallOptimization
    return {
        "mem2reg": opt.Mem2RegPromotor, "addzero": opt.RemoveAddZeroPass, "constfold": opt.ConstantFolder,
        "cse": opt.CommonSubexpressionEliminationPass, "tailcall": TailCallOptimization,
        "las": opt.LoadAfterStorePass, "delunused": opt.DeleteUnusedInstructionsPass, "clean": opt.CleanPass,
        "cjump": CJumpPass,
    }


def short_name(cls):
    for k, v in pass_classes().items():
        if v is cls:
            return k
    return cls.__name__


# ---- running the real passes ------------------------------------------------------------------------------------

def exc_name(e):
    return type(e).__name__


def run_sequence(tree, names):
    """the passes `names` one after the other on a fresh copy; -> [(pass, text | None, exception | None)]"""
    classes = pass_classes()
    m, _ = T.load_module(tree)
    steps = []
    for n in names:
        try:
            classes[n]().run(m)
            steps.append((n, irser.serialize(m), None))
        except Exception as e:  # noqa: the property counts every exception as an internal error
            steps.append((n, None, exc_name(e)))
            break
    return steps


def run_optimize(tree, level):
    """api.optimize(level) with a snapshot after every pass of the real pipeline (FunctionPass.run wrapped from
    outside); -> (steps, name of the exception that escaped api.optimize outside a pass | None)"""
    from ppci import api
    from ppci.opt.transform import FunctionPass
    m, _ = T.load_module(tree)
    steps = []
    orig = FunctionPass.run

    def wrapped(self, ir_module):
        name = short_name(type(self))
        try:
            orig(self, ir_module)
        except Exception as e:  # noqa
            steps.append((name, None, exc_name(e)))
            raise
        steps.append((name, irser.serialize(ir_module), None))

    FunctionPass.run = wrapped
    outer = None
    try:
        api.optimize(m, level=level)
    except Exception as e:  # noqa
        if not (steps and steps[-1][2] is not None):
            outer = exc_name(e)          # raised by verify_module at the end (or by optimize itself)
    finally:
        FunctionPass.run = orig
    return steps, outer


def pipeline_pass_set():
    """names of the passes api.optimize really runs at level 2 (observed, not assumed)"""
    tree = T.parse(K("probe", "(func f global i32 e (params (x i32)) (blocks (block e (ret %x))))"))
    steps, _ = run_optimize(tree, "2")
    seen = []
    for n, _, _ in steps:
        if n not in seen:
            seen.append(n)
    return seen, [n for n, _, _ in steps]


# ---- inputs --------------------------------------------------------------------------------------------------------

def K(name, funcs, vars_="", externs=""):
    return f"(module {name} (externs{externs}) (vars{vars_}) (funcs {funcs}))"


INF_BITS = 9218868437227405312
NAN_BITS = 9221120237041090560
F1 = "(func f1 local i32 e (params (x i32)) (blocks (block e (ret %x)))) "

CORPUS = [
    # --- CJumpPass: constant condition ---
    # not-taken successor becomes unreachable
    ("cjump-dead-arm", K("k1", "(func f global i32 e (params (x i32)) (blocks "
     "(block e (const %z i32 0) (const %c7 i32 7) (cjump %z ne %z dead live)) "
     "(block dead (binop %u i32 add %c7 %x) (ret %u)) (block live (ret %x))))")),
    # not-taken successor stays reachable through another edge and has a phi with an input for the folded edge
    ("cjump-stale-phi", K("k2", "(func f global i32 e (params (x i32)) (blocks "
     "(block e (const %z i32 0) (const %one i32 1) (cjump %x lt %z a b)) "
     "(block a (const %c5 i32 5) (cjump %z eq %z j k)) "
     "(block b (const %c6 i32 6) (jump k)) "
     "(block j (ret %c5)) "
     "(block k (phi %p i32 (a %c5) (b %c6)) (binop %r i32 add %p %one) (ret %r))))")),
    # both arms of the constant conditional jump target the same block (with a phi)
    ("cjump-same-target", K("k3", "(func f global i32 e (params (x i32)) (blocks "
     "(block e (const %z i32 0) (const %one i32 1) (cjump %z eq %one t t)) "
     "(block t (phi %p i32 (e %x)) (binop %r i32 add %p %one) (ret %r))))")),
    # a dead region with an internal loop and a phi fed from the dead region in a live block
    ("cjump-dead-loop", K("k4", "(func f global i32 e (params (x i32)) (blocks "
     "(block e (const %z i32 0) (const %one i32 1) (cjump %one gt %z live d1)) "
     "(block d1 (phi %i i32 (e %z) (d2 %i1)) (cjump %i lt %x d2 out)) "
     "(block d2 (binop %i1 i32 add %i %one) (jump d1)) "
     "(block live (jump out)) "
     "(block out (phi %r i32 (d1 %i) (live %x)) (ret %r))))")),
    # the folded jump sits in a loop; the not-taken arm is the loop exit used by a phi
    ("cjump-unsigned", K("k5", "(func f global i32 e (params (x i32)) (blocks "
     "(block e (const %a u8 200) (const %b u8 100) (const %one i32 1) (cjump %a gt %b yes no)) "
     "(block yes (binop %r i32 add %x %one) (jump j)) (block no (jump j)) "
     "(block j (phi %q i32 (yes %r) (no %x)) (ret %q))))")),
    # --- degenerate control flow: identical arms, forwarding chains reached through both arms, empty arms, self loops ---
    # (a conditional jump whose two arms are, or become during CleanPass, the same empty block: seeded change 1, see notes)
    ("degenerate-same-arms-empty", K("d1", "(func f global i32 e (params (a i32) (b i32)) (blocks "
     "(block e (cjump %a eq %b B B)) (block B (jump T)) (block T (binop %r i32 add %a %b) (ret %r))))")),
    ("degenerate-arms-become-same", K("d2", "(func f global i32 e (params (a i32) (b i32)) (blocks "
     "(block e (cjump %a eq %b F1 F2)) (block F1 (jump G)) (block F2 (jump G)) (block G (jump T)) "
     "(block T (binop %r i32 add %a %b) (ret %r))))")),
    ("degenerate-arms-become-same-rev", K("d3", "(func f global i32 e (params (a i32) (b i32)) (blocks "
     "(block e (cjump %a lt %b F1 F2)) (block G (jump T)) (block T (binop %r i32 add %a %b) (ret %r)) "
     "(block F2 (jump G)) (block F1 (jump G))))")),
    ("degenerate-arm-forwards-to-other-arm", K("d4", "(func f global i32 e (params (a i32) (b i32)) (blocks "
     "(block e (cjump %a eq %b L M)) (block L (jump M)) (block M (jump N)) (block N (ret %a))))")),
    ("degenerate-same-arms-phi", K("d5", "(func f global i32 e (params (a i32) (b i32)) (blocks "
     "(block e (const %z i32 0) (cjump %a gt %z p q)) (block p (cjump %a eq %b B B)) (block q (jump T)) "
     "(block B (jump T)) (block T (phi %v i32 (B %a) (q %b)) (ret %v))))")),
    ("degenerate-same-arms-in-loop", K("d6", "(func f global i32 e (params (n i32)) (blocks "
     "(block e (const %z i32 0) (const %one i32 1) (jump h)) "
     "(block h (phi %i i32 (e %z) (l2 %i1)) (cjump %i lt %n b x)) "
     "(block b (binop %i1 i32 add %i %one) (cjump %i1 eq %n l1 l1)) (block l1 (jump l2)) (block l2 (jump h)) "
     "(block x (ret %i))))")),
    ("degenerate-self-loops", K("d7", "(func f global i32 e (params (a i32) (b i32)) (blocks "
     "(block e (cjump %a eq %b s s2)) (block s (cjump %a lt %b s t)) (block s2 (cjump %a gt %b s2 s2b)) "
     "(block s2b (jump t)) (block t (ret %a))))")),
    ("degenerate-const-same-arms-chain", K("d8", "(func f global i32 e (params (a i32)) (blocks "
     "(block e (const %c1 i32 1) (const %c2 i32 2) (cjump %c1 lt %c2 F F)) (block F (jump G)) (block G (jump H)) "
     "(block H (cjump %a eq %c1 I I)) (block I (ret %a))))")),
    # --- TailCallOptimization ---
    ("tailcall-sum", K("k7", "(func sum global i32 e (params (n i32) (acc i32)) (blocks "
     "(block e (const %z i32 0) (cjump %n le %z done rec)) (block done (ret %acc)) "
     "(block rec (const %one i32 1) (binop %n1 i32 sub %n %one) (binop %a1 i32 add %acc %n) "
     "(fcall %r i32 @sum %n1 %a1) (ret %r))))")),
    # the tail call sits in the entry block itself
    ("tailcall-in-entry", K("k8", "(func spin global i32 e (params (n i32)) (blocks "
     "(block e (const %one i32 1) (binop %n1 i32 sub %n %one) (fcall %r i32 @spin %n1) (ret %r))))")),
    # the entry block is a loop header (it has a predecessor inside the function)
    ("tailcall-entry-has-pred", K("k9", "(func g global i32 e (params (n i32) (m i32)) (blocks "
     "(block e (const %z i32 0) (const %one i32 1) (cjump %n gt %m e2 b)) "
     "(block e2 (cjump %m gt %z e done)) "
     "(block b (binop %n1 i32 add %n %one) (fcall %r i32 @g %n1 %m) (ret %r)) "
     "(block done (ret %n))))")),
    # two tail calls, arguments swapped (parallel copy), no-argument function
    ("tailcall-two-sites", K("k10", "(func h global i32 e (params (a i32) (b i32)) (blocks "
     "(block e (const %z i32 0) (cjump %a eq %z done t1)) "
     "(block t1 (cjump %b eq %z t2 t3)) "
     "(block t2 (const %one i32 1) (binop %a1 i32 sub %a %one) (fcall %r2 i32 @h %a1 %b) (ret %r2)) "
     "(block t3 (fcall %r3 i32 @h %b %a) (ret %r3)) "
     "(block done (ret %b)))) "
     "(func noarg global i32 e (params) (blocks (block e (fcall %r i32 @noarg) (ret %r))))")),
    # --- Mem2Reg ---
    ("mem2reg-diamond-loop", K("k11", "(func f global i32 e (params (x i32) (n i32)) (blocks "
     "(block e (alloc %s 4 4) (addrof %p %s) (const %z i32 0) (const %one i32 1) (store i32 %x %p) (jump h)) "
     "(block h (phi %i i32 (e %z) (j %i1)) (cjump %i lt %n body out)) "
     "(block body (load %v i32 %p) (binop %odd i32 and %v %one) (cjump %odd eq %z a b)) "
     "(block a (binop %va i32 add %v %i) (store i32 %va %p) (jump j)) "
     "(block b (binop %vb i32 sub %v %one) (store i32 %vb %p) (jump j)) "
     "(block j (binop %i1 i32 add %i %one) (jump h)) "
     "(block out (load %r i32 %p) (ret %r))))")),
    # critical edge into the join, store only on one arm, load before any store on the other path (undefined)
    ("mem2reg-critical-edge", K("k12", "(func f global i32 e (params (x i32)) (blocks "
     "(block e (alloc %s 4 4) (addrof %p %s) (const %z i32 0) (cjump %x gt %z a j)) "
     "(block a (store i32 %x %p) (cjump %x gt %z j2 j)) "
     "(block j2 (jump j)) "
     "(block j (load %v i32 %p) (ret %v))))")),
    # both arms of a conditional jump enter the block that needs the phi
    ("mem2reg-double-edge", K("k13", "(func f global i32 e (params (x i32)) (blocks "
     "(block e (alloc %s 4 4) (addrof %p %s) (const %z i32 0) (store i32 %z %p) (cjump %x gt %z a b)) "
     "(block a (store i32 %x %p) (cjump %x lt %z j j)) "
     "(block b (jump j)) "
     "(block j (load %v i32 %p) (ret %v))))")),
    # store whose value is a load of the same slot, two slots feeding each other
    ("mem2reg-two-slots", K("k14", "(func f global i32 e (params (x i32) (n i32)) (blocks "
     "(block e (alloc %s 4 4) (addrof %p %s) (alloc %t 4 4) (addrof %q %t) (const %z i32 0) (const %one i32 1) "
     "(store i32 %x %p) (store i32 %z %q) (jump h)) "
     "(block h (load %a i32 %p) (load %b i32 %q) (cjump %b lt %n body out)) "
     "(block body (store i32 %b %p) (binop %a1 i32 add %a %one) (store i32 %a1 %q) (jump h)) "
     "(block out (binop %r i32 add %a %b) (ret %r))))")),
    # allocs OUTSIDE the entry block (no ppci front-end emits them; seeded change 2, see notes): in a loop body with a
    # path that loads before any store, in one arm of a branch, after a loop, in a block reached by a back edge,
    # two slots with interleaved lifetimes, different types, a slot whose address escapes (must stay in memory)
    ("mem2reg-loop-local", K("m1", "(func f global i32 e (params (k i32) (c i32)) (blocks "
     "(block e (const %z i32 0) (const %one i32 1) (jump head)) "
     "(block head (phi %i i32 (e %k) (latch %i1)) (phi %acc i32 (e %z) (latch %acc1)) (cjump %i gt %z body out)) "
     "(block body (alloc %x 4 4) (addrof %px %x) (cjump %i gt %c set join)) "
     "(block set (store i32 %i %px) (jump join)) "
     "(block join (load %v i32 %px) (binop %acc1 i32 add %acc %v) (jump latch)) "
     "(block latch (binop %i1 i32 sub %i %one) (jump head)) "
     "(block out (ret %acc))))")),
    ("mem2reg-loop-local-nested", K("m2", "(func f global i32 e (params (k i32) (c i32)) (blocks "
     "(block e (const %z i32 0) (const %one i32 1) (cjump %k gt %c pre out0)) "
     "(block out0 (ret %z)) "
     "(block pre (jump head)) "
     "(block head (phi %i i32 (pre %k) (latch %i1)) (cjump %i gt %z body out)) "
     "(block body (alloc %x 4 4) (addrof %px %x) (alloc %y 8 8) (addrof %py %y) (const %w i64 5) (cjump %i gt %c a b)) "
     "(block a (store i32 %i %px) (load %y0 i64 %py) (binop %y1 i64 add %y0 %w) (jump join)) "
     "(block b (store i64 %w %py) (jump join)) "
     "(block join (load %v i32 %px) (load %u i64 %py) (cast %u32 i32 %u) (binop %s i32 add %v %u32) (cjump %s gt %c latch inner)) "
     "(block inner (store i32 %s %px) (jump join)) "
     "(block latch (binop %i1 i32 sub %i %one) (jump head)) "
     "(block out (ret %i))))")),
    ("mem2reg-arm-after-loop-backedge", K("m3", "(func f global i32 e (params (k i32) (c i32)) (blocks "
     "(block e (const %z i32 0) (const %one i32 1) (cjump %k gt %c arm other)) "
     "(block arm (alloc %x 4 4) (addrof %px %x) (load %v0 i32 %px) (store i32 %v0 %px) (jump loop)) "
     "(block other (jump loop)) "
     "(block loop (phi %i i32 (arm %k) (other %c) (loop2 %i1)) (alloc %y 2 2) (addrof %py %y) (cjump %i gt %z loop2 after)) "
     "(block loop2 (cast %n i16 %i) (store i16 %n %py) (load %m i16 %py) (cast %m32 i32 %m) (binop %i1 i32 sub %m32 %one) (jump loop)) "
     "(block after (alloc %q 1 1) (addrof %pq %q) (load %b u8 %pq) (cast %b32 i32 %b) (load %m2 i16 %py) (cast %m3 i32 %m2) "
     "(binop %r i32 add %b32 %m3) (ret %r))))")),
    ("mem2reg-escaping-local", K("m4", "(func sink local void e (params (p ptr)) (blocks (block e (exit)))) "
     "(func f global i32 e (params (k i32)) (blocks "
     "(block e (const %z i32 0) (const %one i32 1) (jump head)) "
     "(block head (phi %i i32 (e %k) (body %i1)) (cjump %i gt %z body out)) "
     "(block body (alloc %x 4 4) (addrof %px %x) (alloc %h 8 8) (addrof %ph %h) (store ptr %px %ph) (load %v i32 %px) "
     "(alloc %w 4 4) (addrof %pw %w) (pcall @sink %pw) (load %v2 i32 %pw) (binop %s i32 add %v %v2) "
     "(binop %i1 i32 sub %i %one) (jump head)) "
     "(block out (ret %i))))")),
    # the entry block is a loop header with a single (back edge) predecessor that ends in a jump
    ("clean-entry-loop-header", K("e1", "(func f global i32 e (params (x i32) (y i32)) (blocks "
     "(block e (cjump %x lt %y L X)) (block L (const %one i32 1) (binop %z i32 add %x %one) (jump e)) "
     "(block X (ret %x))))")),
    ("clean-entry-loop-header-phi", K("e2", "(func f global i32 e (params (x i32) (y i32)) (blocks "
     "(block e (const %one i32 1) (binop %z i32 add %x %one) (cjump %z lt %y L X)) (block L (jump L2)) (block L2 (jump e)) "
     "(block X (ret %z))))")),
    # --- non-phi instructions in front of phis (seeded change 3, see notes) ---
    # route (b): a constant / undefined / alloc precedes the phi of a join block whose incoming edges a pass edits
    ("phi-after-const-clean", K("p1", "(func f global i32 A (params (x i32)) (blocks "
     "(block A (const %z i32 0) (const %c1 i32 11) (const %c2 i32 22) (cjump %x eq %z E F)) "
     "(block E (jump T)) (block F (binop %y i32 add %x %c1) (jump T)) "
     "(block T (const %k i32 5) (phi %p i32 (E %c2) (F %y)) (binop %r i32 add %p %k) (ret %r))))")),
    ("phi-after-const-glue", K("p2", "(func f global i32 A (params (x i32)) (blocks "
     "(block A (const %z i32 0) (const %c1 i32 11) (cjump %x eq %z B C)) "
     "(block B (binop %y i32 add %x %c1) (jump M)) (block M (binop %y2 i32 add %y %c1) (cjump %y2 eq %z T C)) "
     "(block C (jump T)) "
     "(block T (undef %u i32) (alloc %s 4 4) (phi %p i32 (M %y2) (C %c1)) (phi %q i32 (M %z) (C %x)) "
     "(binop %r i32 add %p %q) (ret %r))))")),
    ("phi-after-const-cjump", K("p3", "(func f global i32 e (params (x i32)) (blocks "
     "(block e (const %z i32 0) (const %one i32 1) (cjump %x lt %z a b)) "
     "(block a (const %c5 i32 5) (cjump %z eq %z j k)) "
     "(block b (const %c6 i32 6) (jump k)) "
     "(block j (const %c9 i32 9) (phi %pj i32 (a %c5)) (binop %rj i32 add %pj %c9) (ret %rj)) "
     "(block k (const %c7 i32 7) (phi %p i32 (a %c5) (b %c6)) (binop %r i32 add %p %c7) (ret %r))))")),
    ("phi-after-const-dead-region", K("p4", "(func f global i32 e (params (x i32)) (blocks "
     "(block e (const %z i32 0) (const %one i32 1) (cjump %one gt %z live d1)) "
     "(block d1 (jump out)) (block live (jump out)) "
     "(block out (const %c i32 3) (phi %r i32 (d1 %z) (live %x)) (binop %s i32 add %r %c) (ret %s))))")),
    # the entry block is a loop header WITH phis (preceded by a constant): TailCallOptimization must leave it alone
    ("phi-after-const-tailcall-entry", K("p5", "(func g global i32 e (params (n i32) (m i32)) (blocks "
     "(block e (const %one i32 1) (phi %i i32 (b2 %i1)) (const %z i32 0) (cjump %n gt %m b done)) "
     "(block b (binop %i1 i32 add %i %one) (cjump %i1 gt %m b2 t)) "
     "(block b2 (jump e)) "
     "(block t (fcall %r i32 @g %i1 %m) (ret %r)) "
     "(block done (ret %i))))")),
    # route (a): mem2reg puts `undefined` at index 0 of an entry block that is a loop header with phis; the function is
    # self tail recursive (pipelines mem2reg -> tailcall / clean / cjump)
    ("phi-entry-loop-slot-tailcall", K("p6", "(func g global i32 e (params (n i32) (m i32)) (blocks "
     "(block e (phi %i i32 (b2 %i1)) (alloc %s 4 4) (addrof %ps %s) (const %one i32 1) (const %z i32 0) "
     "(load %v i32 %ps) (binop %nv i32 add %n %v) (cjump %nv gt %m b done)) "
     "(block b (binop %i1 i32 add %i %one) (cjump %i1 gt %m b2 t)) "
     "(block b2 (jump e)) "
     "(block t (fcall %r i32 @g %i1 %m) (ret %r)) "
     "(block done (store i32 %i %ps) (load %w i32 %ps) (binop %o i32 add %w %i) (ret %o))))")),
    ("phi-entry-loop-slot-clean-cjump", K("p7", "(func g global i32 e (params (n i32) (m i32)) (blocks "
     "(block e (phi %i i32 (b2 %i1) (b3 %n)) (alloc %s 4 4) (addrof %ps %s) (const %one i32 1) (const %z i32 0) "
     "(load %v i32 %ps) (binop %nv i32 add %n %v) (cjump %nv gt %m b done)) "
     "(block b (binop %i1 i32 add %i %one) (cjump %i1 gt %m b2 c)) "
     "(block c (cjump %z eq %one b3 b4)) "
     "(block b2 (jump e)) (block b3 (jump e)) (block b4 (jump done)) "
     "(block done (store i32 %i %ps) (load %w i32 %ps) (ret %w))))")),
    # --- CleanPass ---
    ("clean-critical-edge", K("k15", "(func f global i32 A (params (x i32)) (blocks "
     "(block A (const %z i32 0) (const %c1 i32 11) (const %c2 i32 22) (cjump %x eq %z E T)) "
     "(block E (jump T)) (block T (phi %p i32 (A %c1) (E %c2)) (ret %p))))")),
    ("clean-two-empty-arms", K("k16", "(func f global i32 A (params (x i32)) (blocks "
     "(block A (const %z i32 0) (const %c1 i32 11) (const %c2 i32 22) (cjump %x eq %z E1 E2)) "
     "(block E1 (jump T)) (block E2 (jump T)) (block T (phi %p i32 (E1 %c1) (E2 %c2)) (ret %p))))")),
    ("clean-glue-phi", K("k17", "(func f global i32 A (params (x i32)) (blocks "
     "(block A (const %one i32 1) (binop %y i32 add %x %one) (jump B)) "
     "(block B (phi %p i32 (A %y)) (binop %q i32 mul %p %p) (ret %q))))")),
    # chain of empty blocks, an empty block that is a loop header, an empty self loop
    ("clean-empty-chain", K("k18", "(func f global i32 A (params (x i32)) (blocks "
     "(block A (const %z i32 0) (const %one i32 1) (cjump %x eq %z E1 L)) "
     "(block E1 (jump E2)) (block E2 (jump T)) "
     "(block L (jump L2)) (block L2 (phi %i i32 (L %z) (L3 %i1)) (binop %i1 i32 add %i %one) (cjump %i1 lt %x L3 T)) "
     "(block L3 (jump L2)) "
     "(block T (phi %p i32 (E2 %z) (L2 %i1)) (ret %p))))")),
    ("clean-self-loop", K("k19", "(func f global void A (params (x i32)) (blocks "
     "(block A (const %z i32 0) (cjump %x eq %z S X)) (block S (jump S)) (block X (exit))))")),
    # --- replace_by on users that hold the value in two slots (fixed: 210c22a) ---
    ("replace-two-slots", K("k20", "(func f global i32 e (params (x i32)) (blocks (block e "
     "(const %z i32 0) (binop %y i32 add %x %z) (binop %w i32 mul %y %y) (ret %w))))")),
    ("replace-two-phi-edges", K("k21", "(func f global i32 e (params (x i32)) (blocks "
     "(block e (const %z i32 0) (binop %y i32 add %x %z) (cjump %x gt %z a b)) "
     "(block a (jump j)) (block b (jump j)) (block j (phi %p i32 (a %y) (b %y)) (ret %p))))")),
    ("cse-two-call-args", K("k22", "(func g local i32 e (params (a i32) (b i32)) (blocks (block e "
     "(binop %r i32 sub %a %b) (ret %r)))) (func f global i32 e (params (x i32) (y i32)) (blocks (block e "
     "(binop %a i32 add %x %y) (binop %b i32 add %x %y) (fcall %r i32 @g %b %b) (ret %r))))")),
    # --- ConstantFolder ---
    ("constfold-dead-rem0", K("k23", "(func f global i32 e (params (x i32)) (blocks "
     "(block e (const %z i32 0) (const %c7 i32 7) (cjump %x ne %z dead live)) "
     "(block dead (binop %u i32 rem %c7 %z) (ret %u)) (block live (ret %x))))")),
    # constant operations that are undefined at run time (the folder must leave them alone, not raise)
    ("constfold-undefined-ops", K("k26", "(func f global i32 e (params (x i32)) (blocks "
     "(block e (const %a i32 7) (const %z i32 0) (const %n i32 -3) (cjump %x ne %z dead live)) "
     "(block dead (binop %u i32 div %a %z) (binop %v i32 shl %a %n) (binop %w i32 shr %a %n) "
     "(binop %s i32 add %u %v) (binop %t i32 add %s %w) (ret %t)) (block live (ret %x))))")),
    ("constfold-cast-inf-nan", K("k27", "(func f global i32 e (params (x i32)) (blocks "
     "(block e (const %z i32 0) (fconst %i f64 INF) (fconst %q f64 NAN) (cjump %x ne %z dead live)) "
     "(block dead (cast %u i32 %i) (cast %v i32 %q) (binop %s i32 add %u %v) (ret %s)) (block live (ret %x))))"
     .replace("INF", "%d" % INF_BITS).replace("NAN", "%d" % NAN_BITS))),
    ("constfold-chain", K("k24", "(func f global i8 e (params (y i8)) (blocks (block e "
     "(const %c i8 100) (binop %a i8 add %y %c) (binop %b i8 add %a %c) (cast %w i32 %c) (cast %v i8 %w) "
     "(binop %r i8 sub %b %v) (ret %r))))")),
    # --- an indirect call through a value that a pass replaces by a global (open findings *:operand-types[call-signature]) ---
    ("callee-addzero", K("c1", F1 + "(func main global i32 e (params (a i32) (b i32)) (blocks (block e "
     "(const %z ptr 0) (binop %p ptr add @f1 %z) (fcall %r i32 %p %a %b) (ret %r))))")),
    ("callee-las", K("c2", F1 + "(func main global i32 e (params (a i32) (b i32)) (blocks (block e "
     "(alloc %s 8 8) (addrof %ps %s) (store ptr @f1 %ps) (load %p ptr %ps) "
     "(fcall %r i32 %p %a %b) (ret %r))))")),
    ("callee-mem2reg", K("c3", F1 + "(func main global i32 e (params (a i32) (b i32)) (blocks (block e "
     "(alloc %s 8 8) (addrof %ps %s) (store ptr @f1 %ps) (jump n)) "
     "(block n (load %p ptr %ps) (fcall %r i32 %p %a %b) (ret %r))))")),
    ("callee-clean", K("c4", F1 + "(func main global i32 e (params (a i32) (b i32)) (blocks "
     "(block e (jump n)) (block n (phi %p ptr (e @f1)) (fcall %r i32 %p %a %b) (ret %r))))")),
    # the same shapes with matching arguments stay well-formed
    ("callee-ok", K("c5", F1 + "(func main global i32 e (params (a i32) (b i32)) (blocks (block e "
     "(const %z ptr 0) (binop %p ptr add @f1 %z) (fcall %r i32 %p %a) (alloc %s 8 8) (addrof %ps %s) "
     "(store ptr @f1 %ps) (load %q ptr %ps) (fcall %r2 i32 %q %b) (binop %w i32 add %r %r2) (ret %w))))")),
    # --- LoadAfterStore ---
    ("las-forward", K("k25", "(func f global i32 e (params (a i32) (b i32)) (blocks (block e "
     "(alloc %s 8 4) (addrof %ps %s) (store i32 %a %ps) (load %r i32 %ps) (store i32 %b %ps) (load %q i32 %ps) "
     "(binop %w i32 add %r %q) (ret %w))))")),
]

C_SOURCES = {
    "goto": """
int g1(int c) { int r = 1; if (c) goto L; L: goto M; M: r = r + c; return r; }
int g2(int c) { int r = 2; if (c) ; goto next; next: ; return r + c; }
int g3(int c, int d) { int r = 0; if (c) { } else { } if (d) { if (c) { } } while (c > 100) { } r = c + d; return r; }
int g4(int c) { int r = 0; switch (c) { case 1: case 2: break; default: ; } if (c) goto A; else goto A; A: return r + c; }
int g5(int c) { int r = c; again: if (r > 10) { r = r - 3; goto again; } if (r) goto out; out: ; for (;;) { if (r) break; else break; } return r; }
""",
    "tail": """
int tsum(int n, int acc) { if (n <= 0) return acc; return tsum(n - 1, acc + n); }
int gcd(int a, int b) { if (b == 0) return a; return gcd(b, a % b); }
int looptail(int n, int k) { while (k > 0) { n = n + k; k = k - 1; if (n > 100) return looptail(n - 100, k); } return n; }
int ack(int m, int n) { if (m == 0) return n + 1; if (n == 0) return ack(m - 1, 1); return ack(m - 1, ack(m, n - 1)); }
""",
    "flow": """
int g1; short g2[4];
int loc(int a, int b) { int x = a + 0; int y = b * 1; int z = x + y; int w = x + y; if (a > b) { z = z - w + 1; } else { w = w + 3; } g1 = z; return z * w + (a + 0) * (a + 0); }
int cnt(int n) { int s = 0; int i; for (i = 0; i < (n & 7); i = i + 1) { if (i == 3) continue; s = s + i + 2 + 3; g2[i & 3] = s; if (s > 40) break; } return s; }
int sw(int a) { int r = 0; switch (a & 7) { case 0: r = 1; case 1: r = r + 2; break; case 5: return 9; default: r = a; } do { r = r - 1; } while (r > 10); return r; }
int sc(int a, int b) { return (a > 0 && b > 0) || (a < -5 && !(b == 3)) ? a : b; }
int konst(int a) { if (1) a = a + 1; if (0) a = a * 2; while (0) { a = a - 1; } return a; }
""",
    "mem": """
struct S { int x; int y; };
int arr2[3][4];
int sc2(int a, int b) { struct S s; struct S t; s.x = a; s.y = b; t = s; s.x = b; return t.x + s.x; }
int idx(int a, int b) { arr2[a & 1][b & 3] = a + b; arr2[1][1] = 7; return arr2[a & 1][b & 3] + arr2[1][1]; }
int sel(int a) { int v[4]; int *p = v; p[0] = a; p[1] = a + 1; *(p + 1 + 1) = a + 2; return p[0] + *(p + 1) + *(p + 2); }
unsigned char nar(unsigned char a, signed char b) { unsigned char c = a + 200; signed char d = b - 100; if (c > 100) return c - d; return d; }
long long wide(long long a, int b) { long long t = a; if (b & 1) t = t + 1 + 1; else t = t - 1 - 1; return t * 3; }
void proc(int *p, int n) { int i = 0; while (i < n) { p[i] = i; i = i + 1; } }
""",
}


def corpus_texts():
    return [("corpus:" + n, t) for n, t in CORPUS]


def c_texts():
    from ppci import api
    out = []
    for g in irgen.c_modules("x86_64"):
        out.append(("c:" + g.module.name, irser.serialize(g.module)))
    for name, src in C_SOURCES.items():
        m = api.c_to_ir(io.StringIO(src), "x86_64")
        m.name = "cx_" + name
        out.append(("c:" + m.name, irser.serialize(m)))
    return out


GEN_CONFIGS = [
    dict(max_funcs=2, total_stmts=30),
    dict(max_funcs=2, total_stmts=24, copyblob=False, externals=False),
    dict(max_funcs=1, total_stmts=25, max_depth=2, calls=False),
    dict(max_funcs=2, total_stmts=30, floats=True),
    dict(max_funcs=3, total_stmts=40, undefined=True),
    dict(),
]


def gen_texts(ctx, n):
    out = []
    for k in range(n):
        kw = dict(GEN_CONFIGS[k % len(GEN_CONFIGS)])
        if "int_types" not in kw and k % 4 == 1:
            kw["int_types"] = [irgen.ir.i32, irgen.ir.u8, irgen.ir.i64]
        g = irgen.gen_module(ctx.rng, irgen.GenConfig(**kw), name=f"gen{k}")
        tree = T.parse(irser.serialize(g.module))
        mode = k % 3
        if mode == 1:
            cnt = T.pessimize(ctx.rng, tree)
        elif mode == 2:
            cnt = T.pessimize(ctx.rng, tree, addzero=5, cjump=4, demote=4, demote_phi=2)
        else:
            cnt = {}
        for kk, v in cnt.items():
            ctx.count(f"pessimise_{kk}", v)
        ls = local_slots(ctx.rng, tree, 2) if k % 3 != 1 else {}
        for kk, v in ls.items():
            ctx.count(f"localslot_{kk}", v)
        dg = degenerate_cfg(ctx.rng, tree, 3) if k % 2 == 0 or mode == 2 else {}
        if k % 2 == 1 or mode == 2:
            ctx.count("nonphi_before_phi", nonphi_before_phi(ctx.rng, tree))
        for kk, v in dg.items():
            ctx.count(f"degenerate_{kk}", v)
        out.append((f"gen{k}/{'plain' if not mode else 'pess' + str(mode)}{'+dg' if dg else ''}", T.show(tree)))
    return out


def degenerate_texts(ctx, texts, per):
    """variants of given modules (front-end produced / corpus) with stack slots outside the entry block and
    degenerate control flow"""
    out = []
    for tag, text in texts:
        for k in range(per):
            tree = T.parse(text)
            ls = local_slots(ctx.rng, tree, 2)
            for kk, v in ls.items():
                ctx.count(f"localslot_{kk}", v)
            dg = degenerate_cfg(ctx.rng, tree, 3)
            for kk, v in dg.items():
                ctx.count(f"degenerate_{kk}", v)
            npb = nonphi_before_phi(ctx.rng, tree, 0.7)
            ctx.count("nonphi_before_phi", npb)
            if dg or ls or npb:
                out.append((f"{tag}+dg{k}", T.show(tree)))
    return out


# ---- degenerate control flow (well-formedness preserving rewrites of the text tree) -----------------------------

def _retarget_phis(blocks, target, old_pred, new_preds):
    """phis of block `target`: the input for `old_pred` becomes one input per block of `new_preds`"""
    tb = next(b for b in blocks if b[1] == target)
    for i in tb[2:]:
        if i[0] == "phi":
            src = [p for p in i[3:] if p[0] == old_pred]
            if src:
                v = src[0][1]
                i[3:] = [p for p in i[3:] if p[0] != old_pred] + [[n, v] for n in new_preds]


def degenerate_cfg(rng, tree, count):
    """rewrite up to `count` unconditional jumps `B: jump T` of every function into degenerate shapes:
    same-arms: cjump ? T : T | same-empty: cjump ? F : F, F: jump T | empty-arms: cjump ? F1 : F2, both jump T
    | become-same: cjump ? F1 : F2, both jump G, G: jump T | chain: B -> F1 -> F2 -> T | self-loop: B -> S, S: cjump ? S : T.
    New blocks are inserted before or after their users at random (CleanPass visits blocks in list order).
    Phi inputs of T are moved to the new predecessor(s); every result is still well-formed (checked by the driver)."""
    done = collections.Counter()
    for fn in T.funcs_of(tree):
        nm = T.Namer(fn)
        for _ in range(rng.randint(0, count)):
            blocks = T.blocks_of(fn)
            cands = [b for b in blocks if len(b) > 2 and b[-1][0] == "jump" and b[-1][1] != b[1]]
            if not cands:
                break
            b = rng.choice(cands)
            tgt = b[-1][1]
            kind = rng.choice(["same-arms", "same-empty", "empty-arms", "become-same", "chain", "self-loop"])
            c1, c2 = nm.val("dg"), nm.val("dg")
            x = rng.choice([0, 1, 7])
            y = rng.choice([x, x, 2, -1])          # constant conditions (CJumpPass folds them) of both outcomes
            cond = rng.choice(list(T.CONDS))
            consts = [["const", "%" + c1, "i32", str(x)], ["const", "%" + c2, "i32", str(y)]]
            ints = [p for p in T.params_of(fn) if p[1] == "i32"]
            if ints and rng.random() < 0.5:          # a condition CJumpPass cannot fold
                consts = consts[:1]
                c2 = rng.choice(ints)[0]

            def cj(yes, no):
                return consts + [["cjump", "%" + c1, cond, "%" + c2, yes, no]]
            new = []
            if kind == "same-arms":
                b[-1:] = cj(tgt, tgt)
            elif kind == "same-empty":
                f = nm.blk(fn[1] + "_dg")
                b[-1:] = cj(f, f)
                new = [["block", f, ["jump", tgt]]]
                _retarget_phis(blocks, tgt, b[1], [f])
            elif kind == "empty-arms":
                f1, f2 = nm.blk(fn[1] + "_dg"), nm.blk(fn[1] + "_dg")
                b[-1:] = cj(f1, f2)
                new = [["block", f1, ["jump", tgt]], ["block", f2, ["jump", tgt]]]
                _retarget_phis(blocks, tgt, b[1], [f1, f2])
            elif kind == "become-same":
                f1, f2, g = nm.blk(fn[1] + "_dg"), nm.blk(fn[1] + "_dg"), nm.blk(fn[1] + "_dg")
                b[-1:] = cj(f1, f2)
                new = [["block", f1, ["jump", g]], ["block", f2, ["jump", g]], ["block", g, ["jump", tgt]]]
                _retarget_phis(blocks, tgt, b[1], [g])
            elif kind == "chain":
                f1, f2 = nm.blk(fn[1] + "_dg"), nm.blk(fn[1] + "_dg")
                b[-1:] = [["jump", f1]]
                new = [["block", f1, ["jump", f2]], ["block", f2, ["jump", tgt]]]
                _retarget_phis(blocks, tgt, b[1], [f2])
            else:
                sl = nm.blk(fn[1] + "_dg")
                b[-1:] = [["jump", sl]]
                new = [["block", sl] + cj(sl, tgt)]
                _retarget_phis(blocks, tgt, b[1], [sl])
            rng.shuffle(new)
            for nb in new:
                lo = 2 if fn[6][1][1] == fn[4] else 1       # never before the entry block
                fn[6].insert(rng.randint(lo, len(fn[6])), nb)
            done[kind] += 1
    return done


# ---- stack slots outside the entry block ------------------------------------------------------------------------

_SLOT_TYPES = [("i32", 4), ("i8", 1), ("u16", 2), ("i64", 8), ("u32", 4)]


def _dominators(fn):
    """block name -> set of names of its dominators (iterative data flow over the text tree)"""
    blocks = T.blocks_of(fn)
    names = [b[1] for b in blocks]
    succ = {b[1]: [t for t in (T.targets(b[-1]) if len(b) > 2 else []) if t in names] for b in blocks}
    preds = {n: [] for n in names}
    for n in names:
        for t in succ[n]:
            preds[t].append(n)
    entry = fn[4]
    dom = {n: set(names) for n in names}
    dom[entry] = {entry}
    changed = True
    while changed:
        changed = False
        for n in names:
            if n == entry:
                continue
            ps = [dom[q] for q in preds[n]]
            new = (set.intersection(*ps) if ps else set()) | {n}
            if new != dom[n]:
                dom[n] = new
                changed = True
    return dom, succ


def _in_loop(succ, n):
    seen, todo = set(), list(succ[n])
    while todo:
        x = todo.pop()
        if x == n:
            return True
        if x not in seen:
            seen.add(x)
            todo += succ[x]
    return False


def local_slots(rng, tree, count):
    """add up to `count` stack slots per function whose `alloc` sits in a NON-entry block B (preferably inside a loop):
    stores (of fresh constants) and loads (each used by a dead binop) are put into randomly chosen blocks dominated by
    B, so that some loads are reached without a store; sometimes the address escapes (cast to i64), sometimes the slot
    is larger than its type.  Well-formedness is preserved (B dominates every use of the address)."""
    done = collections.Counter()
    for fn in T.funcs_of(tree):
        nm = T.Namer(fn)
        for _ in range(rng.randint(0, count)):
            blocks = T.blocks_of(fn)
            dom, succ = _dominators(fn)
            cands = [b for b in blocks if b[1] != fn[4] and len(b) > 2]
            if not cands:
                break
            loops = [b for b in cands if _in_loop(succ, b[1])]
            B = rng.choice(loops) if loops and rng.random() < 0.75 else rng.choice(cands)
            t, size = rng.choice(_SLOT_TYPES)
            a, p = nm.val("ls"), nm.val("lp")
            pos = 2
            while pos < len(B) - 1 and B[pos][0] == "phi":
                pos += 1
            pos = rng.randint(pos, len(B) - 1)
            asize = size * rng.choice([1, 1, 2])
            B[pos:pos] = [["alloc", "%" + a, str(asize), str(size)], ["addrof", "%" + p, "%" + a]]
            first_free = {B[1]: pos + 2}
            below = [b for b in blocks if B[1] in dom[b[1]]]
            nstores = 0
            for b in rng.sample(below, min(len(below), rng.randint(1, 4))):
                at = rng.randint(first_free.get(b[1], 2 + sum(1 for i in b[2:] if i[0] == "phi")), len(b) - 1)
                if rng.random() < 0.45:
                    cst = nm.val("lc")
                    b[at:at] = [["const", "%" + cst, t, str(rng.choice([0, 1, 7, 100]))], ["store", t, "%" + cst, "%" + p]]
                    nstores += 1
                else:
                    ld, u = nm.val("ll"), nm.val("lu")
                    b[at:at] = [["load", "%" + ld, t, "%" + p], ["binop", "%" + u, t, "add", "%" + ld, "%" + ld]]
            if rng.random() < 0.15:
                esc = nm.val("le")
                B.insert(pos + 2, ["cast", "%" + esc, "i64", "%" + p])
                done["escaping"] += 1
            done["in_loop" if B in loops else "not_in_loop"] += 1
    return done


# ---- non-phi instructions in front of phis -------------------------------------------------------------------------

def nonphi_before_phi(rng, tree, prob=0.5):
    """in blocks that have phis, put fresh (unused) `const` / `undef` / `alloc` instructions in front of or between
    the phis (well-formedness does not ask for phis to come first; ppci's own mem2reg creates this shape)"""
    n = 0
    for fn in T.funcs_of(tree):
        nm = T.Namer(fn)
        for b in T.blocks_of(fn):
            nphi = sum(1 for i in b[2:] if i[0] == "phi")
            if not nphi or rng.random() > prob:
                continue
            last = max(k for k in range(2, len(b)) if b[k][0] == "phi")
            for _ in range(rng.randint(1, 2)):
                kind = rng.choice(["const", "undef", "alloc"])
                v = nm.val("np")
                ins = {"const": ["const", "%" + v, "i32", str(rng.randint(0, 9))],
                       "undef": ["undef", "%" + v, "i32"],
                       "alloc": ["alloc", "%" + v, "4", "4"]}[kind]
                b.insert(rng.randint(2, last), ins)
                last += 1
                n += 1
    return n


# ---- plan / evaluation -----------------------------------------------------------------------------------------------

class Plan:
    """all pass runs of one input module"""

    def __init__(self, tag, text):
        self.tag = tag
        self.text = text
        self.runs = []        # (pipeline name, steps, outer exception)
        self.model = []       # (pass name, after text | None, exception | None)


def make_plan(ctx, tag, text, pass_set, nseq, levels, with_model):
    tree = T.parse(text)
    try:
        T.load_module(tree)
    except T.LoadError as ex:
        ctx.count("input_not_loadable")
        ctx.note(f"{tag}: {ex}")
        return None
    plan = Plan(tag, text)
    for n in PASS_NAMES:
        plan.runs.append((n, run_sequence(tree, [n]), None))
    for lv in levels:
        steps, outer = run_optimize(tree, lv)
        plan.runs.append(("O" + lv, steps, outer))
    if len(text) < 3000:
        # mem2reg puts `undefined` at the top of the entry block (possibly in front of phis): the CFG-editing passes after it
        for names in (["mem2reg", "tailcall", "clean"], ["mem2reg", "cjump", "clean"], ["mem2reg", "clean", "tailcall"]):
            plan.runs.append(("seq:" + "+".join(names), run_sequence(tree, names), None))
    pool = list(pass_set) + (["cjump"] if "cjump" not in pass_set else [])
    for k in range(nseq):
        names = [ctx.rng.choice(pool) for _ in range(ctx.rng.randint(3, 9))]
        if k % 2 == 0:
            names.insert(ctx.rng.randrange(len(names)), "cjump")      # the pass outside the default pipeline
        plan.runs.append(("seq:" + "+".join(names), run_sequence(tree, names), None))
    if with_model:
        for n in MODELLED:
            s = plan.runs[PASS_NAMES.index(n)][1][0]
            plan.model.append((n, s[1], s[2]))
    return plan


def texts_of(plan):
    yield plan.text
    for _, steps, _ in plan.runs:
        for _, t, _ in steps:
            if t is not None:
                yield t


def violated(reply):
    """'ok 0 f:check1,operand-types[binop+phi];g:check' -> sorted list of distinct violated clauses"""
    out = set()
    for part in reply[5:].split(";"):
        if ":" in part:
            out.update(part.split(":", 1)[1].split(","))
    return sorted(out)


def evaluate(ctx, plan, wf, model_replies):
    tag, text = plan.tag, plan.text
    r0 = wf[text]
    if r0.startswith("bad-op"):
        raise common.BrokenCheck(f"{tag}: the driver cannot parse the input module")
    if r0 != "ok 1":
        ctx.count("input_not_wf")
        ctx.note(f"{tag}: input rejected by the checker ({r0[:100]}); skipped")
        return
    ctx.count("modules")
    for pname, steps, outer in plan.runs:
        prev = text
        broke = False
        for k, (p, after, exc) in enumerate(steps):
            ctx.count("programs")
            case = {"module": text, "pipeline": pname, "step": k, "pass": p, "tag": tag}
            if exc is not None:
                ctx.count(f"exception_{p}")
                ctx.count("eval_pass")
                ctx.fail(f"{p}:exception:{exc}", f"{p} raises {exc} on a well-formed module", dict(case, input=prev))
                broke = True
                break
            if after == prev:
                ctx.count(f"unchanged_{p}")
                continue
            ctx.count("eval_pass")
            ctx.count(f"changed_{p}")
            ctx.nontrivial((tag, pname, k))
            r = wf[after]
            if r.startswith("bad-op"):
                ctx.fail(f"{p}:output-not-expressible", f"the output of {p} cannot be parsed as Spec.IR", dict(case, input=prev, output=after))
                broke = True
                break
            if r != "ok 1":
                for chk in violated(r):
                    ctx.count(f"violation_{p}_{chk}")
                    ctx.fail(f"{p}:{chk}", f"{p} turns a well-formed module into one violating `{chk}` ({r[5:120]})",
                             dict(case, input=prev, output=after), reply=r)
                broke = True
                break
            prev = after
        if outer is not None and not broke:
            # every pass output was accepted, yet api.optimize (its final verify_module) raised
            ctx.count("optimize_outer_exception")
            ctx.fail(f"optimize:exception:{outer}", f"api.optimize raises {outer} outside a pass on a well-formed module",
                     {"module": text, "pipeline": pname, "tag": tag})
    for (n, after, exc), mr in zip(plan.model, model_replies):
        ctx.count("eval_model_vs_pass")
        case = {"module": text, "pass": n, "tag": tag}
        if exc is not None:
            if mr != "err " + exc:
                ctx.disagree(f"{n}: exception", case, "err " + exc, mr[:200])
        elif not mr.startswith("ok "):
            ctx.disagree(f"{n}: model raises", case, "ok", mr[:200])
        else:
            cm = T.show(T.canon(T.parse(mr[3:])))
            ci = T.show(T.canon(T.parse(after)))
            if cm != ci:
                ctx.disagree(f"{n}: model output differs from the real pass (alpha-normal forms)", case,
                             _first_diff(ci, cm), _first_diff(cm, ci))
    ctx.sample({"module": tag, "pipelines": len(plan.runs), "bytes": len(text)})


def _first_diff(a, b):
    i = 0
    while i < min(len(a), len(b)) and a[i] == b[i]:
        i += 1
    return a[max(0, i - 60): i + 100]


def drive(ctx, plans):
    """one `load`+`wf` per distinct text, `load`+`pass` per modelled pass; spread over WORKERS driver processes"""
    uniq = []
    seen = set()
    for pl in plans:
        for t in texts_of(pl):
            if t not in seen:
                seen.add(t)
                uniq.append(t)
    ctx.extra_cov["distinct_modules_checked"] = len(uniq)
    ctx.extra_cov["bytes_checked"] = sum(len(t) for t in uniq)
    # greedy balance by size
    uniq.sort(key=len, reverse=True)
    bins = [[] for _ in range(WORKERS)]
    load = [0] * WORKERS
    for t in uniq:
        k = load.index(min(load))
        bins[k].append(t)
        load[k] += len(t) + 200
    model_jobs = [(pi, mi, pl.text, n) for pi, pl in enumerate(plans) for mi, (n, _, _) in enumerate(pl.model)]
    mbins = [model_jobs[k::WORKERS] for k in range(WORKERS)]

    def one(k):
        lines = []
        for t in bins[k]:
            lines += ["load " + t, "wfx"]
        for (_, _, text, n) in mbins[k]:
            lines += ["load " + text, "pass " + n]
        if not lines:
            return k, []
        return k, ctx.driver("C03", lines)

    wf, mrep = {}, {}
    t0 = time.time()
    with concurrent.futures.ThreadPoolExecutor(max_workers=WORKERS) as ex:
        for k, rep in ex.map(one, range(WORKERS)):
            n = len(bins[k])
            for j, t in enumerate(bins[k]):
                wf[t] = rep[2 * j + 1] if not rep[2 * j].startswith("bad-op") else "bad-op"
            for j, (pi, mi, _, _) in enumerate(mbins[k]):
                mrep[(pi, mi)] = rep[2 * n + 2 * j + 1]
    ctx.extra_cov["driver_seconds"] = round(time.time() - t0, 1)
    for pi, pl in enumerate(plans):
        evaluate(ctx, pl, wf, [mrep[(pi, mi)] for mi in range(len(pl.model))])


def check(ctx):
    pass_set, order = pipeline_pass_set()
    ctx.extra_cov["optimize_pipeline"] = order
    ctexts = c_texts()
    inputs = corpus_texts() + ctexts
    ngen = 50 if ctx.thorough else 4
    inputs += gen_texts(ctx, ngen)
    small_c = [x for x in ctexts if len(x[1]) < 9000]
    inputs += degenerate_texts(ctx, small_c if ctx.thorough else small_c[:3], 2 if ctx.thorough else 1)
    inputs += degenerate_texts(ctx, [x for x in corpus_texts() if x[0].split(":")[1].startswith(("mem2reg", "tailcall", "clean", "cjump"))],
                               2 if ctx.thorough else 1)
    plans = []
    t0 = time.time()
    for k, (tag, text) in enumerate(inputs):
        small = len(text) < 6000
        if ctx.thorough:
            levels = ["0", "1", "2", "s"] if small else ["0", "2"]
            nseq = 8 if small else 3
        else:
            levels = ["0", "2"] + (["1", "s"] if tag.startswith("corpus:") else [])
            nseq = 2 if small else (1 if tag.startswith("gen") else 0)
        pl = make_plan(ctx, tag, text, pass_set, nseq, levels, with_model=True)
        if pl is not None:
            plans.append(pl)
    ctx.extra_cov["pass_run_seconds"] = round(time.time() - t0, 1)
    drive(ctx, plans)


def replay(ctx, rp):
    case = rp.get("case", rp)
    pass_set, _ = pipeline_pass_set()
    text = case["module"]
    tree = T.parse(text)
    plan = Plan(case.get("tag", "replay"), text)
    pname = case.get("pipeline", case.get("pass"))
    if pname.startswith("O"):
        steps, outer = run_optimize(tree, pname[1:])
        plan.runs.append((pname, steps, outer))
    else:
        names = pname[4:].split("+") if pname.startswith("seq:") else [pname]
        plan.runs.append((pname, run_sequence(tree, names), None))
    drive(ctx, [plan])
