"""C40 x86-64 System V ABI: argument/return locations and prologue/epilogue stack discipline.

regen : dumps the live register tables of the checked tree (argument registers as handed out by
        X86_64Arch.determine_arg_locations, return registers, arch._callee_save / _caller_save,
        the allocatable registers of every register class, arch.info.alias of the callee-save
        registers) into lean/PpciVerif/Gen/X64ABI.lean; Props.C40.gen_* re-check (decide) that they
        are the psABI's lists / what Model.X64CC assumes.
check : (1) determine_arg_locations / determine_rv_location of the REAL arch on every signature
        <= 4 (quick 3) arguments over the 11 scalar IR types + random signatures to 12 (+ long ones)
        against Model.X64CC (correspondence) and Spec.SysV (property, oracle through the driver);
        (2) the REAL gen_prologue/gen_epilogue instruction lists for frames with many used-register
        sets and stack sizes (Frame objects, and frames captured while ppci.api.cc compiles C
        functions) rendered to the abstract push/pop/sub/add/mov machine, compared with the model's
        lists and EXECUTED in Lean around an adversarial body, checking the discipline;
        (3) the same for the REAL gen_call and gen_function_enter lists (psABI view at the call
        instruction / on entry); (4) thorough: real interop through relocatable ELF objects linked
        by gcc - gcc-compiled driver calling ppci-compiled callees (through an assembly shim that
        checks rbx, rbp, r12-r15) and ppci-compiled callers calling gcc-compiled callees.
An instruction that the renderer does not recognise is reported, never ignored."""
import io
import itertools
import os
import shutil
import subprocess
import tempfile

from . import common

PROP = "C40"
LEAN_PROPS = "PpciVerif/Props/C40.lean"
LEAN_TARGETS = ["PpciVerif.Props.C40", "Drivers.C40"]
LEVEL = "proof"
LEVEL_TEXT = (
    "PARTIAL. Lean theorems about a hand model of X86_64Arch (System V branch). Proved for ALL inputs: (1) for every signature of scalar "
    "parameters (any length, i8..u64/ptr/f32/f64) determine_arg_locations returns exactly the psABI location of each argument (INTEGER in "
    "rdi,rsi,rdx,rcx,r8,r9, SSE in xmm0-7, the rest in consecutive 8-byte stack slots from rbp+16; Spec.SysV is a positional definition written from "
    "the psABI text) and determine_rv_location returns rax/xmm0; (2) for every used-register set and frame size, epilogue . body . prologue "
    "restores rsp, rbp and every psABI callee-saved register, rsp = 0 (mod 16) in the body given rsp = 8 (mod 16) at entry, and locals lie above the "
    "register save area - under the assumptions stated in the theorem (the body keeps rsp, writes a callee-saved register only if an alias is in "
    "used_regs, writes no save slot); (3) for every signature for which gen_call produces code (iff all stack arguments are 32/64-bit integers or "
    "pointers) the argument area is a multiple of 16, every argument - register and stack - is at its psABI location at the call instruction, rsp is "
    "restored, the result is read from rax/xmm0, and the clobber list carried by the emitted call instruction - direct AND indirect (call through a "
    "register) form - contains every register a psABI callee may destroy, so any value kept in a non-clobbered hardware register survives every "
    "conforming callee; (4) for every signature for which gen_function_enter produces code every parameter is read from "
    "its psABI location. The register tables of the live arch (argument/return registers, _callee_save, _caller_save, register classes, alias map) "
    "and the .clobbers of the real Call and CallReg instructions are dumped on every run and re-checked by decide. The model is tied to arch.py by a differential run, and the REAL prologue/epilogue/call/enter "
    "instruction lists are executed on the Lean stack machine against the Spec. The thorough tier searches for failing inputs with real gcc<->ppci "
    "calls through linked ELF objects. The unguarded statement is proved false (stack-passed float/double and 8/16-bit arguments raise "
    "NotImplementedError: open findings). Not proved: machine semantics of the instructions, register allocation, ELF/relocations, struct/blob "
    "arguments, varargs, wincc."
)
LEVEL_NOTE = (
    "trusted: Lean kernel; axioms propext/Classical.choice/Quot.sound; Spec.SysV (psABI 3.2 scalar rules, hand-written; validated in the thorough "
    "tier by real calls to/from gcc-compiled code); the abstract stack machine (64-bit abstract values, sub-registers identified with their parent, "
    "movsx/movss/movsd as moves); the renderer from ppci instruction objects to that machine; hand model <-> arch.py correspondence is sampled "
    "(exhaustive <= 4 args, random to 12, 45 alias variants of callee-saved use x frame sizes), not proved. Open findings: stack-passed float and "
    "8/16-bit arguments raise NotImplementedError in gen_call / gen_function_enter (theorems for those are _partial with an explicit guard)."
)
TECHNIQUE = ("Lean 4 proof (induction over the signature with the loop invariant of determine_arg_locations, symbolic execution of the "
             "prologue/epilogue/call sequences on an abstract stack machine) about a hand model + table translation (register lists, decide) + "
             "differential correspondence and Lean execution of the real instruction lists + gcc interop as failing-input search (thorough)")
RULE = ("signatures: all words of length <= 4 (quick 3) over 11 scalar IR types exhaustive, random length 5..12, fixed long ones (to 40 args); "
        "frames: every alias variant of every subset of the callee-save list (45 used-sets) x extra caller-saved/xmm registers x stack sizes 0..40 "
        "(thorough 0..300 + random to 2^20) + frames and call instructions (direct and through function pointers) captured from compiling generated "
        "C functions; gen_call with label and register callees; native ppci callers through function pointers with 1..5 live temporaries; ppci units with static pointer tables / struct arrays with pointers "
        "(relocations against data and code) linked by gcc and called through in both directions; distinct = distinct request line; non-trivial = "
        "signature with at least one stack argument, or frame that saves at least one register or has a non-zero stack size, or an error outcome")
TRUSTED = [
    "hand model Model.X64CC of ppci/arch/x86_64/arch.py (determine_arg_locations, determine_rv_location, gen_prologue, gen_epilogue, get_callee_saved, round_up16, gen_call, gen_function_enter), tied by differential run on every check",
    "Gen.X64ABI: dump of the live register tables by harness/c40.py regen()",
    "Spec.SysV: scalar part of the System V AMD64 psABI section 3.2 (classification, register sequences, figure 3.3 stack frame, callee-saved set, 16-byte alignment)",
    "the abstract stack machine Model.X64CC.step and the renderer harness/c40.py:render from ppci instruction objects (unrecognised instructions are reported as a broken correspondence)",
    "thorough: gcc 12 as the conforming compiler and linker",
]
ASSUMPTIONS = [
    "the function body leaves rsp as the prologue set it, writes only registers that are in frame.used_regs or caller-saved, and writes no stack slot of the register save area or the saved rbp (it may write its locals [rbp-stacksize, rbp) and anything below rsp) - register allocation itself is C06",
    "frame.used_regs contains only allocatable registers (members of arch.info.register_classes)",
    "push/pop/sub/add/mov/call/ret have their architectural effect on rsp and the 8-byte stack slots",
]
CHECK_WITHOUT_BUILD = False

LETTER = {"i8": "b", "u8": "B", "i16": "s", "u16": "S", "i32": "i", "u32": "I", "i64": "l", "u64": "L", "ptr": "p", "f32": "f", "f64": "d"}
LETTERS = "bBsSiIlLpfd"
INTS = "bBsSiIlLp"
FLOATS = "fd"
SMALL = "bBsS"


class Unrecognised(Exception):
    pass


# ------------------------------------------------------------------------------------------------
def _imports():
    from ppci import ir
    from ppci.arch.x86_64 import registers as R
    from ppci.arch.x86_64 import instructions as I
    from ppci.arch.x86_64 import sse2_instructions as S
    return ir, R, I, S


def ir_of(letter):
    ir, _, _, _ = _imports()
    return {"b": ir.i8, "B": ir.u8, "s": ir.i16, "S": ir.u16, "i": ir.i32, "I": ir.u32, "l": ir.i64, "L": ir.u64,
            "p": ir.ptr, "f": ir.f32, "d": ir.f64}[letter]


def reg_str(r):
    """ppci register object -> `r64:7` (class + num); unknown classes are reported"""
    _, R, _, _ = _imports()
    for cls, k in ((R.Register64, "r64"), (R.Register32, "r32"), (R.Register16, "r16"), (R.Register8, "r8"),
                   (R.XmmRegisterDouble, "xd"), (R.XmmRegisterSingle, "xs")):
        if type(r) is cls:
            if r.num is None:
                raise Unrecognised(f"uncoloured register {r}")
            return f"{k}:{r.num}"
    raise Unrecognised(f"register {r!r} of class {type(r).__name__}")


def parent_id(r):
    k, n = reg_str(r).split(":")
    n = int(n)
    if k in ("xd", "xs"):
        return 16 + n
    if k == "r8" and n >= 4:
        return n - 4
    return n


def loc_str(l):
    from ppci.arch.stack import StackLocation
    if isinstance(l, StackLocation):
        return f"st:{l.offset}:{l.size}"
    return reg_str(l)


def as_abi(ls):
    """read a ppci location string as a psABI location (independent of the Lean model)"""
    k, *r = ls.split(":")
    n = int(r[0])
    if k in ("r64", "r32", "r16"):
        return f"gpr:{n}"
    if k == "r8":
        return f"gpr:{n}" if n < 4 else "none"
    if k in ("xd", "xs"):
        return f"xmm:{n}"
    return f"mem:{n}"


def joined(xs):
    xs = list(xs)
    return ",".join(xs) if xs else "-"


# ------------------------------------------------------------------------------------------------
# rendering real instruction objects to the abstract stack machine
def make_renderer():
    ir, R, I, S = _imports()
    from ppci.arch.generic_instructions import Label, RegisterUseDef
    from ppci.arch.data_instructions import Db
    movlike = (I.bits64.MovRegRm, I.bits32.MovRegRm, I.bits16.MovRegRm, I.MovRegRm8, I.MovsxReg64Rm8, I.MovsxReg64Rm16,
               S.Movsd, S.Movss)
    regdirect = (I.RmReg64, I.RmReg32, I.RmReg16, I.RmReg8, S.RmXmmRegSingle, S.RmXmmRegDouble)

    def rid(r, vmap):
        if id(r) in vmap:
            return vmap[id(r)]
        if getattr(r, "num", None) is None or not getattr(r, "is_colored", True):
            raise Unrecognised(f"virtual register {r} outside the argument map")
        return parent_id(r)

    def render(ins, vmap):
        """-> abstract instruction string, 'call', 'ret', or None for an instruction without machine effect"""
        if isinstance(ins, (Label, RegisterUseDef)):
            return None
        if isinstance(ins, Db):
            return "data"
        if type(ins) is I.Push:
            return f"push:{rid(ins.reg, vmap)}"
        if type(ins) is I.Pop:
            return f"pop:{rid(ins.reg, vmap)}"
        if type(ins) in (I.SubImm, I.AddImm):
            if ins.reg is not R.rsp:
                raise Unrecognised(f"{ins}: immediate arithmetic on {ins.reg}")
            if ins.imm < 0:
                raise Unrecognised(f"{ins}: negative immediate")
            return ("sub:" if type(ins) is I.SubImm else "add:") + str(ins.imm)
        if type(ins) in (I.Call, I.CallReg):
            ids = sorted({parent_id(r) for r in ins.clobbers})
            cl = ".".join(str(i) for i in ids) if ids else "none"
            if type(ins) is I.CallReg:
                return f"callr:{rid(ins.reg, vmap)}:{cl}"
            return f"call:{cl}"
        if type(ins) is I.Ret:
            return "ret"
        if type(ins) in movlike:
            rm = ins.rm
            dst = ins.r if type(ins) in (S.Movsd, S.Movss) else ins.reg
            if type(rm) in regdirect:
                return f"mov:{rid(dst, vmap)}:{rid(rm.reg_rm if hasattr(rm, 'reg_rm') else rm.reg, vmap)}"
            if type(rm) is I.RmMemDisp:
                return f"ld:{rid(dst, vmap)}:{rid(rm.reg, vmap)}:{rm.disp}"
            raise Unrecognised(f"{ins}: operand {type(rm).__name__}")
        raise Unrecognised(f"{ins} ({type(ins).__name__})")

    return render


def render_list(render, instrs, vmap):
    """-> list of abstract strings (None dropped). Raises Unrecognised."""
    out = []
    for ins in instrs:
        s = render(ins, vmap)
        if s is not None:
            out.append(s)
    return out


# ------------------------------------------------------------------------------------------------
# translation: dump live tables
def _rrow(r):
    _, R, _, _ = _imports()
    kind = 1 if isinstance(r, (R.XmmRegisterDouble, R.XmmRegisterSingle)) else 0
    if not isinstance(r, (R.Register64, R.Register32, R.Register16, R.Register8, R.XmmRegisterDouble, R.XmmRegisterSingle)):
        raise ValueError(f"register {r!r} of unknown class {type(r).__name__}")
    return f"({kind}, {r.num}, {r.bitsize})"


def regen(ctx):
    from ppci.api import get_arch
    ir, R, I, S = _imports()
    from ppci.arch.registers import Register
    arch = get_arch("x86_64")
    if arch.has_option("wincc"):
        raise ValueError("default x86_64 arch has wincc set")

    def locs(ty, n):
        ls = arch.determine_arg_locations([ty] * n)
        regs = [l for l in ls if isinstance(l, Register)]
        return regs

    def lst(rs):
        return "[" + ", ".join(_rrow(r) for r in rs) + "]"
    # as many registers as are handed out before the first stack location, asked with 20 arguments
    int64 = locs(ir.i64, 20)
    int32 = locs(ir.i32, 20)
    int16 = locs(ir.i16, 20)
    int8 = locs(ir.i8, 20)
    ptrs = locs(ir.ptr, 20)
    f64 = locs(ir.f64, 20)
    f32 = locs(ir.f32, 20)
    rvs = [(LETTER[t.name], arch.determine_rv_location(t)) for t in
           (ir.i8, ir.u8, ir.i16, ir.u16, ir.i32, ir.u32, ir.i64, ir.u64, ir.ptr, ir.f32, ir.f64)]
    from ppci.arch.stack import Frame

    def call_clobbers(label):
        calls = [i for i in arch.gen_call(Frame("regen"), label, [], None) if type(i) in (I.Call, I.CallReg)]
        if len(calls) != 1:
            raise ValueError(f"gen_call emitted {len(calls)} call instructions for callee {label!r}")
        want = I.CallReg if isinstance(label, Register) else I.Call
        if type(calls[0]) is not want:
            raise ValueError(f"gen_call emitted {type(calls[0]).__name__} for callee {label!r}")
        return list(calls[0].clobbers)
    clob_direct = call_clobbers("callee")
    clob_indirect = call_clobbers(R.Register64("fp"))
    classes = [(rc.name, list(rc.registers)) for rc in arch.info.register_classes]
    alias = arch.info.alias
    universe = sorted(alias.keys(), key=lambda r: (_rrow(r)))
    cs_alias = [(c, sorted(alias[c.get_real()] if hasattr(c, "get_real") else alias[c], key=_rrow)) for c in arch._callee_save]
    txt = (
        "/- GENERATED by harness/c40.py regen() from the live ppci objects of the checked tree - do not edit -/\n"
        "namespace Gen.X64ABI\n\n"
        "/-! registers are (kind, num, bitsize): kind 0 = general purpose (Register64/32/16/8), 1 = xmm -/\n\n"
        "/-- registers handed out by `determine_arg_locations([i64]*20)` before the first stack location -/\n"
        f"def intArgRegs64 : List (Nat × Nat × Nat) := {lst(int64)}\n"
        f"def intArgRegs32 : List (Nat × Nat × Nat) := {lst(int32)}\n"
        f"def intArgRegs16 : List (Nat × Nat × Nat) := {lst(int16)}\n"
        f"def intArgRegs8 : List (Nat × Nat × Nat) := {lst(int8)}\n"
        f"def ptrArgRegs : List (Nat × Nat × Nat) := {lst(ptrs)}\n"
        f"def floatArgRegs64 : List (Nat × Nat × Nat) := {lst(f64)}\n"
        f"def floatArgRegs32 : List (Nat × Nat × Nat) := {lst(f32)}\n\n"
        "/-- `determine_rv_location` per type letter (b B s S i I l L p f d as character codes) -/\n"
        "def rvRegs : List (Nat × Nat × Nat × Nat) := ["
        + ", ".join(f"({ord(l)}, {_rrow(r)[1:-1]})" for l, r in rvs) + "]\n\n"
        "/-- `arch._callee_save` -/\n"
        f"def calleeSave : List (Nat × Nat × Nat) := {lst(arch._callee_save)}\n"
        "/-- `arch._caller_save` (clobber list of every call instruction) -/\n"
        f"def callerSave : List (Nat × Nat × Nat) := {lst(arch._caller_save)}\n\n"
        "/-- `.clobbers` of the call instruction `gen_call` emits for a label callee (`Call`) -/\n"
        f"def callClobbersDirect : List (Nat × Nat × Nat) := {lst(clob_direct)}\n"
        "/-- `.clobbers` of the call instruction `gen_call` emits for a register callee (`CallReg`, call through a pointer) -/\n"
        f"def callClobbersIndirect : List (Nat × Nat × Nat) := {lst(clob_indirect)}\n\n"
        "/-- registers the allocator may hand out: all members of `arch.info.register_classes` -/\n"
        "def allocatable : List (Nat × Nat × Nat) := "
        + lst([r for _, rs in classes for r in rs]) + "\n\n"
        "/-- every register known to `arch.info.alias` -/\n"
        f"def aliasUniverse : List (Nat × Nat × Nat) := {lst(universe)}\n\n"
        "/-- `arch.info.alias[c]` for each callee-save register c -/\n"
        "def calleeSaveAlias : List ((Nat × Nat × Nat) × List (Nat × Nat × Nat)) := ["
        + ", ".join(f"({_rrow(c)}, {lst(a)})" for c, a in cs_alias) + "]\n\n"
        "end Gen.X64ABI\n"
    )
    p = common.LEAN / "PpciVerif" / "Gen" / "X64ABI.lean"
    if not p.exists() or p.read_text() != txt:
        p.parent.mkdir(exist_ok=True)
        p.write_text(txt)


# ------------------------------------------------------------------------------------------------
# generators
CORPUS_SIGS = [
    "-", "l", "f", "d", "b",
    "lllllll",            # 7th integer argument -> first stack slot
    "llllllll", "lllllllll", "iiiiiiiii", "ppppppppp",
    "ddddddddd", "dddddddddd",
    "fffffffff", "ffffffffff", "fffffffffff",   # fixed finding: f32 stack slots were 4 bytes (offsets 16,20,24)
    "fdfdfdfdfdfd", "llllllfl", "ddddddddlllllll", "lllllldddddddddl", "ldldldldldldldldldld",
    "llllllb", "lllllls", "llllllBS", "lllllllbl", "bsilfdpllil", "BSILpfdBSILpfd",
    "l" * 40, "f" * 40, "ld" * 20, "ilfdpb" * 6,
]


def all_sigs(ctx):
    n = 4 if ctx.thorough else 3
    seen, out = set(), []

    def add(s):
        if s not in seen:
            seen.add(s)
            out.append(s)
    for s in CORPUS_SIGS:
        add(s)
    for k in range(0, n + 1):
        for w in itertools.product(LETTERS, repeat=k):
            add("".join(w) or "-")
    for _ in range(3000 if ctx.thorough else 300):
        k = ctx.rng.randint(5, 12)
        bias = ctx.rng.choice([LETTERS, INTS, FLOATS, "lid", "bsfl", LETTERS])
        add("".join(ctx.rng.choice(bias) for _ in range(k)))
    return out


def call_sigs(ctx, sigs):
    """signatures for gen_call / gen_function_enter (each costs two driver lines and a Lean execution)"""
    fixed = [s for s in sigs if s in CORPUS_SIGS]
    short = [s for s in sigs if s not in CORPUS_SIGS and len(s) <= 2]
    rest = [s for s in sigs if s not in CORPUS_SIGS and len(s) > 2]
    ctx.rng.shuffle(rest)
    return fixed + short + rest[: (2500 if ctx.thorough else 250)]


def used_sets(ctx):
    """every alias variant of every subset of the callee-save list, each with several sets of extra registers"""
    _, R, _, _ = _imports()
    variants = [
        [None, R.rbx, R.ebx, R.bx, R.bl],
        [None, R.r14, R.r14d],
        [None, R.r15, R.r15d],
    ]
    extras_pool = [R.rax, R.rcx, R.rdx, R.rsi, R.rdi, R.r8, R.r9, R.r10, R.r11, R.eax, R.ecx, R.ax, R.al, R.cl, R.dl, R.si, R.di,
                   R.r10d, R.xmm0, R.xmm1, R.xmm8, R.xmm15, R.xmm0_single, R.xmm9_single]
    out = []
    for combo in itertools.product(*variants):
        base = [r for r in combo if r is not None]
        out.append(base)
        out.append(base + ctx.rng.sample(extras_pool, ctx.rng.randint(1, 6)))
    return out


def stack_sizes(ctx):
    if ctx.thorough:
        xs = list(range(0, 301))
        xs += [ctx.rng.randint(301, 1 << 20) for _ in range(40)] + [4096, 4095, 4097, 65536, (1 << 20) + 8]
    else:
        xs = list(range(0, 41)) + [ctx.rng.randint(41, 1 << 16) for _ in range(8)] + [4096]
    return xs


def gen_c_function(rng, k):
    """a C function that keeps many values live across a call (forces callee-saved registers) with a local array"""
    nlive = rng.randint(1, 9)
    arr = rng.choice([0, 0, 1, 2, 3, 5, 8, 13, 40])
    nargs = rng.randint(0, 8)
    args = ", ".join(f"long a{i}" for i in range(nargs)) or "void"
    indirect = rng.random() < 0.5 or k < 2
    fp = f"long (*fp{k})(long)"
    if indirect:
        args = fp if args == "void" else fp + ", " + args
    lines = [f"long ext{k}(long x);", f"long fun{k}({args}) {{"]
    if arr:
        lines.append(f"  {rng.choice(['char', 'int', 'long'])} buf[{arr}];")
        lines.append("  buf[0] = 1;")
    for j in range(nlive):
        src = f"a{rng.randrange(nargs)}" if nargs else str(j + 1)
        lines.append(f"  long v{j} = {src} * {j + 3} + {j};")
    ncalls = rng.randint(1 if k < 4 else 0, 2)
    for j in range(ncalls):
        callee = f"fp{k}" if indirect and (j == 0 or rng.random() < 0.5) else f"ext{k}"
        lines.append(f"  long c{j} = {callee}({('v%d' % rng.randrange(nlive))});")
    terms = [f"v{j}" for j in range(nlive)] + [f"c{j}" for j in range(ncalls)] + (["buf[0]"] if arr else [])
    lines.append("  return " + " + ".join(terms) + ";")
    lines.append("}")
    return "\n".join(lines)


# ------------------------------------------------------------------------------------------------
def classify_loc_failure(impl_abi, spec):
    """name the failure class of one argument location"""
    ki, ks = impl_abi.split(":")[0], spec.split(":")[0]
    if ki != ks:
        return "register-vs-stack" if "mem" in (ki, ks) else "wrong-register-class"
    return "stack-offset" if ki == "mem" else "wrong-register"


def has_stack_float(sig):
    return sum(c in FLOATS for c in sig) > 8


def stack_small_ints(sig):
    n = 0
    for c in sig:
        if c in INTS:
            n += 1
            if n > 6 and c in SMALL:
                return True
    return False


def check_tables(ctx, arch):
    """the register-table part of the property evaluated directly on the live objects (independent of Lean)"""
    _, R, _, _ = _imports()
    abi_callee = {3, 5, 12, 13, 14, 15}
    alloc = [r for rc in arch.info.register_classes for r in rc.registers]
    saved_parents = set()
    for c in arch._callee_save:
        for a in arch.info.alias[c]:
            saved_parents.add((reg_str(a)))
    for r in alloc:
        ctx.count("eval_table")
        p = parent_id(r)
        if p in abi_callee and p != 5 and reg_str(r) not in saved_parents:
            ctx.fail("callee_save:allocatable-abi-callee-saved-register-not-saved",
                     f"{r} is allocatable, part of psABI callee-saved register {p}, but no member of arch._callee_save aliases it", reg_str(r))
        if p in (4, 5):
            ctx.fail("register_classes:rsp-or-rbp-allocatable", f"{r} is allocatable", reg_str(r))
    clob = {parent_id(r) for r in arch._caller_save}
    for r in alloc:
        p = parent_id(r)
        if p not in abi_callee and p not in clob:
            ctx.fail("caller_save:abi-caller-saved-register-assumed-preserved",
                     f"{r} (hardware register {p}) may hold a value across a call but the psABI lets the callee destroy it", reg_str(r))


def check_call_clobbers(ctx, arch, ins, origin):
    """the property at one real call instruction, evaluated on the live objects (independent of Lean): every allocatable
    register that is not psABI callee-saved must be in the instruction's clobber list.  -> 'direct' | 'indirect'"""
    _, _, I, _ = _imports()
    form = "indirect" if type(ins) is I.CallReg else "direct"
    ctx.count("eval_call_clobbers_" + form)
    clob = {parent_id(r) for r in ins.clobbers}
    abi_callee = {3, 5, 12, 13, 14, 15}
    alloc = {parent_id(r) for rc in arch.info.register_classes for r in rc.registers}
    missing = sorted(p for p in alloc if p not in abi_callee and p not in clob)
    if missing:
        ctx.fail(f"gen_call:{form}-call-missing-clobbers",
                 f"{origin}: the {form} call instruction '{ins}' does not list hardware registers {missing} as clobbered "
                 "(allocatable, not psABI callee-saved): values kept there are lost when the callee uses them", origin,
                 clobbers=sorted(clob), missing=missing)
    return form


def check(ctx):
    from ppci.api import get_arch
    from ppci.arch.stack import Frame
    ir, R, I, S = _imports()
    import time as _t0
    t_check0 = _t0.time()
    arch = get_arch("x86_64")
    render = make_renderer()
    check_tables(ctx, arch)

    reqs, handlers = [], []

    def ask(line, handler):
        reqs.append(line)
        handlers.append(handler)

    # ---- (1) argument / return locations -------------------------------------------------------
    sigs = all_sigs(ctx)

    def h_locs(sig, impl):
        def h(reply):
            ctx.count("eval_locs")
            if len(sig) > 6 or (sig != "-" and (sum(c in INTS for c in sig) > 6 or sum(c in FLOATS for c in sig) > 8)):
                ctx.nontrivial("locs " + sig)
            parts = reply.split(" ")
            if parts[0] != "ok" or len(parts) != 4:
                ctx.disagree("locs", sig, impl, reply)
                return
            _, m, mabi, spec = parts
            if m != impl:
                ctx.disagree("determine_arg_locations", sig, impl, m)
            il = [] if impl == "-" else impl.split(",")
            sl = [] if spec == "-" else spec.split(",")
            if len(il) != len(sl):
                ctx.fail("determine_arg_locations:wrong-number-of-locations", f"{sig}: {impl} vs psABI {spec}", sig, impl=impl, spec=spec)
                return
            for i, (a, b) in enumerate(zip(il, sl)):
                if as_abi(a) != b:
                    ctx.fail("determine_arg_locations:" + classify_loc_failure(as_abi(a), b),
                             f"argument {i} of ({sig}) is at {a}, the psABI puts it at {b}", sig, impl=impl, spec=spec)
                    return
                if a.startswith("st:") and a.split(":")[2] != "8":
                    ctx.fail("determine_arg_locations:slot-size", f"argument {i} of ({sig}): stack slot {a} is not an eightbyte", sig, impl=impl)
                    return
        return h
    for sig in sigs:
        tys = [] if sig == "-" else [ir_of(c) for c in sig]
        try:
            impl = joined(loc_str(l) for l in arch.determine_arg_locations(tys))
        except Unrecognised as e:
            impl = "unrecognised:" + str(e).replace(" ", "_")
        except Exception as e:  # noqa
            impl = "err " + type(e).__name__
        ask("locs " + sig, h_locs(sig, impl))
    ctx.extra_cov["signatures"] = len(sigs)
    ctx.extra_cov["exhaustive_signatures"] = f"all signatures of length <= {4 if ctx.thorough else 3} over {len(LETTERS)} scalar types"

    def h_rv(t, impl):
        def h(reply):
            ctx.count("eval_rv")
            parts = reply.split(" ")
            if parts[0] != "ok" or len(parts) != 4:
                ctx.disagree("rv", t, impl, reply)
                return
            if parts[1] != impl:
                ctx.disagree("determine_rv_location", t, impl, parts[1])
            if as_abi(impl) != parts[3]:
                ctx.fail("determine_rv_location:wrong-register", f"return type {t}: {impl}, psABI {parts[3]}", t, impl=impl)
        return h
    for t in LETTERS:
        ask("rv " + t, h_rv(t, reg_str(arch.determine_rv_location(ir_of(t)))))

    # ---- (2) prologue / epilogue ----------------------------------------------------------------
    frames = []   # (origin, used list, stacksize, prologue instrs, epilogue instrs)
    for used in used_sets(ctx):
        for n in stack_sizes(ctx) if len(used) <= 3 and not any(parent_id(r) < 3 or parent_id(r) > 15 for r in used) else stack_sizes(ctx)[:: 7]:
            fr = Frame("f")
            fr.used_regs.update(used)
            fr.stacksize = n
            frames.append(("direct", list(used), n, list(arch.gen_prologue(fr)), list(arch.gen_epilogue(fr))))
    # frames produced by the real code generator
    captured = []
    cg_arch = get_arch("x86_64")
    orig_pro, orig_epi = cg_arch.gen_prologue, cg_arch.gen_epilogue
    pend = {}

    def cap_pro(frame):
        lst = list(orig_pro(frame))
        pend[id(frame)] = lst
        return iter(lst)

    def cap_epi(frame):
        lst = list(orig_epi(frame))
        captured.append(("compiled:" + frame.name, sorted(frame.used_regs, key=str), frame.stacksize, pend.pop(id(frame), None), lst))
        return iter(lst)
    orig_call = cg_arch.gen_call
    captured_calls = []

    def cap_call(frame, label, args, rv):
        lst = list(orig_call(frame, label, args, rv))
        captured_calls.append((frame.name, label, lst))
        return iter(lst)
    cg_arch.gen_prologue, cg_arch.gen_epilogue, cg_arch.gen_call = cap_pro, cap_epi, cap_call
    from ppci.api import cc
    nfun = 60 if ctx.thorough else 8
    src = "\n".join(gen_c_function(ctx.rng, k) for k in range(nfun))
    try:
        cc(io.StringIO(src), cg_arch)
    except Exception as e:  # noqa
        raise common.BrokenCheck(f"ppci.api.cc failed on the generated frame functions: {type(e).__name__}: {e}")
    finally:
        del cg_arch.gen_prologue, cg_arch.gen_epilogue, cg_arch.gen_call
    for c in captured:
        if c[3] is None:
            raise common.BrokenCheck("gen_epilogue called for a frame whose prologue was not seen")
        ctx.count("programs_compiled_frames")
    frames += captured
    # every call instruction the real code generator emitted: its clobber list must cover the psABI caller-saved set
    ncalls = {"direct": 0, "indirect": 0}
    for fname, label, lst in captured_calls:
        calls = [i for i in lst if type(i) in (I.Call, I.CallReg)]
        if len(calls) != 1:
            ctx.disagree("captured gen_call", fname, f"{len(calls)} call instructions", "exactly one")
        for ins in calls:
            ncalls[check_call_clobbers(ctx, arch, ins, f"compiled:{fname} callee={label}")] += 1
    if not ncalls["direct"] or not ncalls["indirect"]:
        raise common.BrokenCheck(f"generated C functions did not produce both call forms: {ncalls}")
    ctx.extra_cov["call_instructions_from_codegen"] = ncalls
    ctx.extra_cov["frames"] = len(frames)
    ctx.extra_cov["frames_from_codegen"] = len(captured)

    def h_frame(origin, used_s, n, pro, epi):
        def h(reply):
            ctx.count("eval_frame_model")
            want = f"ok {joined(pro)} {joined(epi)}"
            if reply != want:
                ctx.disagree("gen_prologue/gen_epilogue", f"{origin} used={used_s} stacksize={n}", want, reply)
        return h

    def h_exec(what, case, sigprefix):
        def h(reply):
            ctx.count("eval_exec_" + what)
            if reply == "ok held":
                return
            if reply.startswith("ok viol:"):
                kind = reply[len("ok viol:"):]
                ctx.fail(f"{sigprefix}:{kind.split(':')[0]}", f"{what} {case}: {kind}", case, detail=kind)
            else:
                ctx.disagree("exec " + what, case, "ok held|viol", reply)
        return h
    for origin, used, n, pro_i, epi_i in frames:
        try:
            used_s = joined(reg_str(r) for r in used)
            pro = render_list(render, pro_i, {})
            epi = render_list(render, epi_i, {})
        except Unrecognised as e:
            ctx.disagree("render prologue/epilogue", f"{origin} used={used} stacksize={n}", "unrecognised: " + str(e), "(not executed)")
            continue
        # epilogue must end in ret (+ literal pool data)
        if "ret" not in epi or any(x != "data" for x in epi[epi.index("ret") + 1:]) or "ret" in pro or any(x.startswith("call") for x in pro + epi):
            ctx.disagree("render prologue/epilogue", f"{origin} used={used_s} stacksize={n}", joined(pro) + " / " + joined(epi), "ret missing or misplaced")
            continue
        epi = epi[: epi.index("ret")]
        if n > 0 or len(pro) > 2:
            ctx.nontrivial(f"frame {used_s} {n}")
        if len(ctx.samples) < 3 and len(pro) > 3:
            ctx.sample({"frame": origin, "used_regs": used_s, "stacksize": n, "prologue": joined(pro), "epilogue": joined(epi)})
        ask(f"frame {used_s} {n}", h_frame(origin, used_s, n, pro, epi))
        for rsp0 in (800008, 4611686018427387912):
            ask(f"execframe {used_s} {n} {rsp0} {joined(pro)} {joined(epi)}",
                h_exec("prologue/epilogue", f"{origin} used={used_s} stacksize={n} entry_rsp={rsp0}", "gen_prologue_epilogue"))

    # ---- (3) gen_call / gen_function_enter ---------------------------------------------------------
    VCLS = {"b": R.Register8, "B": R.Register8, "s": R.Register16, "S": R.Register16, "i": R.Register32, "I": R.Register32,
            "l": R.Register64, "L": R.Register64, "p": R.Register64, "f": R.XmmRegisterSingle, "d": R.XmmRegisterDouble}
    fr = Frame("caller")
    csigs = call_sigs(ctx, sigs)
    ctx.extra_cov["call_signatures"] = len(csigs)
    for sig in csigs:
        s = "" if sig == "-" else sig
        rvt = ctx.rng.choice(LETTERS + "-")
        args = [(ir_of(c), VCLS[c](f"a{i}")) for i, c in enumerate(s)]
        vmap = {id(a[1]): 100 + i for i, a in enumerate(args)}
        rv = None
        if rvt != "-":
            rv = (ir_of(rvt), VCLS[rvt]("rv"))
            vmap[id(rv[1])] = 99
        # gen_call: direct (label callee) and indirect (callee address in a register)
        for kind in ("d", "i"):
            if kind == "i" and sig not in CORPUS_SIGS and len(s) > 2 and ctx.rng.random() < 0.5:
                continue
            vm = dict(vmap)
            if kind == "d":
                label = "callee"
            else:
                label = R.Register64("fp")
                vm[id(label)] = 98
            pre = post = clob = None
            try:
                lst = render_list(render, list(arch.gen_call(fr, label, args, rv)), vm)
                calls = [x for x in lst if x.startswith("call")]
                if len(calls) != 1:
                    raise Unrecognised("not exactly one call instruction")
                k = lst.index(calls[0])
                pre, post = lst[:k], lst[k + 1:]
                clob = calls[0].split(":")[-1]
                if (kind == "i") != calls[0].startswith("callr:"):
                    raise Unrecognised(f"call form {calls[0]} for a {'register' if kind == 'i' else 'label'} callee")
                total = sum(int(x[4:]) for x in post if x.startswith("add:"))
                impl = f"ok {joined(pre)} {calls[0]} {joined(post)} {total}"
            except Unrecognised as e:
                impl = "unrecognised: " + str(e)
            except Exception as e:  # noqa
                impl = "err " + type(e).__name__

            def h_call(reply, sig=sig, rvt=rvt, impl=impl, kind=kind):
                ctx.count("eval_call_model")
                if impl.startswith("err") or sum(c in INTS for c in sig) > 6 or sum(c in FLOATS for c in sig) > 8:
                    ctx.nontrivial(f"call {sig} {rvt} {kind}")
                if reply != impl:
                    ctx.disagree("gen_call", f"{sig} rv={rvt} {'indirect' if kind == 'i' else 'direct'}", impl, reply)
                if impl.startswith("err"):
                    if impl == "err NotImplementedError" and has_stack_float(sig):
                        ctx.fail("gen_call:stack-arg-float:NotImplementedError", f"gen_call for ({sig}) raises NotImplementedError: a float/double argument passed on the stack", sig)
                    elif impl == "err NotImplementedError" and stack_small_ints(sig):
                        ctx.fail("gen_call:stack-arg-i8-i16:NotImplementedError", f"gen_call for ({sig}) raises NotImplementedError: an 8/16-bit integer argument passed on the stack", sig)
                    else:
                        ctx.fail("gen_call:raises:" + impl[4:], f"gen_call for ({sig}) raises {impl[4:]}", sig)
            ask(f"call {sig} {rvt} {kind}", h_call)
            if impl.startswith("ok"):
                def h_execcall(reply, sig=sig, rvt=rvt, kind=kind, clob=clob):
                    ctx.count("eval_exec_gen_call")
                    form = "indirect" if kind == "i" else "direct"
                    case = f"({sig}) rv={rvt} {form} call, clobbers={clob}"
                    if reply == "ok held":
                        return
                    if reply.startswith("ok viol:call-missing-clobbers:"):
                        ctx.fail(f"gen_call:{form}-call-missing-clobbers",
                                 f"gen_call {case}: the {form} call instruction does not list hardware registers {reply.split(':')[-1]} as clobbered, "
                                 "so the register allocator keeps values in them across a call whose psABI callee may destroy them", case, detail=reply)
                    elif reply.startswith("ok viol:"):
                        kindv = reply[len("ok viol:"):]
                        ctx.fail(f"gen_call:{kindv.split(':')[0]}", f"gen_call {case}: {kindv}", case, detail=kindv)
                    else:
                        ctx.disagree("exec gen_call", case, "ok held|viol", reply)
                ask(f"execcall {sig} {rvt} {joined(pre)} {clob} {joined(post)}", h_execcall)
            elif impl.startswith("unrecognised"):
                ctx.disagree("render gen_call", sig, impl, "(not executed)")
        # gen_function_enter
        try:
            lst = render_list(render, list(arch.gen_function_enter(args)), vmap)
            impl_e = "ok " + joined(lst)
        except Unrecognised as e:
            impl_e = "unrecognised: " + str(e)
        except Exception as e:  # noqa
            impl_e = "err " + type(e).__name__

        def h_enter(reply, sig=sig, impl_e=impl_e):
            ctx.count("eval_enter_model")
            if reply != impl_e:
                ctx.disagree("gen_function_enter", sig, impl_e, reply)
            if impl_e.startswith("err"):
                if impl_e == "err NotImplementedError" and stack_small_ints(sig):
                    ctx.fail("gen_function_enter:stack-param-i8-i16:NotImplementedError",
                             f"gen_function_enter for ({sig}) raises NotImplementedError: an 8/16-bit integer parameter received on the stack", sig)
                else:
                    ctx.fail("gen_function_enter:raises:" + impl_e[4:], f"gen_function_enter for ({sig}) raises {impl_e[4:]}", sig)
        ask(f"enter {sig}", h_enter)
        if impl_e.startswith("ok"):
            ask(f"execenter {sig} {impl_e[3:]}", h_exec("gen_function_enter", f"({sig})", "gen_function_enter"))
        elif impl_e.startswith("unrecognised"):
            ctx.disagree("render gen_function_enter", sig, impl_e, "(not executed)")

    import time as _t
    t_drv = _t.time()
    replies = ctx.driver("C40", reqs)
    ctx.extra_cov["timing_s"] = {"build_and_audit_before_check": round(t_check0 - ctx.t0, 1), "python_side": round(t_drv - t_check0, 1),
                                 "lean_driver": round(_t.time() - t_drv, 1), "driver_lines": len(reqs)}
    for rq, rp, h in zip(reqs, replies, handlers):
        if rp == "bad-op":
            raise common.BrokenCheck("driver refused: " + rq[:200])
        h(rp)
    ctx.sample({"request": reqs[len(CORPUS_SIGS) - 10], "reply": replies[len(CORPUS_SIGS) - 10]})
    ctx.extra_cov["exhaustive"] = True
    ctx.extra_cov["exhaustive_what"] = ctx.extra_cov["exhaustive_signatures"] + "; 45 alias variants of callee-saved use x listed stack sizes"

    # ---- (4a) native calls through function pointers with live temporaries (both tiers) ---------------
    if not os.environ.get("VERIF_C40_NO_INTEROP"):
        nf = 60 if ctx.thorough else 12
        if native_indirect(ctx, nf):
            ctx.extra_cov["native_indirect_calls"] = (f"{2 * nf} ppci callers (indirect + direct control) with 1..5 int / float temporaries live across a "
                                                      "call into gcc-compiled callees that overwrite every caller-saved register; linked by gcc, run natively")
        elif ctx.thorough:
            raise common.BrokenCheck("gcc not found (needed for the native interop search)")
        else:
            ctx.extra_cov["native_indirect_calls"] = "skipped: gcc not found"
            ctx.note("gcc not found: native indirect-call run skipped in the quick tier (the clobber-list checks do not need it)")
    # ---- (4a') statically initialised pointer tables: relocations against data as well as code (both tiers) ----
    if not os.environ.get("VERIF_C40_NO_INTEROP"):
        nu = 8 if ctx.thorough else 2
        if native_tables(ctx, nu):
            ctx.extra_cov["native_pointer_tables"] = (f"{nu} ppci units with static tables of function pointers (to ppci and gcc functions), data pointers and "
                                                      "struct arrays with pointers, written as relocatable ELF, linked by gcc, called through in both directions")
        elif ctx.thorough:
            raise common.BrokenCheck("gcc not found (needed for the native interop search)")
        else:
            ctx.extra_cov["native_pointer_tables"] = "gcc not found: only the tool-free ELF section-overlap check ran"
    # ---- (4b) real interop (thorough) --------------------------------------------------------------
    if ctx.thorough and not os.environ.get("VERIF_C40_NO_INTEROP"):
        interop(ctx)
    else:
        ctx.extra_cov["interop"] = "not run in the quick tier"


def search(ctx):
    """proof/translation broke: evaluate the table part of the property on the live objects, then everything the driver can still do"""
    from ppci.api import get_arch
    check_tables(ctx, get_arch("x86_64"))
    try:
        check(ctx)
    except common.BrokenCheck as e:
        ctx.note("search: driver part not available: " + str(e)[:200])


def replay(ctx, rp):
    check(ctx)


# ------------------------------------------------------------------------------------------------
# (4) real interop: gcc <-> ppci through relocatable ELF objects linked by gcc (thorough tier, failing-input search)
CTYPE = {"b": "signed char", "B": "unsigned char", "s": "short", "S": "unsigned short", "i": "int", "I": "unsigned int",
         "l": "long", "L": "unsigned long", "p": "void*", "f": "float", "d": "double"}
RANGE = {"b": (-128, 127), "B": (0, 255), "s": (-32768, 32767), "S": (0, 65535), "i": (-2 ** 31, 2 ** 31 - 1), "I": (0, 2 ** 32 - 1),
         "l": (-2 ** 40, 2 ** 40), "L": (0, 2 ** 41), "p": (1, 2 ** 40)}

SHIM = r"""
    .text
    .globl shim_call
    .type shim_call,@function
/* unsigned long shim_call(void (*f)(void)): calls f with sentinels in rbx, rbp, r12-r15; returns a bit mask of
   what f did not preserve (1 rbx, 2 rbp, 4 r12, 8 r13, 16 r14, 32 r15, 64 rsp) */
shim_call:
    pushq %rbx
    pushq %rbp
    pushq %r12
    pushq %r13
    pushq %r14
    pushq %r15
    subq $8, %rsp
    movq %rsp, shim_saved_rsp(%rip)
    movabsq $0x1111111111111111, %rbx
    movabsq $0x2222222222222222, %rbp
    movabsq $0x3333333333333333, %r12
    movabsq $0x4444444444444444, %r13
    movabsq $0x5555555555555555, %r14
    movabsq $0x6666666666666666, %r15
    call *%rdi
    xorl %eax, %eax
    movabsq $0x1111111111111111, %rcx
    cmpq %rcx, %rbx
    je 1f
    orl $1, %eax
1:  movabsq $0x2222222222222222, %rcx
    cmpq %rcx, %rbp
    je 2f
    orl $2, %eax
2:  movabsq $0x3333333333333333, %rcx
    cmpq %rcx, %r12
    je 3f
    orl $4, %eax
3:  movabsq $0x4444444444444444, %rcx
    cmpq %rcx, %r13
    je 4f
    orl $8, %eax
4:  movabsq $0x5555555555555555, %rcx
    cmpq %rcx, %r14
    je 5f
    orl $16, %eax
5:  movabsq $0x6666666666666666, %rcx
    cmpq %rcx, %r15
    je 6f
    orl $32, %eax
6:  cmpq shim_saved_rsp(%rip), %rsp
    je 7f
    orl $64, %eax
    movq shim_saved_rsp(%rip), %rsp
7:  addq $8, %rsp
    popq %r15
    popq %r14
    popq %r13
    popq %r12
    popq %rbp
    popq %rbx
    ret
    .size shim_call, .-shim_call
    .bss
    .align 8
shim_saved_rsp:
    .quad 0
    .section .note.GNU-stack,"",@progbits
"""


# really overwrite every register a psABI callee is free to overwrite (declaring them clobbered is not enough: gcc then
# merely avoids them)
_GPRS = ["rcx", "rdx", "rsi", "rdi", "r8", "r9", "r10", "r11"]


def _scribble(name, gprs, xmms):
    body = ["movabsq $0x5a5a5a5a5a5a5a5a, %%" + gprs[0]]
    body += [f"movq %%{gprs[0]}, %%{g}" for g in gprs[1:]]
    body += [f"movq %%{gprs[0]}, %%xmm{i}" for i in xmms]
    clob = ", ".join(f'"{g}"' for g in gprs) + ", " + ", ".join(f'"xmm{i}"' for i in xmms)
    return (f"#define {name}() __asm__ volatile (" + " ".join(f'"{b}\\n\\t"' for b in body) + f" ::: {clob}, \"memory\")")


SCRIBBLE_DEF = "\n".join([
    _scribble("SCRIBBLE_ALL", ["rcx", "rax"] + _GPRS[1:], list(range(16))),      # before the result is computed
    _scribble("SCRIBBLE_KEEP_RAX", _GPRS, list(range(16))),                        # integer result already in hand
    _scribble("SCRIBBLE_KEEP_XMM0", ["rcx", "rax"] + _GPRS[1:], list(range(1, 16))),  # float result already in hand
])


def native_indirect(ctx, nfun):
    """ppci callers that call gcc-compiled System V callees THROUGH FUNCTION POINTERS (and, as controls, directly) while
    integer and floating-point temporaries are live across the call; the callees overwrite every caller-saved register.
    Linked by gcc, executed natively.  Returns False when gcc is not available."""
    gcc = shutil.which("gcc")
    if not gcc:
        return False
    from ppci.api import cc
    from ppci.format.elf import write_elf
    rng = ctx.rng
    CAL = {"double": ("dhalf", "({}) / 2"), "float": ("fhalf", "({}) / 2"), "long": ("lneg", "-({})"), "int": ("ineg", "-({})")}
    funcs = []     # (name, form, ppci_src, gcc_decl, call_expr, expect_expr, rtype)
    fixed = [("double", 1), ("float", 1), ("long", 3), ("int", 3), ("double", 3), ("long", 5)]
    for k in range(nfun):
        T, m = fixed[k] if k < len(fixed) else (rng.choice(list(CAL)), rng.randint(1, 5))
        isf = T in ("double", "float")
        callee, fexpr = CAL[T]
        op = "+" if isf else "-"
        names = [f"x{j}" for j in range(m)]
        last = "y"
        params = ", ".join(f"{T} {n}" for n in names + [last])
        if isf:
            vals = [repr(rng.randint(-400, 400) / 4.0) for _ in range(m + 1)]
        else:
            vals = [str(rng.randint(-30000, 30000)) for _ in range(m + 1)]
        cvals = [f"(({T}){v})" for v in vals]

        def nest(inner, ns):
            e = inner
            for n in reversed(ns):
                e = f"{n} {op} ({e})"
            return e
        inner_call = "{f}(y)" if isf else "y - {f}(y)"
        body_ind = nest(inner_call.format(f="fp"), names)
        body_dir = nest(inner_call.format(f=callee), names)
        want_inner = (fexpr.format(cvals[-1]) if isf else f"{cvals[-1]} - ({fexpr.format(cvals[-1])})")
        want = f"({T})(" + nest(want_inner, cvals[:-1]) + ")"
        fi, fd = f"ind_{k}", f"dir_{k}"
        funcs.append((fi, "indirect", f"{T} {fi}({T} (*fp)({T}), {params}) {{ return {body_ind}; }}\n",
                      f"{T} {fi}({T} (*fp)({T}), {params});", f"{fi}({callee}, {', '.join(cvals)})", want, T))
        funcs.append((fd, "direct", f"{T} {fd}({params}) {{ return {body_dir}; }}\n",
                      f"{T} {fd}({params});", f"{fd}({', '.join(cvals)})", want, T))
    header = "extern double dhalf(double v);\nextern float fhalf(float v);\nextern long lneg(long v);\nextern int ineg(int v);\n"
    tmp = tempfile.mkdtemp(prefix="verif-c40i-", dir="/tmp")
    try:
        try:
            o = cc(io.StringIO(header + "".join(f[2] for f in funcs)), "x86_64")
        except Exception as e:  # noqa
            ctx.fail(f"interop:indirect-call:ppci-compile-fails:{type(e).__name__}",
                     f"ppci cannot compile callers through function pointers: {type(e).__name__}: {str(e)[:160]}", {"src": funcs[0][2]})
            return True
        with open(os.path.join(tmp, "p.o"), "wb") as f:
            write_elf(o, f, type="relocatable")
        drv = ["#include <stdio.h>", "#include <string.h>", SCRIBBLE_DEF,
               "double dhalf(double v) { double r = v / 2; SCRIBBLE_KEEP_XMM0(); return r; }",
               "float fhalf(float v) { float r = v / 2; SCRIBBLE_KEEP_XMM0(); return r; }",
               "long lneg(long v) { long r = -v; SCRIBBLE_KEEP_RAX(); return r; }",
               "int ineg(int v) { int r = -v; SCRIBBLE_KEEP_RAX(); return r; }"]
        drv += [f[3] for f in funcs]
        drv.append("int main(void) {")
        for n, f in enumerate(funcs):
            fmt, cast = ("%a", "(double)") if f[6] in ("double", "float") else ("%ld", "(long)")
            drv.append(f"  {{ {f[6]} got = {f[4]}; {f[6]} want = {f[5]}; if (memcmp(&got, &want, sizeof want)) "
                       f"printf(\"MISMATCH {n} {fmt} {fmt}\\n\", {cast}got, {cast}want); else printf(\"OK {n}\\n\"); fflush(stdout); }}")
        drv.append("  return 0;\n}")
        open(os.path.join(tmp, "drv.c"), "w").write("\n".join(drv) + "\n")
        r = subprocess.run([gcc, "-O1", "-fno-inline", "-no-pie", "-w", "-o", "drv", "drv.c", "p.o"], cwd=tmp, capture_output=True, text=True)
        if r.returncode != 0:
            raise common.BrokenCheck("gcc could not build the indirect-call driver:\n" + r.stderr[-1500:])
        try:
            pr = subprocess.run(["./drv"], cwd=tmp, capture_output=True, text=True, timeout=60)
            rc, out = pr.returncode, pr.stdout
        except subprocess.TimeoutExpired:
            rc, out = -999, ""
        seen = {}
        for line in out.splitlines():
            seen[int(line.split()[1])] = line
        for n, f in enumerate(funcs):
            ctx.count("eval_native_" + f[1] + "_call")
            ctx.count("programs_interop")
            ctx.nontrivial("native " + f[2])
            line = seen.get(n)
            case = {"function": f[2], "call": f[4], "expected": f[5]}
            if line is None:
                ctx.fail(f"interop:{f[1]}-call:crash-or-no-result", f"{f[0]}: the driver stopped (rc={rc}) before printing a result", case)
                break
            if line.startswith("MISMATCH"):
                ctx.fail(f"interop:{f[1]}-call:value-live-across-call-lost",
                         f"{f[0]}: a ppci caller keeps temporaries across a{'n indirect' if f[1] == 'indirect' else ' direct'} call to a System V callee that "
                         f"overwrites all caller-saved registers: got/expected {line.split()[2:]}  [{f[2].strip()}]", case, output=line)
        ctx.sample({"native_indirect_caller": funcs[0][2].strip(), "call": funcs[0][4]})
        return True
    finally:
        shutil.rmtree(tmp, ignore_errors=True)


def elf_section_overlaps(data):
    """tool-free sanity check of a written ELF64 object: every section's file range lies inside the file and no two
    non-empty, file-backed sections overlap.  -> list of problem strings"""
    import struct
    if data[:4] != b"\x7fELF" or data[4] != 2:
        return ["not an ELF64 file"]
    shoff, = struct.unpack_from("<Q", data, 0x28)
    shentsize, shnum, shstrndx = struct.unpack_from("<HHH", data, 0x3A)
    secs = []
    for i in range(shnum):
        name, typ, _flags, _addr, off, size, _link, _info, _align, _ent = struct.unpack_from("<IIQQQQIIQQ", data, shoff + i * shentsize)
        secs.append((i, name, typ, off, size))
    stroff = secs[shstrndx][3] if shstrndx < len(secs) else 0

    def nm(n):
        e = data.index(b"\0", stroff + n)
        return data[stroff + n:e].decode("latin1")
    problems = []
    ranges = []
    for i, name, typ, off, size in secs:
        if typ in (0, 8) or size == 0:      # SHT_NULL, SHT_NOBITS
            continue
        if off + size > len(data):
            problems.append(f"section {nm(name)} [{off},{off + size}) beyond end of file {len(data)}")
        ranges.append((off, off + size, nm(name)))
    ranges.sort()
    for (a0, a1, an), (b0, b1, bn) in zip(ranges, ranges[1:]):
        if b0 < a1:
            problems.append(f"sections {an} [{a0},{a1}) and {bn} [{b0},{b1}) overlap in the file")
    return problems


def native_tables(ctx, nunits):
    """ppci units with statically initialised tables of function pointers (to ppci and to gcc functions), data pointers to
    objects in other sections and initialised struct arrays holding pointers (relocations in `data` as well as `code`);
    a gcc driver calls through the tables in both directions and checks values and pointer identities.
    A ppci object that gcc cannot link although gcc's own object of the same source links is a failing input.
    Returns False when gcc is not available."""
    gcc = shutil.which("gcc")
    from ppci.api import cc
    from ppci.format.elf import write_elf
    rng = ctx.rng
    PBODY = ["a - b", "a ^ b", "a + 2 * b", "a * 3 - b", "b - a", "a + b + 1"]
    GBODY = ["a + b", "a * b", "a - 2 * b", "(a | b) + 1"]
    tmp = tempfile.mkdtemp(prefix="verif-c40t-", dir="/tmp")
    try:
        for u in range(nunits):
            npf, ngf = rng.randint(2, 5), rng.randint(2, 4)
            pb = [rng.choice(PBODY) for _ in range(npf)]
            gb = [rng.choice(GBODY) for _ in range(ngf)]
            ntab = rng.randint(2, 6)
            gtab = [rng.randrange(ngf) for _ in range(ntab)]          # ppci's table of gcc functions
            ptab = [rng.randrange(npf) for _ in range(rng.randint(2, 6))]   # exported table of ppci functions
            cells = [rng.randint(-10 ** 6, 10 ** 6) for _ in range(rng.randint(2, 4))]
            gcells = [rng.randint(-10 ** 6, 10 ** 6) for _ in range(2)]
            nent = rng.randint(2, 5)
            ents = [(rng.randint(1, 99), rng.choice(["p", "g"]), rng.randrange(min(npf, ngf)), rng.randrange(len(cells))) for _ in range(nent)]
            fk = rng.randint(1, 9)
            unit = ["typedef long (*binop)(long, long);", "typedef double (*fbinop)(double, float);",
                    "struct ent { long tag; binop f; long *p; };"]
            unit += [f"extern long g{j}(long a, long b);" for j in range(ngf)]
            unit += ["extern double gf(double x, float y);", "extern long gcell0;", "extern long gcell1;"]
            unit += [f"long p{j}(long a, long b) {{ return {pb[j]}; }}" for j in range(npf)]
            unit += [f"double pf(double x, float y) {{ return x * {fk} + y; }}"]
            unit += [f"long cell{j} = {v};" for j, v in enumerate(cells)]
            unit += [f"long *cell_ptr{j} = &cell{j};" for j in range(len(cells))]
            unit += ["long *gcell_ptr[2] = { &gcell0, &gcell1 };"]
            unit += [f"static binop gcc_ops[{ntab}] = {{ " + ", ".join(f"g{j}" for j in gtab) + " };", "static fbinop gcc_fop = gf;"]
            unit += [f"binop ppci_ops[{len(ptab)}] = {{ " + ", ".join(f"p{j}" for j in ptab) + " };", "fbinop ppci_fop = pf;"]
            unit += [f"struct ent ents[{nent}] = {{ " + ", ".join(f"{{ {t}, {k}{j}, &cell{c} }}" for t, k, j, c in ents) + " };"]
            unit += ["long table_gcc(int i, long a, long b) { return gcc_ops[i](a, b); }",
                     "double table_gcc_f(double x, float y) { return gcc_fop(x, y) + 1; }",
                     "long ent_call(int i, long a, long b) { return ents[i].f(a, b) + *ents[i].p + ents[i].tag; }",
                     f"long read_cells(void) {{ return " + " + ".join(f"*cell_ptr{j}" for j in range(len(cells))) + " + *gcell_ptr[0] - *gcell_ptr[1]; }"]
            unit_src = "\n".join(unit) + "\n"
            case = {"unit": unit_src}
            ctx.count("eval_native_tables_unit")
            ctx.count("programs_interop")
            ctx.nontrivial("tables " + unit_src)
            try:
                o = cc(io.StringIO(unit_src), "x86_64")
            except Exception as e:  # noqa
                ctx.fail(f"interop:tables:ppci-compile-fails:{type(e).__name__}", f"ppci cannot compile a unit with static pointer tables: {type(e).__name__}: {str(e)[:160]}", case)
                continue
            relsecs = sorted({r.section for r in o.relocations})
            if len(relsecs) < 2:
                raise common.BrokenCheck(f"generated table unit has relocations only against {relsecs}")
            buf = io.BytesIO()
            write_elf(o, buf, type="relocatable")
            blob = buf.getvalue()
            probs = elf_section_overlaps(blob)
            if probs:
                ctx.fail("interop:elf-sections-overlap", f"write_elf(relocatable) of a unit with relocations against {relsecs}: " + "; ".join(probs[:3]), case, problems=probs)
            if not gcc:
                continue
            d = os.path.join(tmp, f"u{u}")
            os.mkdir(d)
            open(os.path.join(d, "p.o"), "wb").write(blob)
            open(os.path.join(d, "unit.c"), "w").write(unit_src)
            a, b = rng.randint(-1000, 1000), rng.randint(-1000, 1000)
            x, y = rng.randint(-40, 40) / 4.0, rng.randint(-40, 40) / 4.0
            gexpr = lambda body: "(" + body.replace("a", f"({a}L)").replace("b", f"({b}L)") + ")"   # noqa
            drv = ["#include <stdio.h>", "typedef long (*binop)(long, long);", "typedef double (*fbinop)(double, float);",
                   "struct ent { long tag; binop f; long *p; };"]
            drv += [f"long g{j}(long a, long b) {{ return {gb[j]}; }}" for j in range(ngf)]
            drv += ["double gf(double x, float y) { return x / 2 - y; }", f"long gcell0 = {gcells[0]};", f"long gcell1 = {gcells[1]};"]
            drv += [f"extern long p{j}(long, long);" for j in range(npf)]
            drv += ["extern double pf(double, float);"] + [f"extern long cell{j}; extern long *cell_ptr{j};" for j in range(len(cells))]
            drv += ["extern long *gcell_ptr[2];", "extern binop ppci_ops[]; extern fbinop ppci_fop; extern struct ent ents[];",
                    "extern long table_gcc(int, long, long); extern double table_gcc_f(double, float); extern long ent_call(int, long, long); extern long read_cells(void);",
                    "static int n;",
                    '#define CK(what, got, want) do { long g_ = (long)(got), w_ = (long)(want); n++; if (g_ != w_) printf("MISMATCH %d %s got %ld want %ld\\n", n, what, g_, w_); else printf("OK %d\\n", n); fflush(stdout); } while (0)',
                    '#define CKD(what, got, want) do { double g_ = (got), w_ = (want); n++; if (g_ != w_) printf("MISMATCH %d %s got %a want %a\\n", n, what, g_, w_); else printf("OK %d\\n", n); fflush(stdout); } while (0)',
                    "int main(void) {"]
            # pointer identities first (a wrong slot is then reported, not called)
            for j in range(len(cells)):
                drv.append(f'  CK("cell_ptr{j}==&cell{j}", cell_ptr{j} == &cell{j}, 1);')
            drv.append('  CK("gcell_ptr[0]", gcell_ptr[0] == &gcell0, 1); CK("gcell_ptr[1]", gcell_ptr[1] == &gcell1, 1);')
            for i, j in enumerate(ptab):
                drv.append(f'  CK("ppci_ops[{i}]==p{j}", ppci_ops[{i}] == p{j}, 1);')
            drv.append('  CK("ppci_fop==pf", ppci_fop == pf, 1);')
            for i, (t, k, j, c) in enumerate(ents):
                drv.append(f'  CK("ents[{i}]", ents[{i}].tag == {t} && ents[{i}].f == {k}{j} && ents[{i}].p == &cell{c}, 1);')
            total = " + ".join(f"({v}L)" for v in cells) + f" + ({gcells[0]}L) - ({gcells[1]}L)"
            drv.append(f'  CK("read_cells", read_cells(), {total});')
            for i, j in enumerate(ptab):
                drv.append(f'  CK("gcc->ppci via ppci_ops[{i}]", ppci_ops[{i}]({a}L, {b}L), {gexpr(pb[j])});')
            drv.append(f'  CKD("gcc->ppci via ppci_fop", ppci_fop({x!r}, (float){y!r}), {x!r} * {fk} + (float){y!r});')
            for i, j in enumerate(gtab):
                drv.append(f'  CK("ppci->gcc via gcc_ops[{i}]", table_gcc({i}, {a}L, {b}L), {gexpr(gb[j])});')
            drv.append(f'  CKD("ppci->gcc via gcc_fop", table_gcc_f({x!r}, (float){y!r}), {x!r} / 2 - (float){y!r} + 1);')
            for i, (t, k, j, c) in enumerate(ents):
                body = pb[j] if k == "p" else gb[j]
                drv.append(f'  CK("ent_call({i})", ent_call({i}, {a}L, {b}L), {gexpr(body)} + ({cells[c]}L) + {t});')
            drv.append("  return 0;\n}")
            open(os.path.join(d, "drv.c"), "w").write("\n".join(drv) + "\n")
            r = subprocess.run([gcc, "-O1", "-no-pie", "-w", "-o", "drv", "drv.c", "p.o"], cwd=d, capture_output=True, text=True)
            if r.returncode != 0:
                # does gcc's own object of the same unit link?
                r2 = subprocess.run([gcc, "-O1", "-no-pie", "-w", "-o", "drv_gcc", "drv.c", "unit.c"], cwd=d, capture_output=True, text=True)
                if r2.returncode != 0:
                    raise common.BrokenCheck("generated table program does not build with gcc alone:\n" + r2.stderr[-1200:])
                msg = [l for l in r.stderr.splitlines() if "warning" not in l and "NOTE" not in l]
                ctx.fail("interop:link-fails", f"gcc/ld rejects the ppci object of a unit with relocations against {relsecs} (gcc's own object of the same source links): "
                         + " | ".join(msg[:3])[:300], case, linker=msg[:8])
                continue
            try:
                pr = subprocess.run(["./drv"], cwd=d, capture_output=True, text=True, timeout=60)
                rc, out = pr.returncode, pr.stdout
            except subprocess.TimeoutExpired:
                rc, out = -999, ""
            lines = out.splitlines()
            for line in lines:
                ctx.count("eval_native_tables_check")
                if line.startswith("MISMATCH"):
                    what = " ".join(line.split()[2:])
                    kind = "pointer-slot-wrong" if "==" in what or what.startswith("ents[") or what.startswith("gcell_ptr") else "wrong-value"
                    ctx.fail(f"interop:tables:{kind}", f"unit {u}: {what}", case, output=line)
            if rc != 0:
                ctx.fail("interop:tables:crash", f"unit {u}: driver ended with rc={rc} after {len(lines)} checks (last: {lines[-1] if lines else '-'})", case)
        ctx.sample({"native_tables_unit": unit_src[:600]})
        return bool(gcc)
    finally:
        shutil.rmtree(tmp, ignore_errors=True)


def c_value(rng, c):
    """a C constant of the type (exactly representable, sums cannot overflow): (text for gcc, text for ppci).
    The ppci text has no redundant cast (F64TOF64 / I64TOI64 of a constant is not selectable - a C29 matter)."""
    if c in "fd":
        v = rng.randint(-4000, 4000) / 4.0
        return f"(({CTYPE[c]}){v!r})", (f"({v!r})" if c == "d" else f"((float){v!r})")
    lo, hi = RANGE[c]
    v = rng.choice([lo, hi, rng.randint(lo, hi), rng.randint(lo, hi), rng.randint(max(lo, -100), min(hi, 100))])
    if c == "p":
        return f"((void*){v})", f"((void*){v})"
    return f"(({CTYPE[c]}){v})", (f"({v})" if c == "l" else f"(({CTYPE[c]}){v})")


def weighted(sig, names, cls):
    """C expression: weighted sum of the INTEGER (cls='i') or SSE (cls='f') arguments"""
    terms = []
    for j, (c, n) in enumerate(zip(sig, names)):
        w = 2 * j + 3
        # no redundant casts: ppci's instruction selector has no pattern for F64TOF64 / F32TOF32 (a C29 matter, not an ABI one)
        if cls == "i" and c in INTS:
            terms.append(f"{n}*{w}" if c == "l" else f"(long){n}*{w}")
        if cls == "f" and c in FLOATS:
            terms.append(f"{n}*{w}" if c == "d" else f"(double){n}*{w}")
    return " + ".join(terms) if terms else ("0" if cls == "i" else "0.0")


def interop(ctx):
    gcc = shutil.which("gcc")
    if not gcc:
        raise common.BrokenCheck("gcc not found (needed for the thorough interop search)")
    from ppci.api import cc
    from ppci.format.elf import write_elf
    rng = ctx.rng
    nsig = int(os.environ.get("VERIF_C40_INTEROP_SIGS", "120"))
    sigs = ["l" * 7, "l" * 9, "d" * 9, "d" * 12, "f" * 12, "fdfdfdfdfdfd", "iIlLpiIlLp", "bBsSiIlLpfd", "ldldldldldld", "llllllfl",
            "ddddddddlllllll", "pppppppp", "iiiiiiiiiiii", "", "l", "f", "bB", "sS"]
    while len(sigs) < nsig:
        k = rng.randint(0, 12)
        pool = rng.choice([LETTERS, "lidfp", "lLiIp", "fd", "bsil", LETTERS])
        sigs.append("".join(rng.choice(pool) for _ in range(k)))
    tests = []      # dict(name, kind 'callee'|'caller', sig, ppci_src, gcc_decl, gcc_def, call_expr, expect_expr, rtype)
    skipped = {"callee:stack-param-i8-i16": 0, "caller:stack-arg-float": 0, "caller:stack-arg-i8-i16": 0}
    for k, sig in enumerate(sigs):
        names = [f"a{j}" for j in range(len(sig))]
        params = ", ".join(f"{CTYPE[c]} {n}" for c, n in zip(sig, names)) or "void"
        both = [c_value(rng, c) for c in sig]
        vals = [b[0] for b in both]
        pvals = [b[1] for b in both]
        valnames = {n: v for n, v in zip(names, vals)}

        def subst(expr):
            # replace argument names by the constants (longest names first)
            for n in sorted(valnames, key=len, reverse=True):
                expr = expr.replace(n, valnames[n])
            return expr
        variants = []
        if any(c in INTS for c in sig) or not sig:
            variants.append(("isum", "long", weighted(sig, names, "i")))
        if any(c in FLOATS for c in sig):
            variants.append(("fsum", "double", weighted(sig, names, "f")))
        for j in rng.sample(range(len(sig)), min(2, len(sig))):
            variants.append((f"pick{j}", CTYPE[sig[j]], names[j]))
        for vname, rtype, body in variants:
            # --- gcc calls ppci callee -------------------------------------------------------------
            fn = f"pc_{vname}_{k}"
            if stack_small_ints(sig):
                skipped["callee:stack-param-i8-i16"] += 1
            else:
                live = rng.random() < 0.5      # keep the arguments live across a call that destroys every caller-saved register
                pre = "  long t = gnop(1);\n" if live else ""
                ret = f"t + ({body})" if live and rtype in ("long", "double") else f"{body}"
                if live and rtype not in ("long", "double"):
                    pre = "  gnop(1);\n"
                tests.append(dict(name=fn, kind="callee", sig=sig,
                                  ppci_src=f"{rtype} {fn}({params}) {{\n{pre}  return {ret};\n}}\n",
                                  gcc_decl=f"{rtype} {fn}({params});", gcc_def="",
                                  call=f"{fn}({', '.join(vals)})", expect=f"({rtype})({subst(body)})", rtype=rtype))
            # --- ppci caller calls gcc callee -----------------------------------------------------------
            gn = f"gc_{vname}_{k}"
            cn = f"pcall_{vname}_{k}"
            if has_stack_float(sig):
                skipped["caller:stack-arg-float"] += 1
            elif stack_small_ints(sig):
                skipped["caller:stack-arg-i8-i16"] += 1
            else:
                tests.append(dict(name=cn, kind="caller", sig=sig,
                                  ppci_src=f"extern {rtype} {gn}({params});\n{rtype} {cn}(void) {{\n  return {gn}({', '.join(pvals)});\n}}\n",
                                  gcc_decl=f"{rtype} {cn}(void);",
                                  gcc_def=f"{rtype} {gn}({params}) {{ CHECK_ALIGN(); clobber_all(); return {body}; }}\n",
                                  call=f"{cn}()", expect=f"({rtype})({subst(body)})", rtype=rtype))
    ctx.extra_cov["interop_skipped_known_findings"] = skipped
    tmp = tempfile.mkdtemp(prefix="verif-c40-", dir="/tmp")
    try:
        # compile the ppci side; an unexpected compile failure is located by compiling one function at a time
        header = "extern long gnop(long x);\n"

        def ppci_obj(ts, path):
            o = cc(io.StringIO(header + "".join(t["ppci_src"] for t in ts)), "x86_64")
            with open(path, "wb") as f:
                write_elf(o, f, type="relocatable")
        good = tests
        try:
            ppci_obj(good, os.path.join(tmp, "p.o"))
        except Exception:  # noqa
            good = []
            for t in tests:
                try:
                    cc(io.StringIO(header + t["ppci_src"]), "x86_64")
                    good.append(t)
                except Exception as e:  # noqa
                    ctx.count("eval_interop_compile")
                    ctx.fail(f"interop:{t['kind']}:ppci-compile-fails:{type(e).__name__}",
                             f"ppci cannot compile the {t['kind']} for signature ({t['sig']}): {type(e).__name__}: {str(e)[:120]}",
                             {"sig": t["sig"], "src": t["ppci_src"]})
            ppci_obj(good, os.path.join(tmp, "p.o"))
        # the gcc side
        drv = ["#include <stdio.h>", "#include <string.h>", "#include <stdlib.h>",
               "extern unsigned long shim_call(void (*f)(void));",
               SCRIBBLE_DEF,
               "static void clobber_all(void) { SCRIBBLE_ALL(); }",
               "static volatile long misaligned;",
               "/* in a gcc function entered with rsp = 8 (mod 16) the frame address (rbp after push rbp) is a multiple of 16 */",
               "#define CHECK_ALIGN() do { if ((unsigned long)__builtin_frame_address(0) & 15) misaligned++; } while (0)",
               "long gnop(long x) { CHECK_ALIGN(); clobber_all(); return x - 1; }"]
        for t in good:
            drv.append(t["gcc_decl"])
            if t["gcc_def"]:
                drv.append(t["gcc_def"])
        for n, t in enumerate(good):
            drv.append(f"static {t['rtype']} res_{n};")
            drv.append(f"static void th_{n}(void) {{ res_{n} = {t['call']}; }}")
        drv.append("int main(int argc, char **argv) {")
        drv.append("  int only = argc > 1 ? atoi(argv[1]) : -1; unsigned long m;")
        for n, t in enumerate(good):
            fmt = {"float": "%a", "double": "%a", "void*": "%p"}.get(t["rtype"], "%ld")
            cast = {"float": "(double)", "double": "", "void*": ""}.get(t["rtype"], "(long)")
            drv.append(f"  if (only < 0 || only == {n}) {{ {t['rtype']} want = {t['expect']}; misaligned = 0; m = shim_call(th_{n});"
                       f" if (m) printf(\"CLOBBER {n} %lu\\n\", m);"
                       f" if (misaligned) printf(\"MISALIGNED {n} %ld\\n\", misaligned);"
                       f" if (memcmp(&res_{n}, &want, sizeof want)) printf(\"MISMATCH {n} {fmt} {fmt}\\n\", {cast}res_{n}, {cast}want);"
                       f" else printf(\"OK {n}\\n\"); fflush(stdout); }}")
        drv.append("  return 0;\n}")
        open(os.path.join(tmp, "drv.c"), "w").write("\n".join(drv) + "\n")
        open(os.path.join(tmp, "shim.S"), "w").write(SHIM)
        r = subprocess.run([gcc, "-O1", "-fno-inline", "-no-pie", "-w", "-o", "drv", "drv.c", "shim.S", "p.o"], cwd=tmp, capture_output=True, text=True)
        if r.returncode != 0:
            raise common.BrokenCheck("gcc could not build the interop driver:\n" + r.stderr[-1500:])

        def run_drv(args):
            try:
                p = subprocess.run(["./drv", *args], cwd=tmp, capture_output=True, text=True, timeout=120)
                return p.returncode, p.stdout
            except subprocess.TimeoutExpired:
                return -999, ""
        rc, out = run_drv([])
        seen = {}
        for line in out.splitlines():
            w = line.split()
            seen.setdefault(int(w[1]), []).append(line)
        todo = [n for n in range(len(good)) if n not in seen] if rc != 0 else []
        for n in todo:      # the batch crashed: run the remaining tests one by one
            rc1, out1 = run_drv([str(n)])
            seen[n] = out1.splitlines() or []
            if rc1 != 0:
                seen[n].append(f"CRASH {n} rc={rc1}")
        for n, t in enumerate(good):
            ctx.count("eval_interop_" + t["kind"])
            ctx.count("programs_interop")
            lines = seen.get(n, [])
            case = {"sig": t["sig"], "function": t["name"], "ppci_src": t["ppci_src"], "call": t["call"]}
            if sum(c in INTS for c in t["sig"]) > 6 or sum(c in FLOATS for c in t["sig"]) > 8:
                ctx.nontrivial("interop " + t["name"])
            for line in lines:
                if line.startswith("CLOBBER"):
                    ctx.fail(f"interop:{t['kind']}:callee-saved-register-or-rsp-not-preserved",
                             f"{t['name']} ({t['sig']}): mask {line.split()[2]} (1 rbx 2 rbp 4 r12 8 r13 16 r14 32 r15 64 rsp)", case, output=line)
                elif line.startswith("MISMATCH"):
                    ctx.fail(f"interop:{t['kind']}:wrong-value",
                             f"{t['name']} ({t['sig']}): got/expected {line.split()[2:]}", case, output=line)
                elif line.startswith("MISALIGNED"):
                    ctx.fail(f"interop:{t['kind']}:stack-misaligned-at-call-into-gcc-code",
                             f"{t['name']} ({t['sig']}): a gcc-compiled function was entered with rsp != 8 (mod 16)", case, output=line)
                elif line.startswith("CRASH"):
                    ctx.fail(f"interop:{t['kind']}:crash", f"{t['name']} ({t['sig']}): {line}", case, output=line)
            if not lines:
                ctx.fail(f"interop:{t['kind']}:no-result", f"{t['name']} ({t['sig']}): driver printed nothing", case)
        ctx.extra_cov["interop"] = (f"{len(good)} functions over {len(sigs)} signatures linked with gcc and executed natively "
                                    f"(gcc->ppci callees through the callee-saved shim, ppci callers->gcc callees)")
        ctx.sample({"interop_function": good[0]["ppci_src"], "call": good[0]["call"]} if good else {})
    finally:
        shutil.rmtree(tmp, ignore_errors=True)
