"""C19 Motorola S-records: correspondence of Model.SRec with ppci/format/srecord.py and evaluation of
the property on the real writer (oracle: the Lean reader Spec.SRec.read run on the REAL file text)."""
import io
import os

PROP = "C19"
LEAN_PROPS = "PpciVerif/Props/C19.lean"
LEAN_TARGETS = ["PpciVerif.Props.C19", "Drivers.C19"]
LEVEL = "proof"
LEVEL_TEXT = (
    "Lean theorems about a hand model of SRecord.to_line / write_srecord, for EVERY byte string of any length placed at any section "
    "address with end <= 2^32: write_srecord succeeds; every emitted line satisfies the S-record grammar with correct count and "
    "one's-complement checksum; the independent strict Lean reader Spec.SRec.read (written from the Motorola format: S0, S1/S2/S3 with "
    "16/24/32-bit addresses, S5/S6, S7/S8/S9 pairing) decodes the file to exactly the code bytes at their addresses, each once and in "
    "order; the header text b'HDR' is carried by the single S0 record and no data record carries anything but code; data/termination "
    "record types are S1/S9, S2/S8, S3/S7 by the highest address, so no address is truncated. The model is tied to "
    "ppci/format/srecord.py by a differential run on every check (file text line by line, to_line incl. its errors); the Lean reader is "
    "fed the REAL file text and the property is evaluated on the real code."
)
LEVEL_NOTE = (
    "trusted: Lean kernel; axioms propext/Classical.choice/Quot.sound; the hand model <-> source correspondence is sampled, not proved; "
    "Spec.SRec is our reading of the Motorola S-record format (no bincopy/srec_cat in the sandbox to cross-check it); text modelled as a "
    "list of lines; the object is reduced to (code section address, code bytes); code ending above 2^32 is outside the theorem (the writer "
    "raises ValueError there, compared in the correspondence only)."
)
TECHNIQUE = ("Lean 4 proof (induction over the chunk loop, big-endian address split, hex/checksum round trip) over a hand model + "
             "differential correspondence with ppci/format/srecord.py + independent Lean S-record reader run on the real output")
RULE = ("code sizes {0,1,2,29,30,31,59,60,61,random<=300} plus 65535+-2 and 65536*k+-1 (thorough: all, k<=3; quick: 65535, 65537, 65539); section addresses "
        "{0, 0x8000, around 0x10000-size, 0xFFFF, 0x10000, around 0x1000000-size, 0x1000000, 2^32-size, random 16/24/32-bit}; to_line with "
        "all types 0..10, addresses around the field limits, data lengths around the count limit. distinct = distinct (address, code); "
        "non-trivial = more than one data record, or end address above 64 KiB, or non-zero section address, or an error outcome")
TRUSTED = [
    "hand model Model.SRec of ppci/format/srecord.py (big-endian split by div/mod, 30-byte chunks, record type choice), tied by differential run on every check",
    "Spec.SRec: S-record reader written from the Motorola format description (count, address widths, one's-complement checksum, S0/S1-3/S5-6/S7-9)",
]
ASSUMPTIONS = [
    "obj.get_section('code') gives the section; only its address (non-negative int) and data (bytes) are used",
    "print(line, file=f) writes the line followed by one newline; the file is observed as the list of its lines",
]

M32 = 1 << 32
# debugging knob: C19_LEGACY=1 compares the real code with the model of the PRE-repair code (Model.SRec.Legacy)
LEG = "l" if os.environ.get("C19_LEGACY") else ""
HDR = b"HDR"


def hx(b):
    return bytes(b).hex() or "-"


def ename(e):
    return "err " + type(e).__name__


def mkobj(address, code):
    from ppci.binutils.objectfile import ObjectFile, Section
    from ppci.api import get_arch
    obj = ObjectFile(get_arch("arm"))
    sec = Section("code")
    obj.add_section(sec)
    sec.add_data(bytes(code))
    sec.address = address
    return obj


def impl_write(address, code):
    from ppci.format.srecord import write_srecord
    f = io.StringIO()
    try:
        write_srecord(mkobj(address, code), f)
    except Exception as e:  # noqa
        return None, ename(e)
    txt = f.getvalue()
    if txt and not txt.endswith("\n"):
        return None, "ok <no final newline>"
    lines = txt[:-1].split("\n") if txt else []
    if any(set(l) - set("0123456789abcdefABCDEFS") for l in lines):
        return None, "ok <foreign characters>"
    return lines, "ok " + (",".join(lines) or "-")


CORPUS = [
    (0, b""), (0, b"\x00"), (0, bytes(range(29))), (0, bytes(range(30))), (0, bytes(range(31))), (0, bytes(range(40))),
    (0x8000, bytes(range(40))), (0xFFFF, b"\x01"), (0xFFFE, b"\x01\x02"), (0xFFFE, b"\x01\x02\x03"), (0x10000, b"\xaa"),
    (0xFFFFFF, b"\x01"), (0xFFFFFE, b"\x01\x02\x03"), (0x1000000, b"\x55" * 31), (0xFFFFFFFF, b"\x7f"), (0xFFFFFFE0, bytes(range(32))),
    (0, b"HDR"), (3, b"HDR" * 11), (0, bytes([0x0A, 0x0A, 0x0D] + [0] * 13)),
    (0, b"\xab" * 65537),
]


def sizes(ctx):
    if not ctx.thorough:
        return [65535]
    out = [65533, 65534, 65535, 65536, 65537, 65538]
    for k in (2, 3):
        out += [65536 * k - 1, 65536 * k, 65536 * k + 1]
    return out


def gen_cases(ctx):
    rng = ctx.rng
    cases = list(CORPUS)
    small = [0, 1, 2, 29, 30, 31, 59, 60, 61]
    for _ in range(1500 if ctx.thorough else 250):
        n = rng.choice(small) if rng.random() < 0.5 else rng.randint(0, 300)
        c = rng.random()
        if c < 0.2:
            a = 0
        elif c < 0.5:
            lim = rng.choice([0x10000, 0x1000000, M32])
            a = max(0, lim - n - rng.choice([-2, -1, 0, 0, 1, 2, 30, 31]))
        elif c < 0.7:
            a = rng.choice([0x8000, 0xFFFF, 0x10000, 0xFFFFFF, 0x1000000, 0x7FFFFFFF, 0x80000000])
        else:
            a = rng.randrange(1 << rng.choice([16, 24, 32]))
        if a + n > M32:
            a = M32 - n
        cases.append((a, rng.randbytes(n)))
    for b in sizes(ctx):
        for a in ([0, rng.choice([0x8000, 0xFF0000, M32 - b, rng.randrange(M32 - b)])] if ctx.thorough else [0]):
            cases.append((a, rng.randbytes(b)))
    if not ctx.thorough:
        cases.append((0xFF8000, rng.randbytes(65536 + 3)))
    # beyond 4 GiB: only the error behaviour is compared
    cases += [(M32 - 1, b"ab"), (M32, b"a"), (M32, b""), (M32 + 5, b"")]
    return cases


def expected_read(address, code):
    return "ok " + HDR.hex() + " 0 " + (f"{address}:{bytes(code).hex()}" if code else "-")


def eval_write(ctx, cases):
    reqs, impl, evs = [], [], []
    oracle = []
    for address, code in cases:
        ctx.count("eval_case")
        lines, res = impl_write(address, code)
        case = {"address": address, "code": bytes(code).hex() if len(code) <= 64 else None, "size": len(code),
                "code_sha": None if len(code) <= 64 else __import__("hashlib").sha1(bytes(code)).hexdigest(),
                "code_fill": (bytes(code)[:16].hex() if len(code) > 64 else None)}
        reqs.append(f"{LEG}write {address} {hx(code)}"); impl.append(res)
        nlines = len(lines) if lines else 0
        if nlines > 3 or address + len(code) > 0x10000 or address != 0 or res.startswith("err"):
            ctx.nontrivial(f"{address}|{len(code)}|{__import__("zlib").crc32(bytes(code))}")
        ctx.count("size_" + ("0" if not code else "1-30" if len(code) <= 30 else "31-300" if len(code) <= 300 else "big"))
        ctx.count("width_" + ("16" if address + len(code) <= 0x10000 else "24" if address + len(code) <= 0x1000000 else "32" if address + len(code) <= M32 else "over"))
        ev = {"case": case, "address": address, "code": bytes(code), "lines": lines, "res": res}
        if lines is not None:
            oracle.append("read " + (",".join(lines) or "-"))
            ctx.count("lines", len(lines))
        evs.append(ev)
    out = yield reqs + oracle
    model, spec = out[: len(reqs)], out[len(reqs):]
    for rq, i, m, ev in zip(reqs, impl, model, evs):
        ctx.count("eval_corr_write")
        if i != m:
            ctx.disagree("write_srecord", {"case": ev["case"], "request": rq[:200]}, i[:400], m[:400])
    # ---- the property on the real code ----------------------------------------------------
    k = 0
    diag = []
    for ev in evs:
        address, code = ev["address"], ev["code"]
        inside = address + len(code) <= M32
        if ev["lines"] is None:
            if inside:
                ctx.count("eval_property")
                if ev["res"].startswith("err"):
                    ctx.fail("write_srecord:raises", f"write_srecord raised {ev['res']}", ev["case"])
                else:
                    ctx.fail("write_srecord:text-not-lines-of-records", ev["res"], ev["case"])
            continue
        rd = spec[k]; k += 1
        if not inside:
            continue
        ctx.count("eval_property")
        if rd != expected_read(address, code):
            ev["read"] = rd
            diag.append(ev)
    if diag:
        lreqs = []
        for ev in diag:
            lreqs += ["rec " + l for l in ev["lines"]]
        rep = yield lreqs
        j = 0
        for ev in diag:
            address, code, case = ev["address"], ev["code"], ev["case"]
            recs = []
            badline = None
            for l in ev["lines"]:
                r = rep[j]; j += 1
                if r == "ok none":
                    badline = badline or l
                else:
                    _, t, a, h = r.split(" ")
                    recs.append((int(t), int(a), bytes.fromhex(h) if h != "-" else b""))
            found = False
            if badline is not None:
                ctx.fail("write_srecord:record-invalid", f"line {badline!r} violates the record grammar / count / checksum", case)
                found = True
            pos = address
            for t, a, d in recs:
                if t in (1, 2, 3):
                    if d == HDR and a == 0 and not (pos == 0 and code[:3] == HDR):
                        ctx.fail("write_srecord:header-in-data-record", f"header text {HDR!r} is written as an S{t} data record at address 0", case)
                        found = True
                        continue
                    if a != pos:
                        if a == pos % 0x10000 and t == 1:
                            ctx.fail("write_srecord:address-truncated-to-16-bit",
                                     f"S1 record for address {pos:#x} carries address {a:#x}", case)
                        elif a == pos - address:
                            ctx.fail("write_srecord:section-address-ignored",
                                     f"data record for address {pos:#x} carries address {a:#x} (section address {address:#x} not used)", case)
                        elif a == (pos - address) % 0x10000 and t == 1:
                            ctx.fail("write_srecord:address-truncated-to-16-bit",
                                     f"S1 record for offset {pos - address:#x} carries address {a:#x}", case)
                            ctx.fail("write_srecord:section-address-ignored",
                                     f"data records count from 0, section address is {address:#x}", case)
                        else:
                            ctx.fail("write_srecord:image-differs", f"data record at {a:#x}, expected {pos:#x}", case)
                        found = True
                    elif d != code[pos - address: pos - address + len(d)]:
                        ctx.fail("write_srecord:image-differs", f"data record at {a:#x} does not carry the code bytes", case)
                        found = True
                    pos += len(d)
            if not any(t == 0 for t, _, _ in recs) and not found:
                ctx.fail("write_srecord:no-header-record", "no S0 record", case)
                found = True
            if not found:
                if ev["read"] == "ok reject":
                    ctx.fail("write_srecord:file-rejected", "independent reader rejects the record sequence (types / pairing / termination / address width)",
                             case, types=[t for t, _, _ in recs][:8])
                else:
                    ctx.fail("write_srecord:image-differs", "independent reader decodes something else than the code at its address",
                             case, reader=ev["read"][:200])
    for ev in evs[:2] + evs[20:22]:
        ctx.sample({"address": ev["address"], "size": len(ev["code"]), "lines": (ev["lines"] or [])[:3], "result": ev["res"][:40]})


def eval_lines(ctx):
    from ppci.format.srecord import SRecord
    rng = ctx.rng
    reqs, impl = [], []
    cases = [(0, 0, b"HDR"), (5, 3, b""), (1, 0x7AF0, bytes([0xA, 0xA, 0xD] + [0] * 13))]
    for _ in range(1500 if ctx.thorough else 300):
        t = rng.choice([0, 1, 2, 3, 4, 5, 6, 7, 8, 9, 10, rng.randrange(12)])
        w = {0: 2, 1: 2, 2: 3, 3: 4, 5: 2, 6: 3, 7: 4, 8: 3, 9: 2}.get(t, 2)
        lim = 1 << (8 * w)
        a = rng.choice([0, 1, lim - 1, lim, lim + 1, lim * 256 + 5, rng.randrange(lim), rng.randrange(lim * 4), 1 << 40])
        n = rng.choice([0, 1, 2, 30, 31, 249, 250, 251, 252, 253, 254, 255, 256, rng.randrange(260)])
        cases.append((t, a, rng.randbytes(n)))
    for t, a, d in cases:
        try:
            r = "ok " + SRecord(t, a, d).to_line()
        except Exception as e:  # noqa
            r = ename(e)
        reqs.append(f"{LEG}toline {t} {a} {hx(d)}"); impl.append(r)
    out = yield reqs
    for rq, i, m in zip(reqs, impl, out):
        ctx.count("eval_corr_to_line")
        ctx.count("to_line_" + i.split(" ")[0] + ("_" + i.split(" ")[1] if i.startswith("err") else ""))
        if i.startswith("err"):
            ctx.nontrivial(rq[:60])
        if i != m:
            ctx.disagree("to_line", rq[:200], i[:200], m[:200])


def run_batched(ctx, gens):
    """each generator yields request lines and is resumed with the replies; generators that need a
    second round (diagnosis) yield again.  One driver process per round."""
    live = list(gens)
    pend = [next(g) for g in live]
    while live:
        reqs, spans = [], []
        for r in pend:
            spans.append((len(reqs), len(reqs) + len(r)))
            reqs += r
        out = ctx.driver("C19", reqs) if reqs else []
        nlive, npend = [], []
        for g, (a, b) in zip(live, spans):
            try:
                npend.append(g.send(out[a:b]))
                nlive.append(g)
            except StopIteration:
                pass
        live, pend = nlive, npend


def check(ctx):
    run_batched(ctx, [eval_write(ctx, gen_cases(ctx)), eval_lines(ctx)])
    ctx.extra_cov["exhaustive"] = False
    ctx.extra_cov["reader"] = "Spec.SRec.read (Lean) run on the real text of every case; no third-party S-record reader available in the sandbox"


def replay(ctx, rp):
    c = rp.get("case") or {}
    if isinstance(c, dict) and "case" in c:
        c = c["case"]
    if isinstance(c, dict) and c.get("code") is not None:
        run_batched(ctx, [eval_write(ctx, [(c["address"], bytes.fromhex(c["code"]))])])
    elif isinstance(c, dict) and "size" in c:
        fill = bytes.fromhex(c.get("code_fill") or "00")
        run_batched(ctx, [eval_write(ctx, [(c["address"], (fill * (c["size"] // len(fill) + 1))[: c["size"]])])])
    else:
        check(ctx)
