"""C32 generated LR parsers.

For many small context-free grammars the REAL `LrParserBuilder` builds a parser; its action/goto
tables are dumped and (a) validated by the Lean-proved `Model.LR.tableSafe` (a proof, per table, that
the driver never accepts a token string outside the language and returns a derivation tree of it),
(b) the real `LrParser.parse` is run on every token string up to a bounded length and compared with the
Lean model of the driver on the same tables (correspondence), and (c) the property itself is evaluated
on the real parser with the Lean-verified chart recogniser `Spec.CFG.recognise` as membership oracle and
`Spec.CFG.treeOk` as check of the returned value.  `calculate_first_sets` is compared with
`Model.LR.firstSets` (proved to be FIRST/nullable)."""
import itertools
import json
from pathlib import Path

PROP = "C32"
TITLE = "Generated LR parsers accept exactly their grammar's language"
LEAN_PROPS = "PpciVerif/Props/C32.lean"
LEAN_TARGETS = ["PpciVerif.Props.C32", "Drivers.C32"]
LEVEL = "proof"
LEVEL_TEXT = (
    "Verified validator for soundness + theorems for first sets and the membership oracle; completeness of the table "
    "builder is NOT proved. Lean theorems, for ALL grammars, ALL action/goto tables, ALL token strings and all fuel: "
    "(V) if the decidable check Model.LR.tableSafe G T holds then whenever the model of LrParser.parse returns a value on "
    "a token string w (without EOF tokens), that value is a derivation tree of G from the start symbol whose frontier is "
    "exactly w (hence w is in the language, Spec.CFG.Derives), and for any semantic actions the returned value is the fold "
    "of those actions over that tree. Every table the real LrParserBuilder produces during a run (including tables with "
    "automatically resolved shift/reduce conflicts) is dumped and must pass tableSafe, which is a per-table proof of "
    "'never accepts a sequence outside the language, returns the value of a derivation'. "
    "(P) Model.LR.firstSets (calculate_first_sets after the fix) computes exactly textbook FIRST and nullability "
    "(X =>* a beta, X =>* eps over sentential forms) for every well-formed grammar, epsilon productions included. "
    "(oracle) Spec.CFG.recognise is proved sound and complete for Derives. "
    "NOT proved: that the builder's item-set closure / look-ahead / conflict resolution yield a COMPLETE parser "
    "('accepts every derivable sequence'); this direction is only validated: every token string up to length 5 (quick) / 6 "
    "(thorough) over <=3 terminals is run through the real parser and compared with the verified recogniser, for several "
    "hundred generated grammars per run. The driver model is tied to lr.py by running both on the same real (and "
    "randomly damaged) tables.")
LEVEL_NOTE = (
    "trusted: Lean kernel; axioms propext/Classical.choice/Quot.sound; the hand model of LrParser.parse and "
    "calculate_first_sets <-> source correspondence is sampled (all strings up to the length bound on every generated "
    "grammar, damaged tables for the error paths), not proved; the table dump (dict -> association list) and the symbol "
    "numbering; completeness of the generated parsers is bounded-exhaustive testing against a verified oracle, not proof; "
    "closure/goto/generate_tables are not modelled (their output is validated instead); Earley parser, yacc front-end and "
    "lexer are outside")
TECHNIQUE = ("Lean 4 proof of a table validator (invariant over the driver loop) + per-run validation of every real table, "
             "fixpoint proofs for first sets and a chart recogniser, differential correspondence with lr.py")
RULE = ("case = (grammar, token string). Grammars: fixed corpus (test-suite grammars, the nullable-chain / nullable-look-ahead / "
        "right-recursive-start witnesses, dangling else, ambiguous expression) + random grammars with <=4 nonterminals, <=6 "
        "productions, rhs length <=3, <=3 terminals, epsilon productions, left/right recursion + random perturbations of corpus "
        "grammars + all possibly-empty-list idioms (nullable left/right recursive list after a nonterminal / after a nullable "
        "prefix / before a terminal / alone). After a first-set disagreement the affected nonterminals are also placed in small "
        "contexts (Z->X N, Z->N x, Z->Y N z with Y nullable) and enumerated. Also grammars reached through every public "
        "editing route before generation (add_production in any order, removal / replacement / insertion of productions, "
        "rewrite_eps_productions, add_one_or_more): verdicts are taken against the grammar as it is at generation time, with one "
        "distinct action per production. Strings: ALL strings over the grammar's terminals of length <=5 (quick) / <=6 (thorough). distinct = distinct "
        "(grammar, string); non-trivial grammar = accepted by the builder, accepts a string of length >=2 and rejects some string; "
        "non-trivial case = string of a non-trivial grammar")
TRUSTED = [
    "hand model Model.LR.parseLoop of LrParser.parse and Model.LR.firstSets of calculate_first_sets, tied by differential run on every check",
    "Spec.CFG (grammars, Derives, Steps, derivation trees, fold) written from the textbook definitions",
    "dump of action_table/goto_table dicts and numbering of symbols (EOF=0, EPS=1, terminals, nonterminals) in harness/c32.py",
]
ASSUMPTIONS = [
    "the lexer yields Token objects and EOF tokens for ever after the input; no token of type EOF before the end",
    "every production has a semantic action (the harness installs tree-building actions); actions do not raise",
    "grammar symbols are distinct from the pseudo symbols EOF/EPS; terminals and nonterminals are disjoint (enforced by Grammar)",
    "dict lookups are modelled by first-match association lists (keys of the dumped tables are unique)",
]

VERIF = Path(__file__).resolve().parent.parent
EOFC, EPSC = 0, 1
RUNAWAY_LIMIT = 3000


class Runaway(BaseException):
    pass


# --------------------------------------------------------------------------------------------
# grammars
# --------------------------------------------------------------------------------------------
class Gr:
    """terms: list of str; prods: list of (lhs, [rhs]); start: str"""

    def __init__(self, terms, prods, start, name="", edits=None):
        # edits: None = add_production for every production in order.  Otherwise the list of editing steps
        # performed on the real Grammar object before the parser is generated (see apply_edits); `prods` is then
        # only provisional: prepare() replaces the Gr by the grammar AS IT IS at generation time.
        self.edits = edits
        self.terms = list(terms)
        self.prods = [(l, list(r)) for l, r in prods]
        self.start = start
        self.name = name
        nts = []
        for l, _ in self.prods:
            if l not in nts:
                nts.append(l)
        for _, r in self.prods:      # undefined symbols get a code too
            for x in r:
                if x not in nts and x not in self.terms:
                    nts.append(x)
        if start not in nts and start not in self.terms:
            nts.append(start)
        self.nts = nts
        self.code = {"EOF": EOFC, "EPS": EPSC}
        for i, t in enumerate(self.terms):
            self.code[t] = 2 + i
        for i, n in enumerate(nts):
            self.code[n] = 2 + len(self.terms) + i

    def key(self):
        return json.dumps([self.terms, self.prods, self.start, self.edits])

    def to_json(self):
        d = {"terms": self.terms, "prods": self.prods, "start": self.start, "name": self.name}
        if self.edits is not None:
            d["edits"] = self.edits
        return d

    @staticmethod
    def from_json(d):
        return Gr(d["terms"], [tuple(p) for p in d["prods"]], d["start"], d.get("name", ""), d.get("edits"))

    def lean(self):
        ts = "[" + ",".join(str(self.code[t]) for t in self.terms) + "]"
        ps = ";".join(f"{self.code[l]}:" + ",".join(str(self.code[x]) for x in r) for l, r in self.prods) or "-"
        return f"{ts} {self.code[self.start]} {ps}"

    def show(self):
        txt = "; ".join(f"{l} -> {' '.join(r) if r else 'eps'}" for l, r in self.prods) + f"  [start {self.start}]"
        if self.edits is not None:
            txt += "  {built by: " + ", ".join(show_edit(e) for e in self.edits) + "}"
        return txt


def show_edit(e):
    if e[0] in ("add", "insert", "replace"):
        idx = f"[{e[1]}] " if e[0] != "add" else ""
        l, r = e[-2], e[-1]
        return f"{e[0]} {idx}{l}->{' '.join(r) if r else 'eps'}"
    return " ".join(str(x) for x in e)


def apply_edits(grammar_mod, G, edits):
    """the public ways of editing a Grammar before parser generation"""
    for e in edits:
        op = e[0]
        if op == "add":
            G.add_production(e[1], list(e[2]))
        elif op == "remove":
            del G.productions[e[1]]
        elif op == "replace":
            G.productions[e[1]] = grammar_mod.Production(e[2], list(e[3]), None)
            G.nonterminals.add(e[2])
        elif op == "insert":
            G.productions.insert(e[1], grammar_mod.Production(e[2], list(e[3]), None))
            G.nonterminals.add(e[2])
        elif op == "rewrite_eps":
            G.rewrite_eps_productions()
        elif op == "one_or_more":
            G.add_one_or_more(e[1], e[2])
        else:
            raise ValueError("unknown edit " + repr(e))


CORPUS = [
    # the three witnesses of the defects fixed in lr.py (findings/C32.json)
    Gr("xbc", [("S", "XAc"), ("X", "x"), ("A", "B"), ("B", "b"), ("B", "")], "S", "nullable-chain-first"),
    Gr("bc", [("S", "Ac"), ("A", "B"), ("B", "b"), ("B", "")], "S", "nullable-chain"),
    Gr("abc", [("S", "ABc"), ("A", "a"), ("B", "b"), ("B", "")], "S", "nullable-lookahead"),
    Gr("ab", [("S", "aS"), ("S", "b")], "S", "right-recursive-start"),
    Gr("abc", [("S", "aSc"), ("S", "b")], "S", "nested-start"),
    Gr("ab", [("S", "AS"), ("S", "b"), ("A", "a"), ("A", "")], "S", "nullable-prefix-start"),
    # test-suite grammars (test/lang/test_yacc.py), shrunk alphabets
    Gr("i+*", [("I", "E"), ("E", "T"), ("E", "E+T"), ("T", "F"), ("T", "T*F"), ("F", "i")], "I", "expression"),
    Gr("()", [("G", "L"), ("L", "LP"), ("L", "P"), ("P", "(P)"), ("P", "()")], "G", "pairs"),
    Gr("a", [("L", ""), ("L", "La")], "L", "eps-sequence"),
    Gr("ab", [("I", "Ob"), ("O", "a"), ("O", "")], "I", "optional"),
    Gr("ite", [("S", "itS"), ("S", "itSeS"), ("S", "e")], "S", "dangling-else"),
    Gr("i", [("G", "A"), ("A", "B"), ("A", "C"), ("B", "i"), ("C", "i")], "G", "reduce-reduce"),
    Gr("i+", [("E", "E+E"), ("E", "i")], "E", "ambiguous-expression"),
    Gr("ab", [("S", "aSb"), ("S", "")], "S", "anbn"),
    Gr("ab", [("S", "SS"), ("S", "a"), ("S", "")], "S", "cyclic-ambiguous"),
    Gr("ab", [("S", "AB"), ("A", "aA"), ("A", ""), ("B", "bB"), ("B", "")], "S", "a*b*"),
    Gr("abc", [("S", "ABC"), ("A", "a"), ("A", ""), ("B", "b"), ("B", ""), ("C", "c"), ("C", "")], "S", "all-optional"),
    Gr("ab", [("S", "Sa"), ("S", "b")], "S", "left-recursive"),
    Gr("ab", [("S", "A"), ("A", "S"), ("A", "a")], "S", "unit-cycle"),
    Gr("ab", [("S", "Ab"), ("A", "A"), ("A", "a")], "S", "self-unit"),
    Gr("a", [("S", "A"), ("A", "Q")], "S", "undefined-symbol"),
    Gr("ab", [("S", "aB"), ("B", "bB")], "S", "empty-language"),
    Gr("abc", [("S", "aAc"), ("S", "aBb"), ("A", "b"), ("B", "")], "S", "lr1-lookahead"),
    Gr("abc", [("S", "Aa"), ("S", "bAc"), ("S", "Bc"), ("S", "bBa"), ("A", "c"), ("B", "c")], "S", "lr1-not-lalr"),
    Gr("ab", [("S", "ASb"), ("S", "b"), ("A", "")], "S", "eps-before-recursion"),
    Gr("ab", [("S", "aA"), ("A", "S"), ("A", "b"), ("A", "")], "S", "mutual-right-recursion"),
    # sequences: consecutive grammars reuse symbol names with different productions (not nullable -> nullable,
    # different FIRST sets, nullable -> not nullable); the builder must not carry anything over
    Gr("abc", [("S", "aBC"), ("B", "b"), ("C", "c")], "S", "seq1-plain"),
    Gr("abc", [("S", "aBC"), ("B", "b"), ("C", "c"), ("C", "")], "S", "seq1-C-nullable"),
    Gr("abc", [("S", "ABc"), ("A", "a"), ("B", "b")], "S", "seq2-plain"),
    Gr("abc", [("S", "ABc"), ("A", "a"), ("A", ""), ("B", "b"), ("B", "")], "S", "seq2-both-nullable"),
    Gr("ab", [("S", "XY"), ("X", "a"), ("Y", "b")], "S", "seq3-Y-b"),
    Gr("ac", [("S", "XY"), ("X", "a"), ("Y", "c")], "S", "seq3-Y-c"),
    Gr("ab", [("S", "XYZ"), ("X", "a"), ("Y", ""), ("Z", "b"), ("Z", "")], "S", "seq4-nullable-tail"),
    Gr("ab", [("S", "XYZ"), ("X", "a"), ("Y", "b"), ("Z", "b")], "S", "seq4-plain-tail"),
    Gr("ab", [("S", "XYZ"), ("X", "a"), ("Y", ""), ("Z", "b"), ("Z", "")], "S", "seq4-nullable-tail-again"),
]


def list_idioms(full=True):
    """possibly-empty-list idioms: a nullable left- or right-recursive nonterminal L placed after a
    nonterminal, after a nullable prefix, before a terminal, or alone (all combinations, deterministic)"""
    out = []
    lists = {
        "left": [("L", ""), ("L", "La")], "right": [("L", ""), ("L", "aL")],
        "left2": [("L", ""), ("L", "Lab")], "right2": [("L", ""), ("L", "abL")],
        "leftE": [("L", ""), ("L", "LE"), ("E", "a")], "rightE": [("L", ""), ("L", "EL"), ("E", "a")],
        "left-eps-last": [("L", "La"), ("L", "")],
    }
    ctxs = {
        "after-nonterminal": [("S", "BL"), ("B", "b")],
        "before-terminal": [("S", "Lb")],
        "after-nullable": [("S", "YLc"), ("Y", "b"), ("Y", "")],
        "between": [("S", "BLc"), ("B", "b")],
        "alone": [("S", "L")],
        "after-optional": [("S", "OL"), ("O", "b"), ("O", "")],
        "twice": [("S", "LbL")],
    }
    for ln, lp in lists.items():
        if not full and ln in ("left2", "right2", "rightE"):
            continue
        for cn, cp in ctxs.items():
            prods = cp + lp
            if len(prods) > 6:
                continue
            terms = [t for t in "abc" if any(t in r for _, r in prods)]
            out.append(Gr(terms, prods, "S", f"list-{ln}-{cn}"))
    return out


def contexts_around(g, nt):
    """small grammars that put nonterminal `nt` of g (with everything reachable from it) into the
    contexts  Z -> X nt,  Z -> nt x,  Z -> Y nt z (Y nullable),  Z -> X nt z  with fresh names"""
    reach, todo = [], [nt]
    while todo:
        n = todo.pop()
        if n in reach:
            continue
        reach.append(n)
        for l, r in g.prods:
            if l == n:
                todo += [x for x in r if x not in g.terms and x not in reach]
    sub = [(l, r) for l, r in g.prods if l in reach]
    used = [t for t in g.terms if any(t in r for _, r in sub)]
    fresh_t = [t for t in "xyzuvw" if t not in g.code][:3]
    fresh_n = [n for n in ("Z0", "Z1", "Z2") if n not in g.code]
    if len(fresh_t) < 3 or len(fresh_n) < 3:
        return []
    x, y, z = fresh_t
    Z, X, Y = fresh_n
    shapes = [
        ([x], [(Z, [X, nt]), (X, [x])]),
        ([x], [(Z, [nt, x])]),
        ([y, z], [(Z, [Y, nt, z]), (Y, [y]), (Y, [])]),
        ([x, z], [(Z, [X, nt, z]), (X, [x])]),
    ]
    return [Gr(used + ts, ps + sub, Z, f"{g.name or 'g'}@{nt}") for ts, ps in shapes]


def edited_corpus():
    """grammars built through every public editing route of Grammar before the parser is generated"""
    def E(terms, edits, start, name):
        return Gr(terms, [], start, name, [list(e) for e in edits])

    def add(l, r):
        return ("add", l, list(r))
    return [
        E("abc", [add("S", "OI"), add("O", "c"), add("O", ""), add("I", "a"), add("I", "b"), ("rewrite_eps",)], "S",
          "edit-rewrite-eps-optional"),
        E("ab", [add("S", "Lb"), add("L", ""), add("L", "La"), ("rewrite_eps",)], "S", "edit-rewrite-eps-list"),
        E("abc", [add("X", "c"), add("S", "Ab"), add("A", "a"), ("remove", 0)], "S", "edit-remove-first"),
        E("abc", [add("S", "AB"), add("J", "c"), add("A", "a"), add("B", "b"), ("remove", 1)], "S", "edit-remove-middle"),
        E("abc", [add("S", "AB"), add("A", "a"), add("B", "b"), add("B", "c"), ("remove", 3)], "S", "edit-remove-last"),
        E("abc", [add("S", "Ab"), add("A", "c"), add("A", "b"), ("replace", 1, "A", ["a"])], "S", "edit-replace"),
        E("ab", [add("A", "a"), add("A", "b"), ("insert", 0, "S", ["A", "b"])], "S", "edit-insert-front"),
        E("ab", [add("S", "Lb"), add("I", "a"), ("one_or_more", "I", "L")], "S", "edit-one-or-more"),
        E("()", [add("P", "()"), add("P", "(P)"), add("L", "P"), add("L", "LP"), add("G", "L")], "G", "edit-reverse-order"),
        E("abc", [add("S", "ABC"), add("A", "a"), add("A", ""), add("B", "b"), add("C", "c"), add("C", ""),
                  ("rewrite_eps",)], "S", "edit-rewrite-eps-two"),
    ]


def edit_route(rng, g):
    """a random editing route that ends in (a variant of) grammar g"""
    adds = [["add", l, list(r)] for l, r in g.prods]
    nts = list(dict.fromkeys(l for l, _ in g.prods))
    k = rng.randrange(7)
    name = g.name + "+edit"
    if k == 0:
        rng.shuffle(adds)
        edits = adds
    elif k == 1:                           # a junk production is added somewhere and removed again
        i = rng.randint(0, len(adds))
        junk = ["add", rng.choice(nts + ["J"]), [rng.choice(g.terms)]]
        edits = adds[:i] + [junk] + adds[i:] + [["remove", i]]
    elif k == 2 and adds:                  # placeholder, later replaced by the real production
        i = rng.randrange(len(adds))
        real = adds[i]
        edits = adds[:i] + [["add", real[1], [rng.choice(g.terms)]]] + adds[i + 1:] + [["replace", i, real[1], real[2]]]
    elif k == 3:
        edits = adds + [["rewrite_eps"]]
    elif k == 4 and len(adds) > 1:         # a real production is removed
        edits = adds + [["remove", rng.randrange(len(adds))]]
    elif k == 5 and adds:                  # one production is inserted afterwards at its place
        i = rng.randrange(len(adds))
        edits = adds[:i] + adds[i + 1:] + [["insert", i, adds[i][1], adds[i][2]]]
    else:
        elem = rng.choice(g.terms + nts)
        edits = adds + [["one_or_more", elem, "M"], ["add", g.start, ["M"] + ([rng.choice(g.terms)] if rng.random() < 0.5 else [])]]
    return Gr(g.terms, [], g.start, name, edits)


def random_grammar(rng):
    nt = rng.randint(1, 4)
    tt = rng.randint(1, 3)
    nts = ["S", "A", "B", "C"][:nt]
    terms = ["a", "b", "c"][:tt]
    np_ = rng.randint(max(1, nt - 1), 6)
    prods = []
    lhs_pool = list(nts)
    for i in range(np_):
        lhs = nts[i] if i < nt and rng.random() < 0.8 else rng.choice(lhs_pool)
        ln = rng.choice([0, 1, 1, 2, 2, 2, 3, 3])
        rhs = []
        for _ in range(ln):
            rhs.append(rng.choice(terms) if rng.random() < 0.55 else rng.choice(nts))
        prods.append((lhs, rhs))
    start = "S" if any(l == "S" for l, _ in prods) and rng.random() < 0.9 else prods[0][0]
    return Gr(terms, prods, start, "random")


def perturb(rng, g):
    prods = [(l, list(r)) for l, r in g.prods]
    terms = list(g.terms)
    nts = list(dict.fromkeys(l for l, _ in prods))
    k = rng.randrange(5)
    if k == 0 and prods:                      # replace a symbol
        i = rng.randrange(len(prods))
        if prods[i][1]:
            j = rng.randrange(len(prods[i][1]))
            prods[i][1][j] = rng.choice(terms + nts)
    elif k == 1 and len(prods) < 6:           # make something nullable
        prods.append((rng.choice(nts), []))
    elif k == 2 and len(prods) < 6:           # add a production
        ln = rng.randint(1, 3)
        prods.append((rng.choice(nts), [rng.choice(terms + nts) for _ in range(ln)]))
    elif k == 3 and prods:                    # insert a symbol
        i = rng.randrange(len(prods))
        if len(prods[i][1]) < 3:
            prods[i][1].insert(rng.randint(0, len(prods[i][1])), rng.choice(terms + nts))
    elif len(prods) > 1:                      # drop a production
        del prods[rng.randrange(len(prods))]
    start = g.start if any(l == g.start for l, _ in prods) else prods[0][0]
    return Gr(terms, prods, start, g.name + "~")


# --------------------------------------------------------------------------------------------
# the real implementation
# --------------------------------------------------------------------------------------------
def ppci_mods():
    from harness import common  # noqa: F401 (puts REPO on sys.path)
    from ppci.lang.tools import lr, grammar
    from ppci.lang.tools.common import ParserException, ParserGenerationException
    from ppci.lang.common import Token, SourceLocation
    return lr, grammar, ParserException, ParserGenerationException, Token, SourceLocation


class Lexer:
    def __init__(self, mods, typs):
        Token, SourceLocation = mods[4], mods[5]
        loc = SourceLocation("", 0, 0, 0)
        self.toks = [Token(t, i, loc) for i, t in enumerate(typs)]
        self.eof = Token("EOF", "EOF", loc)
        self.i = 0
        self.calls = 0

    def next_token(self):
        self.calls += 1
        if self.calls > RUNAWAY_LIMIT:
            raise Runaway()
        if self.i < len(self.toks):
            t = self.toks[self.i]
            self.i += 1
            return t
        return self.eof


class Built:
    pass


def build(mods, g):
    """Run the real builder. Returns Built with .status in ok|rejected|internal, tables, conflicts."""
    lr, grammar, PE, PGE, Token, _ = mods
    b = Built()
    b.g = g
    b.counter = [0]
    b.conflicts = []
    b.status = "ok"
    try:
        G = grammar.Grammar()
        G.add_terminals(g.terms)

        def mk(i):
            def f(*args):
                b.counter[0] += 1
                if b.counter[0] > RUNAWAY_LIMIT:
                    raise Runaway()
                return ("n", i) + tuple(("l", a.typ, a.val) if isinstance(a, Token) else a for a in args)
            return f
        if g.edits is None:
            for i, (l, r) in enumerate(g.prods):
                G.add_production(l, r, mk(i))
        else:
            import signal

            def alarm(*_):
                raise Runaway()
            old = signal.signal(signal.SIGALRM, alarm)
            signal.setitimer(signal.ITIMER_REAL, 3.0)
            try:
                apply_edits(grammar, G, g.edits)
            except (Exception, Runaway) as e:  # noqa  -- the editing route itself failed (e.g. assert in create_combinations)
                b.status = "route-error"
                b.error = type(e).__name__
                return b
            finally:
                signal.setitimer(signal.ITIMER_REAL, 0)
                signal.signal(signal.SIGALRM, old)
            # the grammar AS IT IS now; one distinct action per production (its position at generation time)
            final = [(p.name, list(p.symbols)) for p in G.productions]
            if not final or len(final) > 12:
                b.status = "route-error"
                b.error = "empty-or-too-large"
                return b
            for i, p in enumerate(G.productions):
                p.f = mk(i)
            start = g.start if any(l == g.start for l, _ in final) else final[0][0]
            g = Gr(g.terms, final, start, g.name, g.edits)
            b.g = g
        G.start_symbol = g.start
        b.G = G
        pb = lr.LrParserBuilder(G)
        orig = pb.set_action

        def set_action(state, t, action):   # observe automatic conflict resolution from outside
            key = (state, t)
            if key in pb.action_table and pb.action_table[key] != action:
                b.conflicts.append((state, t, str(pb.action_table[key]), str(action)))
            return orig(state, t, action)
        pb.set_action = set_action
        b.parser = pb.generate_parser()
        b.first = dict(pb.first)
    except PGE as e:
        b.status = "rejected"
        b.error = str(e)[:120]
        return b
    except (Exception, Runaway) as e:  # noqa
        b.status = "internal"
        b.error = type(e).__name__ + ": " + str(e)[:120]
        return b
    return b


def dump_tables(mods, g, action_table, goto_table, problems=None):
    """Total: never raises on a malformed table.  Symbols that are not symbols of the grammar get codes
    900, 901, … (so the Lean validator sees and rejects them); every irregularity is appended to `problems`."""
    lr = mods[0]
    problems = [] if problems is None else problems
    foreign = {}

    def code(sym):
        if isinstance(sym, str) and sym in g.code:
            return g.code[sym]
        k = repr(sym)
        if k not in foreign:
            foreign[k] = 900 + len(foreign)
            problems.append(f"foreign-symbol {sym!r}")
        return foreign[k]

    def nat(x):
        return isinstance(x, int) and not isinstance(x, bool) and x >= 0

    acts, gotos = [], []
    try:
        aitems, gitems = list(action_table.items()), list(goto_table.items())
    except Exception as e:  # noqa
        problems.append(f"malformed tables are not dicts: {type(e).__name__}")
        aitems, gitems = [], []
    for key, a in aitems:
        if not (isinstance(key, tuple) and len(key) == 2 and nat(key[0])):
            problems.append(f"malformed action key {key!r}")
            continue
        if isinstance(a, lr.Shift) and nat(a.to_state):
            acts.append((key[0], code(key[1]), "S", a.to_state))
        elif isinstance(a, lr.Accept) and nat(a.rule):
            acts.append((key[0], code(key[1]), "A", a.rule))
        elif isinstance(a, lr.Reduce) and nat(a.rule):
            acts.append((key[0], code(key[1]), "R", a.rule))
        else:
            problems.append(f"malformed action {a!r} at {key!r}")
    for key, to in gitems:
        if not (isinstance(key, tuple) and len(key) == 2 and nat(key[0]) and nat(to)):
            problems.append(f"malformed goto entry {key!r}: {to!r}")
            continue
        gotos.append((key[0], code(key[1]), to))
    at = ";".join(",".join(map(str, e)) for e in sorted(acts, key=lambda e: (e[0], e[1]))) or "-"
    gt = ";".join(",".join(map(str, e)) for e in sorted(gotos, key=lambda e: (e[0], e[1]))) or "-"
    return at + " " + gt


def show_val(g, v):
    """canonical text of a value built by the harness actions = Drivers.C32.showTree"""
    if not isinstance(v, tuple) or len(v) < 2:
        return repr(v)
    if v[0] == "l":
        val = 0 if v[2] == "EOF" else v[2]
        return f"{g.code.get(v[1], 999)}.{val}"
    return "(" + ",".join([str(v[1])] + [show_val(g, k) for k in v[2:]]) + ")"


def enc_val(g, v, out):
    if not isinstance(v, tuple) or len(v) < 2:
        out += [7]          # not a tree: the Lean reader rejects it
        return out
    if v[0] == "l":
        out += [1, g.code.get(v[1], 999), 0 if v[2] == "EOF" else v[2]]
    else:
        out += [0, v[1], len(v) - 2]
        for k in v[2:]:
            enc_val(g, k, out)
    return out


def run_parser(mods, b, parser, typs):
    PE = mods[2]
    b.counter[0] = 0
    try:
        v = parser.parse(Lexer(mods, typs))
        return ("ok", v)
    except PE:
        return ("err", "ParserException")
    except Runaway:
        return ("err", "FuelExhausted")
    except Exception as e:  # noqa
        return ("err", type(e).__name__)


def all_strings(terms, n):
    for k in range(n + 1):
        for w in itertools.product(terms, repeat=k):
            yield list(w)


def first_text(g, first):
    items = []
    for k, v in first.items():
        if k not in g.code:
            if not v:
                continue     # name of a removed production is still in grammar.nonterminals: empty entry, ignored
            return "unknown-symbol " + str(k)
        items.append((g.code[k], sorted(g.code.get(x, 999) for x in v)))
    return ";".join(f"{k}:" + ",".join(map(str, v)) for k, v in sorted(items))


def damaged_tables(rng, mods, b, ndamaged=3):
    """a few copies of the real tables with one entry changed (error paths of the driver)"""
    lr = mods[0]
    out = []
    at, gt = b.parser.action_table, b.parser.goto_table
    nstates = 1 + max([s for s, _ in at] + list(gt.values()) + [a.to_state for a in at.values() if isinstance(a, lr.Shift)] + [0])
    nprods = len(b.g.prods)
    for _ in range(ndamaged):
        a2, g2 = dict(at), dict(gt)
        k = rng.randrange(6)
        keys = sorted(a2, key=lambda kv: (kv[0], b.g.code.get(kv[1], 999), str(kv[1])))
        gkeys = sorted(g2, key=lambda kv: (kv[0], b.g.code.get(kv[1], 999), str(kv[1])))
        if k == 0 and gkeys:
            del g2[rng.choice(gkeys)]
        elif k == 1 and gkeys:
            g2[rng.choice(gkeys)] = rng.randrange(nstates)
        elif k == 2 and keys:
            key = rng.choice(keys)
            a2[key] = lr.Reduce(rng.randrange(nprods + 1))
        elif k == 3 and keys:
            key = rng.choice(keys)
            a2[key] = lr.Shift(rng.randrange(nstates))
        elif k == 4 and keys:
            key = rng.choice(keys)
            a2[key] = lr.Accept(rng.randrange(nprods))
        else:
            a2[(rng.randrange(nstates), rng.choice(b.g.terms + ["EOF"]))] = rng.choice(
                [lr.Shift(rng.randrange(nstates)), lr.Reduce(rng.randrange(nprods)), lr.Accept(rng.randrange(nprods))])
            if b.g.start in b.g.code and rng.random() < 0.3:
                g2[(0, b.g.start)] = 0
        out.append((a2, g2))
    return out


class Case:
    pass


HISTORY = {}      # id(mods) -> grammars built so far in this process, in order


def fingerprint(c):
    """everything the real code produced for a grammar (builder verdict, tables, first sets, parse results)"""
    return {"status": c.b.status, "tables": c.tables, "problems": c.table_problems, "first": c.first_impl,
            "impl": None if c.impl is None else [show_val(c.g, r[1]) if r[0] == "ok" else r[1] for r in c.impl]}


def isolated_run(g, n, sequence):
    """fingerprint of g computed in a FRESH python process after building `sequence` there first"""
    import os
    import subprocess
    import sys
    req = json.dumps({"grammar": g.to_json(), "n": n, "sequence": [h.to_json() for h in sequence]})
    p = subprocess.run([sys.executable, str(Path(__file__).resolve()), "--isolated"], input=req, capture_output=True,
                       text=True, timeout=600, env=dict(os.environ, PYTHONHASHSEED=os.environ.get("PYTHONHASHSEED", "0")))
    if p.returncode != 0:
        from harness import common
        raise common.BrokenCheck("isolated worker failed: " + p.stderr[-800:])
    return json.loads(p.stdout.splitlines()[-1])


def isolation_check(ctx, mods, c, nfail_before):
    """The property quantifies over grammars, not over build histories: a grammar whose in-sequence verdict
    fails is rebuilt alone in a fresh process.  Same outputs -> the failures stand.  Different outputs -> the
    builder keeps state between grammars; the failures are replaced by one failure naming a short sequence."""
    g, n = c.g, c.n
    here = fingerprint(c)
    alone = isolated_run(g, n, [])
    if alone == here:
        ctx.count("isolation_confirmed")
        return
    ctx.count("isolation_differs")
    hist = HISTORY.get(id(mods), [])[:c.hist_len]
    seq = hist
    if getattr(ctx, "c32_shrink_budget", 2) > 0 and hist:
        ctx.c32_shrink_budget = getattr(ctx, "c32_shrink_budget", 2) - 1

        def leaks(sq):
            return isolated_run(g, n, sq) != alone
        if leaks(hist):
            lo, hi = 0, len(hist)          # smallest prefix that already contaminates g
            while hi - lo > 1:
                mid = (lo + hi) // 2
                if leaks(hist[:mid]):
                    hi = mid
                else:
                    lo = mid
            seq = [hist[hi - 1]] if leaks([hist[hi - 1]]) else hist[:hi]
    diff = "builder verdict / tables"
    tokens = None
    if here["impl"] is not None and alone["impl"] is not None:
        for w, a, b in zip(c.strings, here["impl"], alone["impl"]):
            if a != b:
                tokens, diff = w, f"on {' '.join(w) or '<empty>'}: in sequence {a}, alone {b}"
                break
    old = [f["signature"] for f in ctx.failures[nfail_before:]]
    del ctx.failures[nfail_before:]
    case = {"grammar": g.to_json(), "maxlen": n, "sequence": [h.to_json() for h in seq]}
    if tokens is not None:
        case["tokens"] = tokens
    ctx.fail("builder:state-leaks-between-grammars",
             f"the parser built for {g.show()} depends on the grammars built before it in the same process "
             f"(after {'; then '.join(h.show() for h in seq[-2:])}): {diff}; in-sequence failures: {sorted(set(old))}",
             case, table_problems=here["problems"][:5])


def prepare(ctx, mods, g, n, rng, with_damage):
    """build with the real builder and produce the driver requests for grammar g"""
    c = Case()
    c.g, c.n = g, n
    hist = HISTORY.setdefault(id(mods), [])
    c.hist_len = len(hist)          # the grammars built before this one in this process
    hist.append(g)
    c.b = build(mods, g)
    g = c.g = c.b.g                 # for edited grammars: the grammar as it was when the parser was generated
    c.table_problems = []
    c.tables = None
    c.reqs = []
    c.first_impl = c.impl = None
    c.damaged = []
    c.strings = []
    if c.b.status == "route-error":
        return c
    c.strings = list(all_strings(g.terms, n))
    gl = g.lean()
    c.reqs.append(("lang", f"lang {gl} {n}"))
    wf = all(x in g.terms or any(l == x for l, _ in g.prods) for _, r in g.prods for x in r)
    c.first_impl = None
    if wf:
        try:
            G = c.b.G
            c.first_impl = first_text(g, mods[0].calculate_first_sets(G))
        except Exception as e:  # noqa
            c.first_impl = "err " + type(e).__name__
        c.reqs.append(("first", f"first {gl}"))
    c.impl = None
    c.damaged = []
    if c.b.status == "ok":
        tl = dump_tables(mods, g, c.b.parser.action_table, c.b.parser.goto_table, c.table_problems)
        c.tables = tl
        c.reqs.append(("safe", f"safe {gl} {tl}"))
        c.reqs.append(("all", f"all {gl} {tl} {n}"))
        c.impl = [run_parser(mods, c.b, c.b.parser, w) for w in c.strings]
        encs = []
        for r in c.impl:
            if r[0] == "ok" and r[1] is not None:
                encs.append("[" + ",".join(map(str, enc_val(g, r[1], []))) + "]")
            else:
                encs.append("-")
        c.reqs.append(("treesok", f"treesok {gl} {n} " + "|".join(encs)))
        if with_damage:
            lr = mods[0]
            nd = min(n, 4)
            for a2, g2 in (damaged_tables(rng, mods, c.b, 3 if ctx.thorough else 2) if not c.table_problems else []):
                p2 = lr.LrParser(c.b.G, a2, g2)
                tl2 = dump_tables(mods, g, a2, g2)
                ws = list(all_strings(g.terms, nd))
                res = [run_parser(mods, c.b, p2, w) for w in ws]
                c.damaged.append((tl2, ws, res))
                c.reqs.append(("dsafe", f"safe {gl} {tl2}"))
                c.reqs.append(("dall", f"all {gl} {tl2} {nd}"))
    return c


def evaluate(ctx, c, replies):
    """replies: dict kind -> list of reply strings (in request order)"""
    g, b = c.g, c.b
    case = {"grammar": g.to_json(), "maxlen": c.n}
    if b.status == "route-error":
        ctx.count("edit_route_error_" + b.error)
        return
    if g.edits is not None:
        ctx.count("edited_grammars")
        for e in g.edits:
            ctx.count("edit_" + e[0])
    lang = replies["lang"][0]
    if not lang.startswith("ok ") or "F" in lang or len(lang) - 3 != len(c.strings):
        ctx.broken.append({"kind": "oracle", "msg": "recogniser reply " + lang[:80], "case": case})
        return
    member = [ch == "1" for ch in lang[3:]]
    ctx.count("grammars")
    ctx.count("builder_" + b.status)
    # ---- first sets: correspondence -----------------------------------------------------
    if c.first_impl is not None:
        m = replies["first"][0]
        ctx.count("eval_first")
        if m != "ok " + c.first_impl:
            ctx.disagree("calculate_first_sets", case, c.first_impl, m)
            # failing-input search: which nonterminals differ? (contexts are built around them in check())
            inv = {v: k for k, v in g.code.items()}

            def table(txt):
                d = {}
                for part in txt.split(";"):
                    if ":" in part:
                        k, v = part.split(":", 1)
                        d[k] = v
                return d
            ti, tm = table(c.first_impl), table(m[3:] if m.startswith("ok ") else "")
            diff = [inv[int(k)] for k in sorted(set(ti) | set(tm), key=lambda k: int(k) if k.isdigit() else -1)
                    if k.isdigit() and int(k) in inv and ti.get(k) != tm.get(k)]
            if not hasattr(ctx, "c32_followups"):
                ctx.c32_followups = []
            ctx.c32_followups.append((g, [n for n in diff if n in g.nts]))
    if b.status == "internal":
        ctx.fail("builder:internal-error:" + b.error.split(":")[0], f"LrParserBuilder raised {b.error} on {g.show()}", case)
        return
    if b.status == "rejected":
        ctx.count("reject_undefined" if "undefined" in b.error else "reject_conflict")
        return
    resolved = bool(b.conflicts)
    ctx.count("tables")
    ctx.count("tables_with_resolved_conflicts" if resolved else "tables_conflict_free")
    # ---- validator on the real table ------------------------------------------------------
    safe = replies["safe"][0]
    if c.table_problems:
        foreign = [p for p in c.table_problems if p.startswith("foreign-symbol")]
        ctx.fail("generate_tables:foreign-symbol-in-table" if foreign else "generate_tables:malformed-table",
                 f"the tables built for {g.show()} are not tables of this grammar: {'; '.join(c.table_problems[:4])}",
                 case, tables=c.tables)
        if safe == "ok true":
            ctx.broken.append({"kind": "validator", "msg": "tableSafe accepts a table with foreign/malformed entries", "case": case,
                               "tables": c.tables})
    ctx.count("eval_tablesafe")
    ctx.count("programs")
    model = replies["all"][0][3:].split("|")
    trees = replies["treesok"][0][3:]
    if len(model) != len(c.strings) or len(trees) != len(c.strings):
        ctx.broken.append({"kind": "driver", "msg": "reply length", "case": case})
        return
    found_failure = False
    accepted_long = rejected = 0
    for w, r, m, inl, tk in zip(c.strings, c.impl, model, member, trees):
        ctx.count("eval_parse")
        wc = dict(case, tokens=w)
        impl_txt = show_val(g, r[1]) if r[0] == "ok" else r[1]
        if impl_txt != m:
            ctx.disagree("LrParser.parse", wc, impl_txt, m)
        if r[0] == "ok":
            ctx.count("accepted")
            if len(w) >= 2:
                accepted_long += 1
            if not inl:
                found_failure = True
                ctx.fail("parse:accepts-outside-language" + (":after-conflict-resolution" if resolved else ""),
                         f"parser for {g.show()} accepts {' '.join(w) or '<empty>'} which the grammar does not derive", wc, value=impl_txt)
            elif tk != "1":
                found_failure = True
                ctx.fail("parse:wrong-value",
                         f"parser for {g.show()} accepts {' '.join(w) or '<empty>'} but returns {impl_txt}, "
                         "which is not the value of a derivation of the whole input", wc, value=impl_txt)
        elif r[1] == "ParserException":
            rejected += 1
            ctx.count("rejected")
            if inl:
                if resolved:
                    ctx.count("derivable_rejected_after_conflict_resolution")
                else:
                    found_failure = True
                    ctx.fail("parse:rejects-derivable",
                             f"parser for {g.show()} (built without conflict) rejects {' '.join(w) or '<empty>'} which the grammar derives", wc)
        else:
            found_failure = True
            ctx.fail("parse:internal-error:" + r[1], f"parser for {g.show()} raised {r[1]} on {' '.join(w) or '<empty>'}", wc)
    if safe != "ok true":
        ctx.count("tablesafe_rejected")
        if not found_failure and not c.table_problems:
            ctx.broken.append({"kind": "validator", "msg": f"tableSafe rejects the real tables of {g.show()}: {safe}", "case": case,
                               "tables": c.tables})
    if accepted_long and rejected:
        ctx.count("nontrivial_grammars")
        for w in c.strings:
            ctx.nontrivial(g.key() + "|" + "".join(w))
    ctx.sample({"grammar": g.show(), "builder": b.status, "conflicts_resolved": len(b.conflicts), "tableSafe": safe,
                "accepted": sum(1 for r in c.impl if r[0] == "ok"), "strings": len(c.strings)}, limit=6)
    # ---- damaged tables: driver correspondence on the error paths, validator sanity -------------
    for (tl2, ws, res), dsafe, dall in zip(c.damaged, replies.get("dsafe", []), replies.get("dall", [])):
        dm = dall[3:].split("|")
        ctx.count("damaged_tables")
        ctx.count("damaged_safe" if dsafe == "ok true" else "damaged_unsafe")
        for w, r, m in zip(ws, res, dm):
            ctx.count("eval_parse_damaged")
            impl_txt = show_val(g, r[1]) if r[0] == "ok" else r[1]
            ctx.count("damaged_outcome_" + ("ok" if r[0] == "ok" else r[1]))
            if impl_txt != m:
                ctx.disagree("LrParser.parse(damaged tables)", dict(case, tokens=w, tables=tl2), impl_txt, m)


def run_cases(ctx, mods, grammars, n, rng, with_damage=True, workers=8):
    """prepare every grammar with the real builder/parser, ask the Lean driver (several driver
    processes side by side, each gets a slice of the grammars), evaluate"""
    cases = []
    for g in grammars:
        try:
            cases.append(prepare(ctx, mods, g, n, rng, with_damage))
        except Exception:  # noqa  -- the real builder/parser are guarded inside: this is the harness itself
            import traceback
            from harness import common
            rp = common.write_replay(ctx, "harness-error", {"case": {"grammar": g.to_json(), "maxlen": n},
                                                              "traceback": traceback.format_exc()[-1500:]})
            raise common.BrokenCheck(f"harness error while preparing {g.show()} (replay {rp}): " + traceback.format_exc()[-600:])
    workers = max(1, min(workers, len(cases) // 4 or 1))
    slices = [cases[i::workers] for i in range(workers)]

    def ask(sl):
        lines = [rq for c in sl for _, rq in c.reqs]
        return ctx.driver("C32", lines) if lines else []
    if workers == 1:
        outs = [ask(slices[0])]
    else:
        from concurrent.futures import ThreadPoolExecutor
        with ThreadPoolExecutor(workers) as ex:
            outs = list(ex.map(ask, slices))
    replies = {id(c): {} for c in cases}
    for sl, out in zip(slices, outs):
        k = 0
        for c in sl:
            rep = {}
            for kind, _ in c.reqs:
                rep.setdefault(kind, []).append(out[k])
                k += 1
            replies[id(c)] = rep
    for c in cases:
        nf = len(ctx.failures)
        evaluate(ctx, c, replies[id(c)])
        if len(ctx.failures) > nf and c.b.status != "rejected" and getattr(ctx, "c32_iso_budget", 5) > 0:
            ctx.c32_iso_budget = getattr(ctx, "c32_iso_budget", 5) - 1
            isolation_check(ctx, mods, c, nf)
    return cases


def grammars_for(ctx):
    rng = ctx.rng
    gs = list(CORPUS) + list_idioms(ctx.thorough) + edited_corpus()
    extra = VERIF / "corpus" / "C32"
    if extra.exists():
        for f in sorted(extra.glob("*.json")):
            gs.append(Gr.from_json(json.loads(f.read_text())))
    nrand = 500 if ctx.thorough else 50
    npert = 250 if ctx.thorough else 30
    seen = {g.key() for g in gs}
    for _ in range(nrand):
        g = random_grammar(rng)
        if g.key() not in seen:
            seen.add(g.key())
            gs.append(g)
    pool = CORPUS + list_idioms()
    for _ in range(200 if ctx.thorough else 45):      # grammars reached through an editing route
        base = rng.choice(pool) if rng.random() < 0.6 else random_grammar(rng)
        if rng.random() < 0.3:
            base = perturb(rng, base)
        g = edit_route(rng, base)
        if g.key() not in seen:
            seen.add(g.key())
            gs.append(g)
    for _ in range(npert):
        g = perturb(rng, rng.choice(pool))
        if rng.random() < 0.4:
            g = perturb(rng, g)
        if g.key() not in seen:
            seen.add(g.key())
            gs.append(g)
    return gs


def followup_search(ctx, mods, seen, limit=40):
    """failing-input search after a first-set disagreement: the nonterminals whose first set differs are
    put into small contexts (after a nonterminal, before a terminal, after a nullable prefix, between) and
    these grammars go through the full string enumeration against the verified recogniser"""
    todo = getattr(ctx, "c32_followups", [])
    if not todo:
        return
    ctx.c32_followups = []
    gs = []
    for g, nts in todo:
        for nt in nts[:3]:
            for h in contexts_around(g, nt):
                if h.key() not in seen and len(gs) < limit:
                    seen.add(h.key())
                    gs.append(h)
    ctx.count("followup_context_grammars", len(gs))
    if not gs:
        return
    small = [h for h in gs if len(h.terms) <= 3]
    big = [h for h in gs if len(h.terms) > 3]
    if small:
        run_cases(ctx, mods, small, 5, ctx.rng, with_damage=False)
    if big:
        run_cases(ctx, mods, big, 4, ctx.rng, with_damage=False)
    ctx.c32_followups = []      # no second-order follow-ups


def check(ctx):
    mods = ppci_mods()
    n = 6 if ctx.thorough else 5
    gs = grammars_for(ctx)
    run_cases(ctx, mods, gs, n, ctx.rng)
    followup_search(ctx, mods, {g.key() for g in gs})
    ctx.extra_cov["exhaustive"] = False
    ctx.extra_cov["strings_per_grammar"] = f"all strings over the grammar's terminals of length <= {n}"
    ctx.extra_cov["completeness"] = "validated only (bounded-exhaustive against the verified recogniser), not proved"


def replay(ctx, rp):
    mods = ppci_mods()
    case = rp.get("case") or {}
    if "grammar" in case and "sequence" in case:
        g = Gr.from_json(case["grammar"])
        seq = [Gr.from_json(h) for h in case["sequence"]]
        n = case.get("maxlen", 5)
        alone, after = isolated_run(g, n, []), isolated_run(g, n, seq)
        print("grammar:", g.show())
        print("sequence built first:", " || ".join(h.show() for h in seq))
        for k in ("status", "tables", "problems", "first"):
            print(f"{k}: alone {alone[k]} | after sequence {after[k]}")
        if alone["impl"] and after["impl"]:
            for w, a, b in zip(all_strings(g.terms, n), alone["impl"], after["impl"]):
                if a != b:
                    print("tokens", " ".join(w) or "<empty>", ": alone", a, "| after sequence", b)
        if alone != after:
            ctx.fail("builder:state-leaks-between-grammars", f"{g.show()} is built differently after the sequence", case)
    elif "grammar" in case:
        g = Gr.from_json(case["grammar"])
        cs = run_cases(ctx, mods, [g], case.get("maxlen", 5), ctx.rng, with_damage=False)
        c = cs[0]
        print("grammar:", g.show())
        print("builder:", c.b.status, getattr(c.b, "error", ""), "conflicts:", c.b.conflicts)
        if "tokens" in case and c.b.status == "ok":
            w = case["tokens"]
            r = run_parser(mods, c.b, c.b.parser, w)
            out = ctx.driver("C32", [f"parse {g.lean()} {c.tables} [" + ",".join(str(g.code[t]) for t in w) + "]",
                                     f"recog {g.lean()} [" + ",".join(str(g.code[t]) for t in w) + "]"])
            print("impl :", show_val(g, r[1]) if r[0] == "ok" else r[1])
            print("model:", out[0])
            print("spec (in language):", out[1])
    else:
        check(ctx)


if __name__ == "__main__":
    import sys
    if "--isolated" in sys.argv:
        sys.path.insert(0, str(VERIF))
        rq = json.loads(sys.stdin.read())
        _mods = ppci_mods()
        for _h in rq["sequence"]:
            prepare(None, _mods, Gr.from_json(_h), 0, None, False)
        _c = prepare(None, _mods, Gr.from_json(rq["grammar"]), rq["n"], None, False)
        print(json.dumps(fingerprint(_c)))
