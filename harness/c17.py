"""C17 ELF output is read back faithfully by independent ELF readers.

regen : dumps the `_fields` (name, struct format incl. byte-order prefix) and the `size` of every header
        class of ppci.format.elf.headers.HeaderTypes for 32/64 bit x little/big endian into
        lean/PpciVerif/Gen/ElfHeaders.lean; Props.C17.layouts_match_gabi re-checks (decide) that they are
        the gABI layouts of Spec.Elf in the byte order announced by EI_DATA.
check : REAL objects (C and assembly sources compiled with ppci.api for x86_64, arm, riscv, xtensa,
        microblaze; linked with generated layouts; plus objects assembled through the ObjectFile API for
        shapes the compilers do not produce) are written with ppci.format.elf.write_elf as relocatable and
        executable files.  The real bytes are (a) compared with the bytes of the Lean model
        Model.ElfW.exportObject (correspondence), (b) parsed by the Lean gABI reader Spec.Elf.read through
        Drivers/C17.lean and compared with the object's sections / symbols / relocations / entry / images
        (the property on the real code), (c) given to `readelf -a -W` and `llvm-readelf` (acceptance: no
        error / warning) and, in the thorough tier for every file, the `readelf -h -l -S -s -r -x` parse is
        compared with the Lean reader's view (validates the Lean reader).  A static x86-64 program is also
        executed natively from a page-aligned and a non-aligned load address (the Linux loader as a reader).
"""
import io
import logging
import os
import re
import shutil
import subprocess
import tempfile

from . import common

PROP = "C17"
LEAN_PROPS = "PpciVerif/Props/C17.lean"
LEAN_TARGETS = ["PpciVerif.Props.C17", "Drivers.C17"]
LEVEL = "proof"
LEVEL_TEXT = (
    "Lean theorems about an executable model of ElfWriter.export_object (ET_REL and ET_EXEC, 32/64 bit, both byte orders) and an ELF reader "
    "Spec.Elf written from the gABI independently of the code, for ALL objects (no bound on the number or size of sections, symbols, "
    "relocations, images), under the hypothesis that the writer returned a file (plus, for the tables, Guard: NUL-free names, section names "
    "identify sections, image sections are object sections -- each guard has a Lean witness): (header) the reader returns the class, byte "
    "order, e_type, e_machine and, for executables, the entry symbol's value as e_entry; (segments) exactly one PT_LOAD per memory image, in "
    "order, p_vaddr = p_paddr = Image.address, p_filesz = p_memsz = len(Image.data), p_offset = p_vaddr (mod 4096), file bytes = Image.data, "
    "and a page-mapping loader sees Image.data[i] at Image.address+i; (section header table) the table the reader finds at e_shoff is the null "
    "entry followed by the writer's headers, the entry selected by e_shstrndx is the string table, and EVERY object section has an entry with "
    "its address, size, alignment whose file bytes [sh_offset, sh_offset+sh_size) are the section's data and whose name resolves to the "
    "section's name; sections of an image lie inside the image's PT_LOAD at sh_offset = p_offset + (sh_addr - p_vaddr); (symbol table) the "
    ".symtab header (entsize, size, sh_info = #locals+1) and its file contents = null entry + packed entries of locals-then-globals (a proved "
    "permutation), each with name, binding, type, size and (shndx, value) = (0,0) undefined / (SHN_ABS, value) absolute / (number of a header "
    "whose NAME is the symbol's section, value + section address); (RELA) per section with relocations a .rela<section> header (sh_info = a "
    "header named like the section) and contents = packed entries in order with r_offset, addend, the arch's type and as symbol the position "
    "in the written symbol table of a symbol with the relocation's id. Every packed entry / table is read back by the reader's own parsers "
    "(readTable, mkSymbol, mkRela, checkInfo: record, table, entry and sh_info theorems; string-table lookup theorem). The header layouts "
    "used by the model are dumped from the live header classes on every run and proved (decide) equal to the gABI structures. The hand "
    "model is tied to the source by a byte-for-byte differential run against write_elf on real compiled / linked objects of all five "
    "machines, and the property is evaluated on every real file with the Lean gABI reader, GNU readelf and llvm-readelf."
)
LEVEL_NOTE = (
    "PARTIAL (shape P): proved at the level of the reader's primitives and entry parsers (readTable at e_shoff, slice, strAt, mkSymbol, mkRela, "
    "checkInfo) plus readIdent/readEhdr/readSegments as whole functions; NOT proved: that the reader's table drivers readSections / readSymTabs "
    "/ readRelaTabs succeed on the written file, i.e. Spec.Elf.read (write obj) = view obj as ONE equation (Props.C17.read_write_full; these "
    "also need sh_addr % sh_addralign = 0, power-of-two alignments and r_type fitting the class, which the writer does not enforce). That last "
    "step is evaluated on every real file. trusted: Lean kernel; axioms propext/Classical.choice/Quot.sound; Spec.Elf (validated against GNU "
    "readelf's parse of every file in the thorough tier, a sample in quick); the hand model <-> source correspondence is sampled (byte equality "
    "on every generated file), not proved; struct.pack / BytesIO seek-tell semantics as modelled. Not covered: ET_DYN/dynamic section, debug "
    "sections, arch.get_reloc_type (arch code; its result is an input), readers other than readelf / llvm-readelf / the Linux loader. Two open "
    "findings: relocatable files with relocations cannot be written for the four non-x86 machines (NotImplementedError) nor for x86_64 "
    "relocation types missing from elf_reloc_mapping (KeyError)."
)
TECHNIQUE = ("Lean 4 proof (induction over field lists / symbol lists / the writer's append-only file) about a hand model + table translation "
             "(header _fields dumped from live classes, decide) + byte-exact differential correspondence + independent readers (Lean gABI reader, readelf)")
RULE = ("files: fixed corpus (big-endian microblaze, non-page-aligned load addresses, absolute symbols, no locals / no globals / no symbols, symbol in "
        "the 3rd+ section, sections outside every image, empty sections, unsupported relocation types) then, per machine, generated C programs "
        "(globals, statics, extern calls), generated assembly (several sections, alignment, data relocations) and ObjectFile-API objects (random "
        "section/symbol/relocation shapes), each written as relocatable and -- linked with a generated layout (1-3 memories, aligned and unaligned "
        "locations, ALIGN, DEFINESYMBOL, SECTIONDATA, extra absolute symbols, with/without entry) -- as executable. distinct = distinct (machine, file "
        "type, #sections, #locals, #globals, #relocation tables, #images, has-absolute, has-undefined, unaligned-vaddr) shapes; non-trivial = every "
        "file with at least one symbol or more than one section")
TRUSTED = [
    "hand model Model.ElfW of ppci/format/elf/{writer,headers,string}.py + ppci/format/header.py (BytesIO seek/tell as header ++ body), tied by byte-exact differential run on every check",
    "Gen.ElfHeaders: dump of HeaderTypes(bits, endianness).<Header>._fields (name, packer.format) and .size by harness/c17.py regen()",
    "Spec.Elf: ELF reader written from the System V gABI (object files, program loading); validated against GNU readelf 2.40 output (thorough: every file; quick: a sample)",
    "GNU readelf 2.40 / llvm-readelf 14 / the Linux ELF loader as the 'independent ELF readers' of the statement (pyelftools is not available in the sandbox)",
    "obj.arch.get_reloc_type (ELF relocation numbers) is arch code: its result is an input of the model",
]
ASSUMPTIONS = [
    "section and symbol names are ASCII without NUL (name.encode('ascii') in StringTable)",
    "addresses, sizes and values fit the file class (else struct.error: no file is written)",
    "section names are unique within an object and symbol ids are unique (ObjectFile invariants)",
]

ARCHES = ["x86_64", "arm", "riscv", "xtensa", "microblaze"]
# independent expectations (gABI / psABI), NOT read from ppci
EXPECT = {  # arch: (class bits, byte order, e_machine, readelf machine text)
    "x86_64": (64, "le", 62, "X86-64"),
    "arm": (32, "le", 40, "ARM"),
    "riscv": (32, "le", 243, "RISC-V"),
    "xtensa": (32, "le", 94, "Xtensa"),
    "microblaze": (32, "be", 189, "MicroBlaze"),
}
X86_RELOCS = ["rel32", "abs64", "abs32", "absaddr64"]


# ----------------------------------------------------------------------------------------------
# translation: dump live header layouts
def regen(ctx):
    from ppci.format.elf.headers import HeaderTypes
    from ppci.arch.arch_info import Endianness
    import struct
    known = set("""e_type e_machine e_version e_entry e_phoff e_shoff e_flags e_ehsize e_phentsize e_phnum e_shentsize e_shnum e_shstrndx
        sh_name sh_type sh_flags sh_addr sh_offset sh_size sh_link sh_info sh_addralign sh_entsize
        p_type p_flags p_offset p_vaddr p_paddr p_filesz p_memsz p_align
        st_name st_info st_other st_shndx st_value st_size r_offset r_info r_addend d_tag d_val""".split())
    classes = [("ehdr", "ElfHeader"), ("phdr", "ProgramHeader"), ("shdr", "SectionHeader"), ("sym", "SymbolTableEntry"),
               ("rela", "RelocationTableEntry"), ("dyn", "DynamicEntry")]
    out = ["import PpciVerif.Model.ElfW",
           "/-! GENERATED by harness/c17.py regen() from ppci.format.elf.headers.HeaderTypes(bits, endianness) — do not edit.",
           "    One `Layouts` per (class, byte order): the `_fields` of every header class as (name, byte-order prefix of",
           "    the field's struct format, format character), and the classes' `size` attributes. -/",
           "namespace Gen.ElfHeaders", "open Spec.Elf Model.ElfW", ""]
    for bits in (32, 64):
        for en, ename in ((Endianness.LITTLE, "le"), (Endianness.BIG, "be")):
            ht = HeaderTypes(bits=bits, endianness=en)
            parts, sizes = [], []
            for key, cname in classes:
                cls = getattr(ht, cname)
                fl = []
                for f in cls._fields:
                    fmt = f.packer.format
                    if isinstance(fmt, bytes):
                        fmt = fmt.decode()
                    order = {"<": "lt", ">": "gt"}.get(fmt[0], "native") if len(fmt) == 2 else ("native" if len(fmt) == 1 else None)
                    ch = fmt[-1]
                    if order is None or ch not in "BHIQiq" or f.name not in known:
                        raise ValueError(f"untranslatable field {cname}.{f.name} format {fmt!r}")
                    if f.size != struct.calcsize("<" + ch):
                        raise ValueError(f"field {cname}.{f.name}: size {f.size} is not the standard size of {ch!r}")
                    # the byte order the packer really uses (probe), must agree with the prefix (native = little on this host)
                    probe = f.encode(1)
                    real = "le" if probe[0] == 1 else "be"
                    if f.size > 1 and real != {"lt": "le", "gt": "be", "native": "le"}[order]:
                        raise ValueError(f"field {cname}.{f.name}: format {fmt!r} packs {real}")
                    fl.append(f"⟨.{f.name}, .{order}, .{ch}⟩")
                parts.append(f"    {key} := [{', '.join(fl)}]")
                sizes.append(str(cls.size))
            out.append(f"def l{bits}{ename} : Layouts :=\n  {{\n" + ",\n".join(parts) + " }")
            out.append(f"/-- `.size` of ElfHeader, ProgramHeader, SectionHeader, SymbolTableEntry, RelocationTableEntry, DynamicEntry -/")
            out.append(f"def sizes{bits}{ename} : List Nat := [{', '.join(sizes)}]\n")
    out += ["def layouts : Cls → End → Layouts",
            "  | .c32, .le => l32le", "  | .c32, .be => l32be", "  | .c64, .le => l64le", "  | .c64, .be => l64be", "",
            "def sizes : Cls → End → List Nat",
            "  | .c32, .le => sizes32le", "  | .c32, .be => sizes32be", "  | .c64, .le => sizes64le", "  | .c64, .be => sizes64be", "",
            "end Gen.ElfHeaders", ""]
    txt = "\n".join(out)
    p = common.LEAN / "PpciVerif" / "Gen" / "ElfHeaders.lean"
    p.parent.mkdir(exist_ok=True)
    if not p.exists() or p.read_text() != txt:
        p.write_text(txt)


# ----------------------------------------------------------------------------------------------
# generators
def hx(b):
    b = bytes(b)
    return b.hex() if b else "-"


def nm(s):
    return hx(s.encode("ascii"))


def ident(rng, prefix):
    return prefix + "".join(rng.choice("abcdefghxyz_0123456789") for _ in range(rng.randint(1, 6)))


def related_ident(rng, prefix, used):
    """a name that overlaps a name already in the object: a proper tail of it (after a '_' or anywhere), a name that
    ends / begins with it, or one that repeats it (`min_of_min` beside `min`) - what a string table that shares
    storage between names has to get right, in whichever order the names are entered"""
    base = rng.choice(sorted(used)) if used else ident(rng, prefix)
    k = rng.randrange(6)
    if k == 0 and "_" in base.strip("_"):
        t = base.split("_", rng.randint(1, base.count("_")))[-1]
        return t if t and not t[0].isdigit() else prefix + t
    if k == 1 and len(base) > 1:
        t = base[rng.randint(1, len(base) - 1):]
        return t if t and not t[0].isdigit() else prefix + t
    if k == 2:
        return base + "_" + rng.choice(["of", "x", "0"]) + "_" + base
    if k == 3:
        return ident(rng, prefix) + "_" + base
    if k == 4:
        return base + "_" + ident(rng, "")
    return base + base


def gen_c(rng, externs, arch=None):
    """small C translation unit: globals (data), statics (local symbols), functions, optionally extern references"""
    ng, ns, nf = rng.randint(0, 3), rng.randint(0, 2), rng.randint(1, 3)
    lines = []
    gl = [f"g{i}_{rng.randint(0, 99)}" for i in range(ng)]
    st = [f"s{i}_{rng.randint(0, 99)}" for i in range(ns)]
    for g in gl:
        lines.append(f"int {g} = {rng.randint(-5, 1000)};")
    for s in st:
        lines.append(f"static int {s} = {rng.randint(1, 9)};")
    ext_f, ext_v = [], []
    if externs:
        ext_f = [f"xf{i}" for i in range(rng.randint(0, 2))]
        ext_v = [f"xv{i}" for i in range(rng.randint(0, 2))]
        lines += [f"int {f}(int);" for f in ext_f] + [f"extern int {v};" for v in ext_v]
    if rng.random() < 0.5 and arch != "microblaze":      # (ppci's microblaze back-end cannot emit pointer initialisers)
        lines.append(f"int *gp{rng.randint(0, 9)} = &{gl[0]};" if gl else "char msg[] = \"hi\";")
    prev = []
    for i in range(nf):
        static = rng.random() < 0.4 and i < nf - 1
        name = f"{'sf' if static else 'f'}{i}"
        terms = ["a", str(rng.randint(1, 50))] + rng.sample(gl + st + ext_v, min(len(gl + st + ext_v), rng.randint(0, 2)))
        terms += [f"{p}(a)" for p in rng.sample(prev + ext_f, min(len(prev + ext_f), rng.randint(0, 2)))]
        body = f" {rng.choice('+-*' if externs else '+-')} ".join(terms)   # '*' needs a runtime library on some targets when linked
        if rng.random() < 0.3:
            body = f"(a > {rng.randint(0, 9)}) ? ({body}) : {rng.randint(0, 9)}"
        lines.append(f"{'static ' if static else ''}int {name}(int a) {{ return {body}; }}")
        prev.append(name)
    return "\n".join(lines) + "\n", [p for p in prev if p.startswith("f")]


def gen_asm(rng, arch, externs):
    """generic-directive assembly: several sections, labels, alignment, data relocations"""
    secs = rng.sample(["code", "data", "rodata", "mysec", "zsec", "a"], rng.randint(1, 4))
    lines, labels, globs = [], [], []
    word = "dq" if arch == "x86_64" else "dcd"
    for s in secs:
        lines.append(f"section {s}")
        for _ in range(rng.randint(0, 4)):
            k = rng.random()
            if k < 0.35:
                lab = ident(rng, "L")
                if lab in labels:
                    continue
                if rng.random() < 0.5:
                    lines.append(f"global {lab}")
                    globs.append(lab)
                lines.append(f"{lab}:")
                labels.append(lab)
            elif k < 0.6:
                lines.append(f"db {rng.randint(0, 255)}")
            elif k < 0.75:
                lines.append(f"dd {rng.randint(0, 2**32 - 1)}")
            elif k < 0.85:
                lines.append(f"align {rng.choice([2, 4, 8, 16])}")
            elif labels:
                lines.append(f"{word} ={rng.choice(labels)}")
            elif externs:
                lines.append(f"{word} =ext_{rng.randint(0, 3)}")
        if rng.random() < 0.3:
            lines.append(f"db {rng.randint(0, 255)}")
    return "\n".join(lines) + "\n", globs, secs


def gen_layout(rng, arch, section_names, entry_ok=True):
    """generated linker layout text over the given section names"""
    bits = EXPECT[arch][0]
    names = list(section_names)
    rng.shuffle(names)
    nmem = rng.randint(1, min(3, max(1, len(names))))
    if rng.random() < 0.25 and len(names) > 1:
        names = names[:-1]          # one section stays outside every image
    mems, base = [], rng.choice([0x10000, 0x400000, 0x8000, 0x20000000 if bits == 32 else 0x7f0000000000])
    memnames = rng.sample(["code", "data", "ram", "flash", "rom"], nmem)
    chunks = [names[i::nmem] for i in range(nmem)]
    defs = 0
    for mn, ch in zip(memnames, chunks):
        loc = base
        r = rng.random()
        if r < 0.35:
            loc += rng.choice([4, 8, 0x10, 0x234, 0xffc, 0x1004])
        elif r < 0.45:
            loc += rng.choice([1, 2, 3, 0x7ff])
        inputs = []
        for s in ch:
            if rng.random() < 0.2:
                inputs.append(f"ALIGN({rng.choice([4, 8, 16, 64])})")
            inputs.append(f"SECTION({s})")
            if rng.random() < 0.2:
                inputs.append(f"DEFINESYMBOL(lay_sym{defs})")
                defs += 1
            if rng.random() < 0.1:
                inputs.append(f"SECTIONDATA({s})")
        if not inputs:
            inputs.append("ALIGN(4)")           # the layout grammar has no empty memory
        mems.append(f"MEMORY {mn} LOCATION=0x{loc:x} SIZE=0x20000 {{ {' '.join(inputs)} }}")
        base += rng.choice([0x30000, 0x100000, 0x21000])
    return "\n".join(mems) + "\n"


def synth_object(rng, arch, for_exec):
    """ObjectFile built through the API: shapes the compilers do not produce"""
    from ppci.api import get_arch
    from ppci.binutils.objectfile import ObjectFile, Section, RelocationEntry
    o = ObjectFile(get_arch(arch))
    nsec = rng.randint(0, 5)
    names = rng.sample(["code", "data", "rodata", "bss", "mysec", "a", "zz", "text2", "init"], nsec)
    for n in names:
        s = Section(n)
        s.alignment = rng.choice([1, 2, 4, 4, 8, 16])
        s.add_data(bytes(rng.randrange(256) for _ in range(rng.choice([0, 1, 3, 4, 7, 16, 33]))))
        o.add_section(s)
    mode = rng.choice(["mixed", "mixed", "all-global", "all-local", "none"])
    nsym = 0 if mode == "none" else rng.randint(1, 8)
    used = set()
    for i in range(nsym):
        g = {"all-global": True, "all-local": False}.get(mode, rng.random() < 0.5)
        name = related_ident(rng, "s", used) if rng.random() < 0.4 else ident(rng, "s")
        if g and name in used:
            continue
        used.add(name)
        undefined = (not for_exec) and rng.random() < 0.2
        if undefined or not names:
            value, sec = None, None
        else:
            sec = rng.choice(names)
            value = rng.randint(0, max(0, o.get_section(sec).size))
        # absolute symbols: only in relocatable inputs (the linker cannot merge them; executables get theirs via extra_symbols)
        if (not for_exec) and (not undefined) and names and rng.random() < 0.1:
            value, sec = rng.randint(0, 0xFFFF), None
        if (not for_exec) and value is None and names == [] and rng.random() < 0.5:
            value, sec = rng.randint(0, 0xFFFF), None
        if for_exec and value is None:
            continue
        o.add_symbol(i, name, "global" if g else "local", value, sec, rng.choice(["func", "object", "object", "notype"]),
                     rng.choice([0, 0, 4, 16]))
    if not for_exec and o.symbols and names and rng.random() < 0.8:
        kinds = X86_RELOCS if arch == "x86_64" else ["absaddr32"]
        if arch == "x86_64" or rng.random() < 0.15:
            for _ in range(rng.randint(1, 6)):
                sec = rng.choice(names)
                o.add_relocation(RelocationEntry(rng.choice(kinds), rng.choice(o.symbols).id, sec,
                                                 rng.randint(0, max(0, o.get_section(sec).size)),
                                                 rng.choice([0, 0, 4, -4, -1, 2**31 - 1, -2**31, 1234])))
    return o


class Case:
    def __init__(self, label, arch, obj, typ):
        self.label, self.arch, self.obj, self.typ = label, arch, obj, typ


def quiet():
    logging.disable(logging.CRITICAL)


def build_cases(ctx):
    """corpus first, then generated objects"""
    from ppci import api
    from ppci.binutils.objectfile import ObjectFile, Section, RelocationEntry, Image
    quiet()
    rng = ctx.rng
    cases = []

    def cc(src, arch):
        return api.cc(io.StringIO(src), arch)

    def asm(src, arch):
        return api.asm(io.StringIO(src), arch)

    def link(objs, lay, **kw):
        return api.link(objs, layout=io.StringIO(lay), **kw)

    def add(label, arch, obj, typ):
        cases.append(Case(label, arch, obj, typ))

    # ---------------- fixed corpus ----------------
    csrc = "int g = 5; static int h = 7; static int loc(int a) { return a + h; } int foo(int a) { return g + loc(a); }\n"
    lay2 = "MEMORY code LOCATION=0x10000 SIZE=0x10000 { SECTION(code) }\nMEMORY data LOCATION=0x30000 SIZE=0x10000 { SECTION(data) }\n"
    for arch in ARCHES:                                     # incl. big-endian microblaze
        o = cc(csrc, arch)
        add(f"corpus:c-exec:{arch}", arch, link([o], lay2, entry="foo"), "executable")
        add(f"corpus:c-rel:{arch}", arch, o, "relocatable")    # non-x86: unsupported relocation types (known finding)
    x = "x86_64"
    exit42 = "section code\nglobal _start\n_start:\nmov rax, 60\nmov rdi, 42\nsyscall\n"
    oa = asm(exit42, x)
    for loc in (0x400000, 0x400004, 0x400ffc):             # page-aligned and not
        add(f"corpus:unaligned-vaddr:{loc:x}", x,
            link([oa], f"MEMORY code LOCATION=0x{loc:x} SIZE=0x10000 {{ SECTION(code) }}\n", entry="_start"), "executable")
    add("corpus:absolute-symbol", x, link([cc(csrc, x)], lay2, entry="foo", extra_symbols={"abs_a": 0x1234, "abs_b": 0}), "executable")
    add("corpus:absolute-symbol:arm", "arm", link([cc(csrc, "arm")], lay2, extra_symbols={"abs_a": 0xFFFF0000}), "executable")
    add("corpus:layout-features", x,
        link([cc(csrc, x)], "MEMORY code LOCATION=0x10004 SIZE=0x10000 { SECTION(code) ALIGN(16) DEFINESYMBOL(codeend) SECTION(extra) }\n"
                            "MEMORY ram LOCATION=0x30010 SIZE=0x10000 { SECTION(data) SECTIONDATA(code) }\n", entry="foo"), "executable")
    add("corpus:section-outside-images", x, link([cc(csrc, x)], "MEMORY code LOCATION=0x10000 SIZE=0x10000 { SECTION(code) }\n", entry="foo"),
        "executable")
    add("corpus:exec-without-images", x, api.link([cc(csrc, x)], entry="foo"), "executable")
    add("corpus:x86-absaddr32", x, asm("section code\nl1:\ndb 1\nsection data\ndcd =l1\n", x), "relocatable")   # known finding (KeyError)
    add("corpus:x86-data-relocs", x, asm("section code\nglobal l1\nl1:\ndb 1\nl2:\ndb 2\nsection data\ndq =l1\ndq =l2\ndq =undef\nsection a\ndq =l2\n", x),
        "relocatable")

    def mk(arch, secs, syms, rels=()):
        o = ObjectFile(api.get_arch(arch))
        for n, al, data in secs:
            s = Section(n)
            s.alignment = al
            s.add_data(bytes(data))
            o.add_section(s)
        for i, (name, b, v, sec, typ, size) in enumerate(syms):
            o.add_symbol(i, name, b, v, sec, typ, size)
        for r in rels:
            o.add_relocation(RelocationEntry(*r))
        return o
    three = [("code", 4, b"\x90" * 5), ("data", 8, b"\x01\x02\x03"), ("third", 16, b"\xaa" * 20), ("empty", 1, b"")]
    add("corpus:no-locals", x, mk(x, three, [("ga", "global", 0, "code", "func", 4), ("gb", "global", 2, "third", "object", 1)],
                                  [("abs64", 1, "data", 0, -8), ("rel32", 0, "third", 4, 4)]), "relocatable")
    add("corpus:no-globals", x, mk(x, three, [("la", "local", 1, "third", "func", 0), ("la", "local", 3, "data", "notype", 2)],
                                   [("abs32", 1, "code", 1, 0)]), "relocatable")
    add("corpus:no-symbols", x, mk(x, three, []), "relocatable")
    add("corpus:no-sections", "riscv", mk("riscv", [], [("u", "global", None, None, "func", 0)]), "relocatable")
    add("corpus:third-section-symbols", "microblaze",
        mk("microblaze", three, [("g3", "global", 7, "third", "object", 4), ("l3", "local", 19, "third", "func", 0),
                                 ("ge", "global", 0, "empty", "object", 0), ("und", "global", None, None, "object", 0)]), "relocatable")
    add("corpus:undefined-func-plt", x, mk(x, three, [("callee", "global", None, None, "func", 0), ("l", "local", 0, "code", "func", 0)],
                                           [("rel32", 0, "code", 1, -4), ("rel32", 1, "code", 1, -4)]), "relocatable")
    ncorpus = len(cases)

    # ---------------- generated ----------------
    per_arch = 10 if ctx.thorough else 2
    for arch in ARCHES:
        for k in range(per_arch):
            # C: relocatable with externs, executable without
            src, funcs = gen_c(rng, externs=True, arch=arch)
            try:
                add(f"gen:c-rel:{arch}:{k}", arch, cc(src, arch), "relocatable")
            except Exception as e:  # the C generator produced something the front-end rejects: not this property's business
                ctx.count("gen_cc_rejected")
            src, funcs = gen_c(rng, externs=False, arch=arch)
            try:
                o = cc(src, arch)
                secs = [s.name for s in o.sections]
                kw = {"entry": rng.choice(funcs)} if rng.random() < 0.8 else {}
                if rng.random() < 0.3:
                    kw["extra_symbols"] = {f"abs{i}": rng.choice([0, 1, 0x1000, 0xFFFFFFF0]) for i in range(rng.randint(1, 2))}
                add(f"gen:c-exec:{arch}:{k}", arch, link([o], gen_layout(rng, arch, secs), **kw), "executable")
            except Exception as e:
                ctx.count("gen_cc_or_link_rejected:" + type(e).__name__)
            # assembly (microblaze's assembler has no data directives)
            if arch != "microblaze":
                src, globs, secs = gen_asm(rng, arch, externs=True)
                try:
                    o = asm(src, arch)
                    add(f"gen:asm-rel:{arch}:{k}", arch, o, "relocatable")
                except Exception as e:
                    ctx.count("gen_asm_rejected:" + type(e).__name__)
                src, globs, secs = gen_asm(rng, arch, externs=False)
                try:
                    o = asm(src, arch)
                    kw = {"entry": rng.choice(globs)} if globs and rng.random() < 0.7 else {}
                    add(f"gen:asm-exec:{arch}:{k}", arch, link([o], gen_layout(rng, arch, [s.name for s in o.sections]), **kw), "executable")
                except Exception as e:
                    ctx.count("gen_asm_or_link_rejected:" + type(e).__name__)
            # ObjectFile API
            add(f"gen:api-rel:{arch}:{k}", arch, synth_object(rng, arch, False), "relocatable")
            o = synth_object(rng, arch, True)
            try:
                glob = [s.name for s in o.symbols if s.binding == "global" and s.value is not None]
                kw = {"entry": rng.choice(glob)} if glob and rng.random() < 0.6 else {}
                if rng.random() < 0.3:
                    kw["extra_symbols"] = {f"abs{i}": rng.choice([0, 1, 0x1000, 0xFFFFFFF0]) for i in range(rng.randint(1, 2))}
                add(f"gen:api-exec:{arch}:{k}", arch, link([o], gen_layout(rng, arch, [s.name for s in o.sections]), **kw), "executable")
            except Exception as e:
                ctx.count("gen_api_link_rejected:" + type(e).__name__)
    return cases, ncorpus


# ----------------------------------------------------------------------------------------------
# object -> model request, object -> expected view
def reloc_type_of(obj, rel):
    try:
        return ("ok", int(obj.arch.get_reloc_type(rel.reloc_type, obj.symbols_by_id[rel.symbol_id])))
    except NotImplementedError:
        return ("NotImplementedError", None)
    except KeyError:
        return ("KeyError", None)


def model_request(case, quirks="00"):
    o = case.obj
    w = ["write", quirks, case.arch, "rel" if case.typ == "relocatable" else "exec",
         "~" if o.entry_symbol_id is None else str(o.entry_symbol_id)]
    for s in o.sections:
        w += ["S", nm(s.name), str(s.address), str(s.alignment), hx(s.data)]
    for s in o.symbols:
        typ = {"func": "f", "object": "o"}.get(s.typ, "n")
        w += ["Y", str(s.id), nm(s.name), "g" if s.binding == "global" else "l", "~" if s.value is None else str(s.value),
              "~" if s.section is None else nm(s.section), typ, str(s.size)]
    for r in o.relocations:
        k, v = reloc_type_of(o, r)
        w += ["R", str(v) if k == "ok" else ("~" if k == "NotImplementedError" else "!"), str(r.symbol_id), nm(r.section), str(r.offset), str(r.addend)]
    for i in o.images:
        w += ["I", nm(i.name), str(i.address), str(len(i.sections))] + [nm(s.name) for s in i.sections]
    return " ".join(w)


def real_write(case):
    from ppci.format.elf import write_elf
    f = io.BytesIO()
    try:
        write_elf(case.obj, f, type=case.typ)
    except Exception as e:  # noqa
        return None, ("error" if type(e).__name__ == "error" else type(e).__name__)
    return f.getvalue(), None


def parse_view(reply):
    """reply of the driver's `read` -> dict"""
    t = reply.split()
    assert t[0] == "ok" and t[1] == "H", reply[:80]
    v = {"cls": int(t[2]), "en": t[3], "etype": int(t[4]), "machine": int(t[5]), "entry": int(t[6]), "flags": int(t[7]),
         "shstrndx": int(t[8]), "segs": [], "secs": [], "symtabs": [], "relatabs": []}
    i = 9

    def unhex(s):
        return b"" if s == "-" else bytes.fromhex(s)
    while i < len(t):
        k = t[i]
        if k == "P":
            a = t[i + 1:i + 10]
            v["segs"].append(dict(zip(["type", "flags", "offset", "vaddr", "paddr", "filesz", "memsz", "align"], map(int, a[:8])), data=unhex(a[8])))
            i += 10
        elif k == "S":
            a = t[i + 1:i + 12]
            v["secs"].append(dict(zip(["type", "flags", "addr", "offset", "size", "link", "info", "addralign", "entsize"], map(int, a[1:10])),
                                  name=unhex(a[0]).decode("latin1"), data=unhex(a[10])))
            i += 12
        elif k == "T":
            idx, info, n = int(t[i + 1]), int(t[i + 2]), int(t[i + 3])
            i += 4
            syms = []
            for _ in range(n):
                assert t[i] == "Y"
                a = t[i + 1:i + 8]
                syms.append(dict(zip(["value", "size", "bind", "type", "other", "shndx"], map(int, a[1:])), name=unhex(a[0]).decode("latin1")))
                i += 8
            v["symtabs"].append({"index": idx, "info": info, "syms": syms})
        elif k == "A":
            idx, target, symtab, n = int(t[i + 1]), int(t[i + 2]), int(t[i + 3]), int(t[i + 4])
            i += 5
            es = []
            for _ in range(n):
                assert t[i] == "E"
                es.append(dict(zip(["offset", "sym", "type", "addend"], map(int, t[i + 1:i + 5]))))
                i += 5
            v["relatabs"].append({"index": idx, "target": target, "symtab": symtab, "entries": es})
        else:
            raise AssertionError("bad view token " + k)
    return v


BIND = {0: "local", 1: "global"}
STT = {"func": 2, "object": 1}


def sym_key(o, s):
    """what an ELF reader must see of object symbol s: (name, value, binding, type, section name | UND | ABS)"""
    if s.value is None:
        val, where = 0, "UND"
    elif s.section is None:
        val, where = s.value, "ABS"
    else:
        val, where = s.value + o.section_map[s.section].address, "sec:" + s.section
    return (s.name, val, s.binding, STT.get(s.typ, 0), where, s.size)


def elf_sym_key(v, y):
    if y["shndx"] == 0:
        where = "UND"
    elif y["shndx"] == 0xFFF1:
        where = "ABS"
    elif y["shndx"] < len(v["secs"]):
        where = "sec:" + v["secs"][y["shndx"]]["name"]
    else:
        where = f"shndx:{y['shndx']}"
    return (y["name"], y["value"], BIND.get(y["bind"], f"bind{y['bind']}"), y["type"], where, y["size"])


def evaluate(ctx, case, data, v):
    """the property on one real file, the Lean gABI reader's view `v` as the independent reader"""
    o, lab = case.obj, case.label
    bits, en, mach, _ = EXPECT[case.arch]

    def fail(sig, what, **kw):
        ctx.fail(sig, f"{lab}: {what}", {"label": lab, "arch": case.arch, "type": case.typ, "request": model_request(case)}, **kw)
    if (v["cls"], v["en"]) != (bits, en):
        fail("header:class-or-byte-order", f"class/data {v['cls']}/{v['en']} but {case.arch} is {bits}/{en}")
    if v["machine"] != mach:
        fail("header:e_machine", f"e_machine {v['machine']} != {mach}")
    if v["etype"] != (1 if case.typ == "relocatable" else 2):
        fail("header:e_type", f"e_type {v['etype']}")
    # --- sections: contents and addresses
    special = lambda n: n in ("", ".symtab", ".strtab") or n.startswith(".rela")  # noqa
    by_name = {}
    for s in v["secs"][1:]:
        if s["type"] == 1:
            by_name.setdefault(s["name"], []).append(s)
    for s in o.sections:
        got = by_name.get(s.name, [])
        if len(got) != 1:
            fail("section:missing-or-duplicate", f"section {s.name!r} appears {len(got)} times")
            continue
        g = got[0]
        if g["data"] != bytes(s.data):
            fail("section:contents", f"section {s.name!r}: reader sees {g['data'][:16].hex()}.. ({len(g['data'])} bytes) != object {bytes(s.data)[:16].hex()}.. ({s.size})")
        if g["addr"] != s.address:
            fail("section:address", f"section {s.name!r}: sh_addr 0x{g['addr']:x} != 0x{s.address:x}")
    extra = set(by_name) - {s.name for s in o.sections}
    if extra:
        fail("section:extra-progbits", f"PROGBITS sections not in the object: {sorted(extra)}")
    # --- symbols: values, bindings, types (+ home section)
    if len(v["symtabs"]) != 1:
        fail("symtab:count", f"{len(v['symtabs'])} symbol tables")
        return
    st = v["symtabs"][0]
    want = sorted(sym_key(o, s) for s in o.symbols)
    got = sorted(elf_sym_key(v, y) for y in st["syms"][1:])
    if want != got:
        diff = [x for x in want if x not in got][:3], [x for x in got if x not in want][:3]
        cls = "symbol:set"
        if len(want) == len(got):
            w, g = diff[0][0] if diff[0] else None, diff[1][0] if diff[1] else None
            if w and g:
                for i, field in enumerate(["name", "value", "binding", "type", "section", "size"]):
                    if w[i] != g[i]:
                        cls = "symbol:" + field
                        break
        fail(cls, f"symbols differ: object-only {diff[0]} file-only {diff[1]}")
    nlocal = sum(1 for s in o.symbols if s.binding != "global")
    if st["info"] != nlocal + 1:
        fail("symtab:sh_info", f"sh_info {st['info']} != first non-local index {nlocal + 1}")
    # --- relocations
    if case.typ == "relocatable":
        want = {}
        for r in o.relocations:
            want.setdefault(r.section, []).append((r.offset, sym_key(o, o.symbols_by_id[r.symbol_id]), reloc_type_of(o, r)[1], r.addend))
        got = {}
        for t in v["relatabs"]:
            tn = v["secs"][t["target"]]["name"]
            if t["symtab"] != st["index"]:
                fail("rela:sh_link", f"rela table for {tn}: sh_link {t['symtab']} is not the symbol table {st['index']}")
            got[tn] = [(e["offset"], elf_sym_key(v, st["syms"][e["sym"]]), e["type"], e["addend"]) for e in t["entries"]]
        if want != got:
            cls = "rela:entries"
            if set(want) != set(got):
                cls = "rela:tables"
            else:
                for k in want:
                    for a, b in zip(want[k], got[k]):
                        if a != b:
                            cls = "rela:" + ["r_offset", "r_sym", "r_type", "r_addend"][[x != y for x, y in zip(a, b)].index(True)]
                            break
            fail(cls, f"relocation tables differ: object {str(want)[:300]} file {str(got)[:300]}")
    # --- entry point
    if case.typ == "executable" and o.entry_symbol_id is not None:
        e = o.symbols_by_id[o.entry_symbol_id]
        ev = e.value + (o.section_map[e.section].address if e.section is not None else 0)
        if v["entry"] != ev:
            fail("header:e_entry", f"e_entry 0x{v['entry']:x} != entry symbol value 0x{ev:x}")
    # --- loadable segments = memory images
    if case.typ == "executable":
        loads = [s for s in v["segs"] if s["type"] == 1]
        if len(loads) != len(o.images):
            fail("segment:count", f"{len(loads)} PT_LOAD segments for {len(o.images)} images")
        for img, sg in zip(o.images, loads):
            d = bytes(img.data)
            if sg["vaddr"] != img.address:
                fail("segment:p_vaddr", f"image {img.name}: p_vaddr 0x{sg['vaddr']:x} != 0x{img.address:x}")
            if sg["filesz"] != len(d) or sg["memsz"] != len(d):
                fail("segment:size", f"image {img.name}: p_filesz {sg['filesz']} p_memsz {sg['memsz']} != image size {len(d)}")
            if sg["data"] != d:
                fail("segment:contents", f"image {img.name}: segment bytes differ from Image.data")
            # a loader that maps whole file pages (mmap): byte at vaddr a = file[page(p_offset) + a - page(p_vaddr)]
            pg = 0x1000
            for a in (img.address, img.address + len(d) - 1):
                if len(d) == 0:
                    break
                fo = sg["offset"] // pg * pg + (a - sg["vaddr"] // pg * pg)
                if not (0 <= fo < len(data)) or data[fo] != d[a - img.address]:
                    fail("segment:page-mapped-byte", f"image {img.name}: a page-mapping loader sees a different byte at 0x{a:x}")
                    break


# ----------------------------------------------------------------------------------------------
# independent tools
_TOOL_CACHE = {}


def run_tool(args):
    key = tuple(args)
    if key in _TOOL_CACHE:
        return _TOOL_CACHE.pop(key)
    p = subprocess.run(args, capture_output=True, text=True, errors="replace")
    return p.returncode, p.stdout, p.stderr


def prefetch_tools(jobs, workers=8):
    """run the independent tools for all files concurrently; results are picked up by run_tool"""
    from concurrent.futures import ThreadPoolExecutor

    def one(args):
        p = subprocess.run(args, capture_output=True, text=True, errors="replace")
        return tuple(args), (p.returncode, p.stdout, p.stderr)
    with ThreadPoolExecutor(max_workers=workers) as ex:
        for key, res in ex.map(one, jobs):
            _TOOL_CACHE[key] = res


BAD = re.compile(r"warning|error|corrupt|<unknown>|out of range|invalid|unrecognized", re.I)


def accept_cmds(path, llvm):
    return [("readelf", ["readelf", "-a", "-W", path])] + ([("llvm-readelf", ["llvm-readelf", "-a", "-W", path])] if llvm else [])


def tool_accepts(ctx, case, path, llvm=True):
    """`readelf -a -W` and `llvm-readelf -a` must not complain"""
    ok = True
    for tool, args in accept_cmds(path, llvm):
        if not shutil.which(tool):
            ctx.count("tool_missing:" + tool)
            continue
        rc, out, err = run_tool(args)
        ctx.count("eval_accept_" + tool)
        msgs = [l for l in err.splitlines() if l.strip()] + [l for l in out.splitlines() if BAD.search(l)]
        if rc != 0 or msgs:
            ok = False
            ctx.fail(f"{tool}:complains", f"{case.label}: {tool} rc={rc}: {msgs[:3]}",
                     {"label": case.label, "arch": case.arch, "type": case.typ, "request": model_request(case)})
    return ok


def readelf_view(path, nsec):
    """parse GNU readelf output into the same shape as parse_view (independent of the Lean reader)"""
    rc, out, err = run_tool(["readelf", "-h", "-l", "-S", "-s", "-r", "-W", path])
    v = {"segs": [], "secs": [], "syms": [], "relas": {}, "raw": out}
    m = re.search(r"Class:\s+ELF(\d+)", out); v["cls"] = int(m.group(1)) if m else None
    m = re.search(r"Data:\s+2's complement, (\w+) endian", out); v["en"] = {"little": "le", "big": "be"}.get(m.group(1)) if m else None
    m = re.search(r"Type:\s+(\w+)", out); v["etype"] = {"REL": 1, "EXEC": 2, "DYN": 3}.get(m.group(1)) if m else None
    m = re.search(r"Machine:\s+(.*)", out); v["machine"] = m.group(1).strip() if m else ""
    m = re.search(r"Entry point address:\s+0x([0-9a-f]+)", out); v["entry"] = int(m.group(1), 16) if m else None
    m = re.search(r"Section header string table index:\s+(\d+)", out); v["shstrndx"] = int(m.group(1)) if m else None
    for m in re.finditer(r"^\s*\[\s*(\d+)\]\s(.*)$", out, re.M):
        idx, rest = int(m.group(1)), m.group(2)
        f = rest.split()
        if idx == 0:
            v["secs"].append({"name": "", "type": "NULL", "addr": 0, "offset": 0, "size": 0, "entsize": 0, "link": 0, "info": 0, "addralign": 0})
            continue
        # name type addr off size es [flg] lk inf al -- parsed from the right (the name may be empty or odd)
        al, inf, lk = int(f[-1]), int(f[-2]), int(f[-3])
        k = -4
        if not re.fullmatch(r"[0-9a-f]{2,}", f[k]):
            k -= 1                                  # a flags column is present
        es, size, off, addr, typ = int(f[k], 16), int(f[k - 1], 16), int(f[k - 2], 16), int(f[k - 3], 16), f[k - 4]
        name = " ".join(f[:len(f) + k - 4])
        v["secs"].append({"name": name, "type": typ, "addr": addr, "offset": off, "size": size, "entsize": es,
                          "link": lk, "info": inf, "addralign": al})
    for m in re.finditer(r"^\s+LOAD\s+0x([0-9a-f]+)\s+0x([0-9a-f]+)\s+0x([0-9a-f]+)\s+0x([0-9a-f]+)\s+0x([0-9a-f]+)\s+([RWE ]{3})\s+0x([0-9a-f]+)", out, re.M):
        g = m.groups()
        fl = (4 if "R" in g[5] else 0) | (2 if "W" in g[5] else 0) | (1 if "E" in g[5] else 0)
        v["segs"].append({"type": 1, "offset": int(g[0], 16), "vaddr": int(g[1], 16), "paddr": int(g[2], 16), "filesz": int(g[3], 16),
                          "memsz": int(g[4], 16), "flags": fl, "align": int(g[6], 16)})
    for m in re.finditer(r"^\s*(\d+):\s+([0-9a-f]+)\s+(\d+|0x[0-9a-f]+)\s+(\w+)\s+(\w+)\s+(\w+)\s+(\w+)(?: (.*))?$", out, re.M):
        g = m.groups()
        v["syms"].append({"num": int(g[0]), "value": int(g[1], 16), "size": int(g[2], 0), "type": g[3], "bind": g[4], "ndx": g[6],
                          "name": (g[7] or "").strip()})
    cur = None
    for line in out.splitlines():
        m = re.match(r"Relocation section '(.*)' at offset 0x[0-9a-f]+ contains (\d+) entr", line)
        if m:
            cur = m.group(1)
            v["relas"][cur] = []
            continue
        if cur is not None:
            m = re.match(r"^([0-9a-f]{8,16})\s+([0-9a-f]{8,16})\s+(\S+)\s+(?:([0-9a-f]{8,16})\s+(\S*?)\s*([+-])\s*([0-9a-f]+)|\s*([0-9a-f]+))?\s*$", line)
            if m:
                g = m.groups()
                if g[6] is not None:
                    add = int(g[6], 16) * (-1 if g[5] == "-" else 1)
                elif g[7] is not None:
                    add = int(g[7], 16)
                else:
                    add = None
                v["relas"][cur].append({"offset": int(g[0], 16), "info": int(g[1], 16), "rtype": g[2], "addend": add, "symname": g[4]})
            elif not line.strip():
                cur = None
    return v


def readelf_section_bytes(path, idx):
    rc, out, err = run_tool(["readelf", "-x", str(idx), path])
    if "has no data to dump" in out + err:
        return b""
    bs = bytearray()
    for line in out.splitlines():
        m = re.match(r"^  0x[0-9a-f]+ ", line)
        if not m:
            continue
        body = line[m.end():m.end() + 35]
        for grp in body.split(" "):
            grp = grp.strip()
            if grp:
                bs += bytes.fromhex(grp)
    return bytes(bs)


STT_NAME = {0: "NOTYPE", 1: "OBJECT", 2: "FUNC", 3: "SECTION", 4: "FILE"}
SHT_NAME = {0: "NULL", 1: "PROGBITS", 2: "SYMTAB", 3: "STRTAB", 4: "RELA", 8: "NOBITS"}


def compare_with_readelf(ctx, case, path, v):
    """validate the Lean reader against GNU readelf on this file (a difference is a defect of the MACHINERY -> disagreement)"""
    try:
        r = readelf_view(path, len(v["secs"]))
    except Exception as e:  # noqa -- readelf printed something this parser does not understand
        ctx.disagree("lean-reader-vs-readelf:unparsable-readelf-output", {"label": case.label, "request": model_request(case)},
                     f"{type(e).__name__}: {e}"[:300], "")
        return
    bits, en, mach, mtext = EXPECT[case.arch]
    diffs = []
    if (r["cls"], r["en"], r["etype"], r["entry"], r["shstrndx"]) != (v["cls"], v["en"], v["etype"], v["entry"], v["shstrndx"]):
        diffs.append(("header", (r["cls"], r["en"], r["etype"], r["entry"], r["shstrndx"]), (v["cls"], v["en"], v["etype"], v["entry"], v["shstrndx"])))
    if mtext.lower() not in r["machine"].lower():
        ctx.fail("readelf:machine-name", f"{case.label}: readelf names the machine {r['machine']!r}, expected {mtext}",
                 {"label": case.label, "arch": case.arch, "type": case.typ, "request": model_request(case)})
    a = [(s["name"], s["type"], s["addr"], s["offset"], s["size"], s["entsize"], s["link"], s["info"], s["addralign"]) for s in r["secs"]]
    b = [(s["name"], SHT_NAME.get(s["type"], str(s["type"])), s["addr"], s["offset"], s["size"], s["entsize"], s["link"], s["info"], s["addralign"])
         for s in v["secs"]]
    if a != b:
        diffs.append(("sections", [x for x in a if x not in b][:3], [x for x in b if x not in a][:3]))
    a = [(s["offset"], s["vaddr"], s["paddr"], s["filesz"], s["memsz"], s["flags"], s["align"]) for s in r["segs"]]
    b = [(s["offset"], s["vaddr"], s["paddr"], s["filesz"], s["memsz"], s["flags"], s["align"]) for s in v["segs"] if s["type"] == 1]
    if a != b:
        diffs.append(("segments", a[:3], b[:3]))
    if v["symtabs"]:
        ys = v["symtabs"][0]["syms"]

        def ndx(n):
            return {0: "UND", 0xFFF1: "ABS", 0xFFF2: "COM"}.get(n, str(n))
        a = [(s["num"], s["value"], s["size"], s["type"], s["bind"], s["ndx"], s["name"]) for s in r["syms"]]
        b = [(i, y["value"], y["size"], STT_NAME.get(y["type"], str(y["type"])), {0: "LOCAL", 1: "GLOBAL", 2: "WEAK"}.get(y["bind"], str(y["bind"])),
              ndx(y["shndx"]), y["name"]) for i, y in enumerate(ys)]
        if a != b:
            diffs.append(("symbols", [x for x in a if x not in b][:3], [x for x in b if x not in a][:3]))
    for t in v["relatabs"]:
        name = v["secs"][t["index"]]["name"]
        rr = r["relas"].get(name)
        shift = 32 if v["cls"] == 64 else 8
        b = [(e["offset"], (e["sym"] << shift) + e["type"], e["addend"]) for e in t["entries"]]
        a = None if rr is None else [(e["offset"], e["info"], e["addend"]) for e in rr]
        if a != b:
            diffs.append(("rela " + name, a and a[:4], b[:4]))
    if len(r["relas"]) != len(v["relatabs"]):
        diffs.append(("rela tables", sorted(r["relas"]), [v["secs"][t["index"]]["name"] for t in v["relatabs"]]))
    for i, s in enumerate(v["secs"]):
        if s["type"] == 1:
            d = readelf_section_bytes(path, i)
            ctx.count("eval_readelf_hexdump")
            if d != s["data"]:
                diffs.append((f"contents of section {i} {s['name']}", d[:16].hex(), s["data"][:16].hex()))
    ctx.count("eval_readelf_compare")
    for d in diffs:
        ctx.disagree("lean-reader-vs-readelf:" + d[0].split()[0], {"label": case.label, "request": model_request(case)}, str(d[1])[:400], str(d[2])[:400])


def native_run(ctx, tmp):
    """the Linux ELF loader as an independent reader: exit(42) from an aligned and a non-aligned load address"""
    from ppci import api
    from ppci.format.elf import write_elf
    src = "section code\nglobal _start\n_start:\nmov rax, 60\nmov rdi, 42\nsyscall\n"
    try:
        o = api.asm(io.StringIO(src), "x86_64")
    except Exception as e:  # noqa
        ctx.count("native_skipped")
        return
    for loc in (0x400000, 0x400004, 0x600ff8):
        exe = api.link([o], layout=io.StringIO(f"MEMORY code LOCATION=0x{loc:x} SIZE=0x10000 {{ SECTION(code) }}\n"), entry="_start")
        p = os.path.join(tmp, f"native_{loc:x}.elf")
        with open(p, "wb") as f:
            write_elf(exe, f, type="executable")
        os.chmod(p, 0o755)
        try:
            r = subprocess.run([p], capture_output=True, timeout=10)
            rc = r.returncode
        except OSError as e:
            ctx.count("native_exec_unavailable")
            ctx.note(f"native execution unavailable: {e}")
            return
        ctx.count("eval_native_run")
        if rc != 42:
            ctx.fail("native:linux-loader", f"x86_64 exit(42) program loaded at 0x{loc:x} ends with status {rc} (the kernel maps other bytes than Image.data)",
                     {"label": f"native:{loc:x}", "location": loc})


# ----------------------------------------------------------------------------------------------
def shape(case):
    o = case.obj
    nloc = sum(1 for s in o.symbols if s.binding != "global")
    return (case.arch, case.typ, len(o.sections), min(nloc, 3), min(len(o.symbols) - nloc, 3), len({r.section for r in o.relocations}),
            len(o.images), any(s.value is not None and s.section is None for s in o.symbols), any(s.value is None for s in o.symbols),
            any(i.address % 0x1000 for i in o.images))


def check(ctx, lean=True):
    quiet()
    cases, ncorpus = build_cases(ctx)
    tmp = tempfile.mkdtemp(prefix="c17-")
    try:
        reals = [real_write(c) for c in cases]
        reqs, idx = [], []
        if lean:
            for k, (c, (data, err)) in enumerate(zip(cases, reals)):
                reqs.append(model_request(c)); idx.append(("w", k))
                if data is not None:
                    reqs.append("read " + hx(data)); idx.append(("r", k))
            replies = ctx.driver("C17", reqs)
        else:
            replies = []
        model = {}
        views = {}
        for (kind, k), rp in zip(idx, replies):
            (model if kind == "w" else views)[k] = rp
        # independent tools run concurrently for all files (results are consumed below through run_tool)
        full_set, llvm_set, jobs = set(), set(), []
        for k, (c, (data, err)) in enumerate(zip(cases, reals)):
            if data is None:
                continue
            path = os.path.join(tmp, f"f{k}.elf")
            with open(path, "wb") as f:
                f.write(data)
            if ctx.thorough or k < ncorpus or k % 5 == 0 or not lean:
                full_set.add(k)
            if ctx.thorough or k < ncorpus or k % 3 == 0:
                llvm_set.add(k)
            jobs += [a for _, a in accept_cmds(path, k in llvm_set) if shutil.which(a[0])]
            if k in full_set and shutil.which("readelf"):
                jobs.append(["readelf", "-h", "-l", "-S", "-s", "-r", "-W", path])
                rp = views.get(k, "")
                if rp.startswith("ok "):
                    vv = parse_view(rp)
                    jobs += [["readelf", "-x", str(i), path] for i, sct in enumerate(vv["secs"]) if sct["type"] == 1]
        prefetch_tools(jobs)
        for k, (c, (data, err)) in enumerate(zip(cases, reals)):
            ctx.count("files_" + c.typ)
            ctx.count("arch_" + c.arch)
            info = {"label": c.label, "arch": c.arch, "type": c.typ, "request": model_request(c)}
            impl = "err " + err if data is None else "ok " + hx(data)
            # ---- correspondence: model bytes = real bytes
            if lean:
                ctx.count("eval_model_vs_writer")
                if model[k] != impl:
                    mb = model[k]
                    where = ""
                    if mb.startswith("ok ") and impl.startswith("ok "):
                        x, y = bytes.fromhex(mb[3:]), data
                        d = next((i for i in range(min(len(x), len(y))) if x[i] != y[i]), min(len(x), len(y)))
                        where = f" first difference at file offset 0x{d:x} (lengths {len(x)}/{len(y)})"
                    ctx.disagree("write_elf-vs-model" + where, info, impl[:200], mb[:200])
            sh = shape(c)
            if len(c.obj.symbols) > 0 or len(c.obj.sections) > 1:
                ctx.nontrivial(sh)
            if data is None:
                ctx.count("write_raises_" + err)
                kinds = {reloc_type_of(c.obj, r)[0] for r in c.obj.relocations} - {"ok"} if c.typ == "relocatable" else set()
                if err in kinds:
                    ctx.fail(f"write_rela_table:get_reloc_type-{err}",
                             f"{c.label}: no relocatable file can be written: arch.get_reloc_type raises {err}", info)
                else:
                    ctx.fail(f"write_elf:raises-{err}", f"{c.label}: write_elf raised {err}, no file is written", info)
                continue
            ctx.count("programs")
            # ---- the property, Lean gABI reader as the independent reader
            if lean:
                ctx.count("eval_lean_reader")
                rp = views[k]
                if rp.startswith("err "):
                    ctx.fail("gabi-reader:" + rp[4:], f"{c.label}: the gABI reader rejects the file: {rp[4:]}", info)
                    v = None
                else:
                    v = parse_view(rp)
                    evaluate(ctx, c, data, v)
            else:
                v = None
            # ---- independent tools
            full = k in full_set
            path = os.path.join(tmp, f"f{k}.elf")
            accepted = tool_accepts(ctx, c, path, llvm=k in llvm_set)
            if full and v is not None and accepted:
                compare_with_readelf(ctx, c, path, v)
            if not lean:
                evaluate_with_readelf(ctx, c, path, data)
            if k in (0, ncorpus, len(cases) - 1):
                ctx.sample({"label": c.label, "file_bytes": len(data), "sections": [s.name for s in c.obj.sections], "symbols": len(c.obj.symbols),
                            "relocations": len(c.obj.relocations), "images": [(i.name, hex(i.address)) for i in c.obj.images],
                            "lean_reader": (views.get(k, "")[:120] + "...") if lean else "n/a"})
        native_run(ctx, tmp)
        ctx.extra_cov["exhaustive"] = False
        ctx.extra_cov["tables_covered_by_theorems"] = {
            "ident+ELF header (class, byte order, e_type, e_machine, e_entry, e_phnum)": "header_read_back_partial (readIdent/readEhdr as whole functions)",
            "program headers / PT_LOAD = images": "segments_hold_images_partial, page_loader_sees_image (readSegments as a whole function)",
            "section header table: every object section's name/address/size/alignment/file bytes; e_shstrndx string table; image sections inside their segment": "section_table_read_back_partial (readTable at e_shoff, slice, strAt)",
            "symbol table: header + contents (null entry, locals-then-globals, value/binding/type/section name/SHN_ABS/UND)": "symbol_and_rela_tables_partial + symbol_entry_read_back + reader_accepts_symbol_order + table_roundtrip",
            "RELA tables: header + entries (offset, symbol via symtab order, arch type, addend)": "symbol_and_rela_tables_partial + rela_entry_read_back_partial + table_roundtrip",
            "composition for one file": "read_write_partial (Guard: NUL-free names, unique section names, image sections are object sections)",
        }
        ctx.extra_cov["evaluated_per_file_only"] = [
            "Spec.Elf.read(file) succeeds as ONE call (drivers readSections/readSymTabs/readRelaTabs incl. the alignment / r_type-width checks) and its view equals the object",
            "acceptance by GNU readelf and llvm-readelf (no warning/error), agreement of readelf's parse with the Lean reader",
            "native execution by the Linux loader (x86_64 exit(42) from aligned and unaligned load addresses)",
            "model bytes = write_elf bytes",
        ]
        ctx.extra_cov["corpus_cases"] = ncorpus
        ctx.extra_cov["generated_cases"] = len(cases) - ncorpus
    finally:
        shutil.rmtree(tmp, ignore_errors=True)


def evaluate_with_readelf(ctx, case, path, data):
    """fallback evaluation of the property with GNU readelf only (used when the Lean driver cannot be built)"""
    r = readelf_view(path, 0)
    v = {"cls": r["cls"], "en": r["en"], "etype": r["etype"], "entry": r["entry"] or 0, "shstrndx": r["shstrndx"], "flags": 0,
         "machine": EXPECT[case.arch][2] if EXPECT[case.arch][3].lower() in r["machine"].lower() else -1, "segs": [], "secs": [], "symtabs": [],
         "relatabs": []}
    inv = {n: k for k, n in SHT_NAME.items()}
    for i, s in enumerate(r["secs"]):
        t = inv.get(s["type"], -1)
        v["secs"].append(dict(s, type=t, flags=0, data=readelf_section_bytes(path, i) if t == 1 else b""))
    for s in r["segs"]:
        v["segs"].append(dict(s, data=data[s["offset"]:s["offset"] + s["filesz"]]))
    inv_t = {n: k for k, n in STT_NAME.items()}
    syms = [{"name": s["name"], "value": s["value"], "size": s["size"], "bind": {"LOCAL": 0, "GLOBAL": 1, "WEAK": 2}.get(s["bind"], 9),
             "type": inv_t.get(s["type"], 9), "other": 0, "shndx": {"UND": 0, "ABS": 0xFFF1}.get(s["ndx"], int(s["ndx"]) if s["ndx"].isdigit() else 0xFFFF)}
            for s in r["syms"]]
    sidx = next((i for i, s in enumerate(v["secs"]) if s["type"] == 2), 0)
    v["symtabs"].append({"index": sidx, "info": v["secs"][sidx]["info"] if v["secs"] else 0, "syms": syms})
    shift = 32 if r["cls"] == 64 else 8
    for i, s in enumerate(v["secs"]):
        if s["type"] == 4:
            es = [{"offset": e["offset"], "sym": e["info"] >> shift, "type": e["info"] & ((1 << shift) - 1), "addend": e["addend"]}
                  for e in r["relas"].get(s["name"], [])]
            v["relatabs"].append({"index": i, "target": s["info"], "symtab": s["link"], "entries": es})
    ctx.count("eval_readelf_only")
    evaluate(ctx, case, data, v)


def search(ctx):
    """the Lean build is broken (e.g. the regenerated header tables are no longer the gABI layouts): look for a concrete failing
    file on the real code; with the Lean driver if it still builds, else with GNU readelf alone."""
    ok, log = ctx.lake_build(["Drivers.C17"])
    check(ctx, lean=ok)


def replay(ctx, rp):
    check(ctx)
