#!/bin/sh
# Run every claimed check at tier $1 (default thorough) in $2 (default 3) parallel streams; one line per check in $3 (log).
cd "$(dirname "$0")/.." || exit 1
TIER="${1:-thorough}"; N="${2:-3}"; LOG="${3:-/tmp/runall_par.log}"
: > "$LOG"
ids=$(/venv/bin/python -c "import json;print(' '.join(c['property_id'] for c in json.load(open('MANIFEST.json'))['checks']))")
i=0
for k in $(seq 0 $((N-1))); do
  ( j=0; for id in $ids; do
      if [ $((j % N)) -eq $k ]; then
        s=$(date +%s); out=$(VERIF_SEED="${VERIF_SEED:-0}" ./vcheck "$id" --tier "$TIER" 2>&1); rc=$?; e=$(date +%s)
        echo "$id rc=$rc $((e-s))s known=$(echo "$out" | grep -c '^KNOWN-FINDING') viol=$(echo "$out" | grep -c '^VIOLATION') $(echo "$out" | tail -1)" >> "$LOG"
      fi; j=$((j+1)); done ) &
done
wait
