"""Helpers of the C01 check: expression trees over typed variables, their C text / driver form, the adapter that
reads the REAL front-end's typed AST and emitted IR function, executors, object-type (layout) trees.

tree := ("V", ty, i) | ("L", base, suffix, value) | ("C", code) | ("Z", ctype-text, size) | ("U", op, a) | ("B", op, a, b)
      | ("Q", c, a, b) | ("K", ty, a)
types: char schar uchar short ushort int uint long ulong llong ullong   (Spec.CInt.Ty)
"""
import io
import logging
import multiprocessing
import multiprocessing.pool
import os
import subprocess
import sys
import tempfile

from . import cexpr as X

TYPES = X.TYPES
CNAME = X.CNAME
BITS = X.BITS
SIGNED = {"char", "schar", "short", "int", "long", "llong"}
UNOPS = X.UNOPS
BINOPS = X.BINOPS
ARITH = ["add", "sub", "mul", "div", "mod", "band", "bor", "bxor"]
SHIFT = ["shl", "shr"]
CMP = ["lt", "gt", "le", "ge", "eq", "ne"]
LOGIC = ["land", "lor"]
# BasicType id -> tag of Model.CType.Ty
TAG_OF_ID = {"char": "char", "unsigned char": "uchar", "short": "short", "unsigned short": "ushort", "int": "int",
             "unsigned int": "uint", "long": "long", "unsigned long": "ulong", "long long": "llong",
             "unsigned long long": "ullong"}
MODEL_OF_SPEC = {t: ("char" if t == "schar" else t) for t in TYPES}
SIZEOF_TYPES = [("char", 1), ("short", 2), ("int", 4), ("long", 8), ("unsigned short", 2), ("long long", 8),
                ("int[3]", 12), ("char[7]", 7), ("struct { char a; char b; char c; }", 3), ("int *", 8)]


def tmin(t):
    return -(1 << (BITS[t] - 1)) if t in SIGNED else 0


def tmax(t):
    return (1 << (BITS[t] - 1)) - 1 if t in SIGNED else (1 << BITS[t]) - 1


def wrap(t, v):
    v %= 1 << BITS[t]
    if t in SIGNED and v >= 1 << (BITS[t] - 1):
        v -= 1 << BITS[t]
    return v


def proto(e):
    k = e[0]
    if k == "V":
        return f"V {e[1]} {e[2]}"
    if k == "Z":
        return f"Z {e[2]}"
    if k in "LC":
        return X.proto(e)
    if k == "U":
        return f"U {e[1]} {proto(e[2])}"
    if k == "B":
        return f"B {e[1]} {proto(e[2])} {proto(e[3])}"
    if k == "Q":
        return f"Q {proto(e[1])} {proto(e[2])} {proto(e[3])}"
    if k == "K":
        return f"K {e[1]} {proto(e[2])}"
    raise ValueError(e)


def render_c(e):
    """fully parenthesised C text"""
    k = e[0]
    if k == "V":
        return f"v{e[2]}"
    if k == "Z":
        return f"sizeof({e[1]})"
    if k in "LC":
        return X.render_c(e)
    if k == "U":
        return f"({UNOPS[e[1]]}{render_c(e[2])})"
    if k == "B":
        return f"({render_c(e[2])} {BINOPS[e[1]]} {render_c(e[3])})"
    if k == "Q":
        return f"({render_c(e[1])} ? {render_c(e[2])} : {render_c(e[3])})"
    if k == "K":
        return f"(({CNAME[e[1]]}){render_c(e[2])})"
    raise ValueError(e)


def size(e):
    return 1 + sum(size(x) for x in e[1:] if isinstance(x, tuple))


def nconds(e):
    """number of conditional jumps the expression lowers to (bounds the decision tree)"""
    k = e[0]
    sub = sum(nconds(x) for x in e[1:] if isinstance(x, tuple))
    if k == "B" and e[1] in CMP + LOGIC:
        return sub + 1
    if k == "U" and e[1] == "lnot":
        return sub + 1
    if k == "Q":
        return sub + 1
    return sub


def variables(e, acc=None):
    acc = {} if acc is None else acc
    if e[0] == "V":
        acc[e[2]] = e[1]
    for x in e[1:]:
        if isinstance(x, tuple):
            variables(x, acc)
    return acc


def func_text(name, ret_ty, params, e):
    ps = ", ".join(f"{CNAME[t]} v{i}" for i, t in enumerate(params)) or "void"
    return f"{CNAME[ret_ty]} {name}({ps}) {{ return {render_c(e)}; }}"


# ---------------------------------------------------------------------------------------------
# generation of expressions over variables

def gen_expr(rng, depth, params, ops=None, small=False, sizeof=False):
    """random tree over the variables `params` (list of types); `sizeof` leaves only on request (ppci gives them a
    signed type: open finding)"""
    if depth <= 0 or rng.random() < 0.2:
        r = rng.random()
        if params and r < 0.62:
            i = rng.randrange(len(params))
            return ("V", params[i], i)
        if r < 0.68:
            return ("C", rng.choice([0, 1, 10, 39, 48, 65, 92, 97, 126, 127, 128, 200, 255]))
        if sizeof and r < 0.74:
            t, n = rng.choice(SIZEOF_TYPES)
            return ("Z", t, n)
        lit = X.gen_lit(rng, small=small or rng.random() < 0.5)
        while lit[3] >= 1 << 64:
            lit = X.gen_lit(rng, small=True)
        return lit
    r = rng.random()
    if r < 0.13:
        return ("U", rng.choice(list(UNOPS)), gen_expr(rng, depth - 1, params, ops, small, sizeof))
    if r < 0.30:
        return ("K", rng.choice(TYPES), gen_expr(rng, depth - 1, params, ops, small, sizeof))
    if r < 0.38:
        return ("Q", gen_expr(rng, depth - 1, params, ops, small, sizeof), gen_expr(rng, depth - 1, params, ops, small, sizeof),
                gen_expr(rng, depth - 1, params, ops, small, sizeof))
    op = rng.choice(ops or list(BINOPS))
    a = gen_expr(rng, depth - 1, params, ops, small, sizeof)
    if op in SHIFT and rng.random() < 0.7:
        b = ("L", "d", rng.choice(["n", "n", "u", "l"]), rng.choice([0, 1, 2, 3, 7, 8, 15, 16, 31]))
    elif op in ("div", "mod") and rng.random() < 0.5:
        b = ("L", "d", rng.choice(["n", "n", "u", "l"]), rng.choice([1, 2, 3, 7, 10, 255]))
        if rng.random() < 0.3:
            b = ("U", "neg", b)
    elif op in ("add", "sub", "mul") and rng.random() < 0.35:
        # keep signed arithmetic in range more often: operate in an unsigned or wide type
        a = ("K", rng.choice(["uint", "ulong", "ullong", "llong", "uchar", "ushort"]), a)
        b = gen_expr(rng, depth - 1, params, ops, True, sizeof)
    else:
        b = gen_expr(rng, depth - 1, params, ops, small, sizeof)
    return ("B", op, a, b)


def boundary_values(t):
    lo, hi = tmin(t), tmax(t)
    vs = {0, 1, 2, 3, 7, hi, hi - 1, lo, lo + 1, hi // 2, hi // 2 + 1, 5, 100}
    if t in SIGNED:
        vs |= {-1, -2, -3, -7, -100}
    for k in (7, 8, 15, 16, 31, 32):
        for d in (-1, 0, 1):
            vs.add((1 << k) + d)
            if t in SIGNED:
                vs.add(-(1 << k) + d)
    return sorted(v for v in vs if lo <= v <= hi)


def gen_args(rng, params, n):
    out = []
    for _ in range(n):
        row = []
        for t in params:
            r = rng.random()
            if r < 0.45:
                row.append(rng.choice(boundary_values(t)))
            elif r < 0.75:
                row.append(wrap(t, rng.randint(-20, 20)))
            else:
                row.append(wrap(t, rng.getrandbits(64)))
        out.append(row)
    return out


# ---------------------------------------------------------------------------------------------
# the real front-end: typed AST and emitted function

def quiet():
    logging.disable(logging.CRITICAL)


class Captured:
    def __init__(self):
        self.cu = None
        self.context = None


def compile_capture(src, march="x86_64"):
    """ppci.api.c_to_ir on `src`; also returns the typed compilation unit and the CContext the code generator used
    (observed by wrapping CCodeGenerator.gen_code from outside)."""
    from ppci.api import c_to_ir
    from ppci.lang.c import codegenerator
    quiet()
    cap = Captured()
    orig = codegenerator.CCodeGenerator.gen_code

    def wrapper(self, cu):
        cap.cu = cu
        cap.context = self.context
        return orig(self, cu)
    codegenerator.CCodeGenerator.gen_code = wrapper
    try:
        # the front-end prints "Function does not return a value"-style notes to stdout
        old = sys.stdout
        sys.stdout = io.StringIO()
        try:
            module = c_to_ir(io.StringIO(src), march)
        finally:
            sys.stdout = old
    finally:
        codegenerator.CCodeGenerator.gen_code = orig
    return module, cap


def ast_show(e, context):
    """canonical text of a typed expression (the format of Model.CType.TExpr.show)"""
    from ppci.lang.c.nodes import expressions as E, types as T

    def tag(t):
        if isinstance(t, T.BasicType) and t.type_id in TAG_OF_ID:
            return TAG_OF_ID[t.type_id]
        return "?" + str(t).replace(" ", "_")
    if isinstance(e, E.VariableAccess):
        name = e.variable.declaration.name if hasattr(e.variable, "declaration") else e.name
        return f"(var {tag(e.typ)} {name[1:] if name.startswith('v') else name})"
    if isinstance(e, E.CharLiteral):
        return f"(chr {tag(e.typ)} {e.value})"
    if isinstance(e, E.NumericLiteral):
        return f"(num {tag(e.typ)} {e.value})"
    if isinstance(e, E.Sizeof):
        st = e.sizeof_typ if isinstance(e.sizeof_typ, T.CType) else e.sizeof_typ.typ
        return f"(sizeof {tag(e.typ)} {context.sizeof(st)})"
    if isinstance(e, E.ImplicitCast):
        return f"(icast {tag(e.typ)} {ast_show(e.expr, context)})"
    if isinstance(e, E.Cast):
        return f"(cast {tag(e.typ)} {ast_show(e.expr, context)})"
    if isinstance(e, E.UnaryOperator):
        return f"(un {e.op} {tag(e.typ)} {ast_show(e.a, context)})"
    if isinstance(e, E.BinaryOperator):
        return f"(bin {e.op} {tag(e.typ)} {ast_show(e.a, context)} {ast_show(e.b, context)})"
    if isinstance(e, E.TernaryOperator):
        return f"(tern {tag(e.typ)} {ast_show(e.a, context)} {ast_show(e.b, context)} {ast_show(e.c, context)})"
    return f"(other {type(e).__name__})"


def returned_expressions(cu):
    """{function name: the expression of its single `return` statement}"""
    from ppci.lang.c.nodes import declarations as D, statements as S
    out = {}
    for d in cu.declarations:
        if isinstance(d, D.FunctionDeclaration) and d.body is not None:
            body = d.body
            stmts = body.statements if isinstance(body, S.Compound) else [body]
            for s in stmts:
                if isinstance(s, S.Return):
                    out[d.name] = s.value
    return out


class TreeTooBig(Exception):
    pass


def decision_tree(f, limit=3000):
    """the decision tree of an ir function: follow the control flow from the entry block, resolve phis along the
    path, build jump-free instruction trees (the format of Model.CLower.DTree.show).  Parameters that the prologue
    stores to a stack slot are the variables: `load` of such a slot is `(load <ty> <i>)`."""
    from ppci import ir
    params = {p: i for i, p in enumerate(f.arguments)}
    budget = [limit]

    def walk(block, prev, env, mem):
        env = dict(env)
        mem = dict(mem)
        for ins in block:
            if isinstance(ins, ir.Alloc):
                env[ins] = ("alloc", id(ins))
            elif isinstance(ins, ir.AddressOf):
                env[ins] = ("addr", env[ins.src][1] if ins.src in env else id(ins.src))
            elif isinstance(ins, ir.Store):
                a = env.get(ins.address)
                if not (isinstance(a, tuple) and a[0] == "addr"):
                    return "(unsupported store)"
                v = ins.value
                mem[a[1]] = ("param", params[v]) if v in params else ("val", env[v])
            elif isinstance(ins, ir.Load):
                a = env.get(ins.address)
                if not (isinstance(a, tuple) and a[0] == "addr") or a[1] not in mem:
                    return "(unsupported load)"
                m = mem[a[1]]
                env[ins] = f"(load {ins.ty} {m[1]})" if m[0] == "param" else f"(reload {ins.ty} {m[1]})"
            elif isinstance(ins, ir.Const):
                env[ins] = f"(const {ins.ty} {ins.value})"
            elif isinstance(ins, ir.Binop):
                env[ins] = f"(binop {ins.ty} {ins.operation} {env[ins.a]} {env[ins.b]})"
            elif isinstance(ins, ir.Unop):
                env[ins] = f"(unop {ins.ty} {ins.operation} {env[ins.a]})"
            elif isinstance(ins, ir.Cast):
                env[ins] = f"(cast {ins.ty} {env[ins.src]})"
            elif isinstance(ins, ir.Phi):
                env[ins] = env[ins.get_value(prev)]
            elif isinstance(ins, ir.Jump):
                return walk(ins.target, block, env, mem)
            elif isinstance(ins, ir.CJump):
                budget[0] -= 1
                if budget[0] < 0:
                    raise TreeTooBig()
                y = walk(ins.lab_yes, block, env, mem)
                n = walk(ins.lab_no, block, env, mem)
                return f"(br {env[ins.a]} {ins.cond} {env[ins.b]} {y} {n})"
            elif isinstance(ins, ir.Return):
                return f"(ret {env[ins.result]})"
            else:
                return f"(unsupported {type(ins).__name__})"
        return "(fallthrough)"
    try:
        return walk(f.entry, None, {}, {})
    except TreeTooBig:
        return None


IRT = None


def ir_types():
    global IRT
    if IRT is None:
        from ppci import ir
        IRT = {"char": ir.i8, "schar": ir.i8, "uchar": ir.u8, "short": ir.i16, "ushort": ir.u16, "int": ir.i32,
               "uint": ir.u32, "long": ir.i64, "ulong": ir.u64, "llong": ir.i64, "ullong": ir.u64}
    return IRT


def parse_ret(s):
    """'ret=<v> globals=… trace=…' -> int | the string"""
    if s.startswith("ret="):
        v = s.split(" ", 1)[0][4:]
        try:
            return int(v)
        except ValueError:
            return s
    return s


def run_unit(job):
    """worker: compile one translation unit with the REAL front-end and observe it.
    job = {"src": text, "funcs": [(name, [arg vectors])], "spec_ir": bool, "native": bool, "march": str}
    returns {"status": "ok"|<exception class>, "msg", "funcs": {name: {"ast", "tree", "sig", "vals", "native"}},
             "irtext": S-expression of the module (when spec_ir)}"""
    from . import irgen, irrun, irser
    out = {"status": "ok", "msg": "", "funcs": {}, "irtext": None}
    try:
        module, cap = compile_capture(job["src"], job.get("march", "x86_64"))
    except Exception as e:  # noqa
        out["status"] = X.classify(e)
        out["msg"] = str(getattr(e, "msg", e))[:300]
        return out
    from ppci import ir
    rets = returned_expressions(cap.cu)
    fs = {f.name: f for f in module.functions}
    entries = {}
    for name, _ in job["funcs"]:
        f = fs.get(name)
        if f is None:
            out["funcs"][name] = {"error": "no such function"}
            continue
        res = {}
        res["ast"] = ast_show(rets[name], cap.context) if name in rets else "(no return)"
        try:
            res["tree"] = decision_tree(f)
        except Exception as e:  # noqa
            res["tree"] = f"(walk failed {type(e).__name__}: {e})"
        res["sig"] = [str(a.ty) for a in f.arguments] + [str(f.return_ty) if isinstance(f, ir.Function) else "void"]
        entries[name] = irgen.Entry(name, [a.ty for a in f.arguments], f.return_ty if isinstance(f, ir.Function) else None, True)
        out["funcs"][name] = res
    module.debug_db = None
    gen = irgen.Generated(module, list(entries.values()), [])
    if any(args for _, args in job["funcs"]) and not job.get("no_ir2py"):
        try:
            runner = irrun.Ir2Py(gen)
        except Exception as e:  # noqa
            runner = None
            out["msg"] = f"ir_to_python failed: {type(e).__name__}: {e}"[:300]
        for name, argvs in job["funcs"]:
            if name not in entries:
                continue
            vals = []
            for args in argvs:
                vals.append(parse_ret(runner.run(entries[name], args)) if runner else "ir2py-unavailable")
            out["funcs"][name]["vals"] = vals
    if job.get("native"):
        cases = [(entries[name], args) for name, argvs in job["funcs"] if name in entries for args in argvs]
        try:
            rs = irrun.native_results(gen, cases, timeout=120)
        except Exception as e:  # noqa
            rs = [f"exception {type(e).__name__}"] * len(cases)
        k = 0
        for name, argvs in job["funcs"]:
            if name not in entries:
                continue
            out["funcs"][name]["native"] = [parse_ret(r) for r in rs[k:k + len(argvs)]]
            k += len(argvs)
    if job.get("spec_ir"):
        try:
            out["irtext"] = irser.serialize(module)
        except Exception as e:  # noqa
            out["irtext"] = None
            out["msg"] += f" irser failed: {type(e).__name__}: {e}"[:200]
    return out


def run_units(jobs, workers=None):
    """run jobs in a small process pool (<= 4 workers: the machine is shared)"""
    import multiprocessing
    import multiprocessing.pool  # noqa: F401
    workers = workers or int(os.environ.get("C01_WORKERS", "4"))
    workers = max(1, min(workers, len(jobs)))
    if workers == 1:
        return [run_any(j) for j in jobs]
    pool = NestablePool(workers)
    try:
        out = pool.map(run_any, jobs, chunksize=1)
        pool.close()
        pool.join()
        return out
    finally:
        pool.terminate()


class _NoDaemonProcess(__import__("multiprocessing").context.ForkProcess):
    """pool workers that may fork a child themselves (the native x86-64 runs execute generated machine code in a
    forked grandchild so that a crash cannot take the worker down)"""
    @property
    def daemon(self):
        return False

    @daemon.setter
    def daemon(self, value):
        pass


class _NoDaemonContext(type(__import__("multiprocessing").get_context("fork"))):
    Process = _NoDaemonProcess


class NestablePool(__import__("multiprocessing").pool.Pool):
    def __init__(self, *args, **kwargs):
        kwargs["context"] = _NoDaemonContext()
        super().__init__(*args, **kwargs)


def run_any(job):
    if job.get("kind") == "layout":
        return run_layout_unit(job)
    if job.get("kind") == "stmt":
        from . import c01_stmt
        return c01_stmt.run_ppci(job["src"], job["names"], job["ks"])
    if job.get("kind") == "const":
        from . import c01_const
        return c01_const.run_ppci(job)
    if job.get("kind") == "flow":
        from . import c01_flow
        return c01_flow.run_ppci(job)
    if job.get("kind") == "events":
        from . import c01_stmt
        return c01_stmt.run_events(job)
    return run_unit(job)


# ---------------------------------------------------------------------------------------------
# object types (layout)
# lty := ("P", prim) | ("A", n, lty) | ("S", [lty]) | ("N", [lty])

PRIMS = ["char", "uchar", "short", "ushort", "int", "uint", "long", "ulong", "llong", "ullong", "float", "double", "ptr"]
PRIM_C = {"char": "char", "uchar": "unsigned char", "short": "short", "ushort": "unsigned short", "int": "int",
          "uint": "unsigned int", "long": "long", "ulong": "unsigned long", "llong": "long long",
          "ullong": "unsigned long long", "float": "float", "double": "double", "ptr": "int *"}


def lty_proto(t):
    k = t[0]
    if k == "P":
        return f"P {t[1]}"
    if k == "A":
        return f"A {t[1]} {lty_proto(t[2])}"
    return f"{k} {len(t[1])} " + " ".join(lty_proto(x) for x in t[1]) if t[1] else f"{k} 0"


def gen_lty(rng, depth, top=True):
    r = rng.random()
    if depth <= 0 or (not top and r < 0.45):
        return ("P", rng.choice(PRIMS))
    if not top and r < 0.60:
        return ("A", rng.choice([1, 2, 3, 5, 7]), gen_lty(rng, depth - 1, False))
    k = "N" if rng.random() < 0.25 else "S"
    n = rng.choice([1, 2, 2, 3, 3, 4, 5, 6])
    return (k, [gen_lty(rng, depth - 1, False) for _ in range(n)])


class Namer:
    def __init__(self, prefix):
        self.prefix = prefix
        self.n = 0
        self.decls = []

    def declare(self, t):
        """returns the C type specifier text usable in a declaration `<spec> name<suffix>` as (spec, suffix)"""
        k = t[0]
        if k == "P":
            if t[1] == "ptr":
                return "int *", ""
            return PRIM_C[t[1]], ""
        if k == "A":
            spec, suf = self.declare(t[2])
            return spec, f"[{t[1]}]" + suf
        name = f"{self.prefix}{self.n}"
        self.n += 1
        fields = []
        for i, ft in enumerate(t[1]):
            spec, suf = self.declare(ft)
            fields.append(f"{spec} f{i}{suf};")
        kw = "struct" if k == "S" else "union"
        self.decls.append(f"{kw} {name} {{ {' '.join(fields)} }};")
        return f"{kw} {name}", ""


def layout_source(types, prefix="T", with_inits=False):
    """C text declaring every type of `types` (struct/union at top level) and a global object of it;
    with_inits: also returns the text of initialised objects gi<i> for the types made of integer scalars only"""
    nm = Namer(prefix)
    tops = []
    for i, t in enumerate(types):
        spec, suf = nm.declare(t)
        tops.append((spec, suf))
    lines = list(nm.decls)
    inits = []
    for i, (spec, suf) in enumerate(tops):
        lines.append(f"{spec} g{i}{suf};")
        if with_inits and int_only(types[i]):
            inits.append(f"{spec} gi{i}{suf} = {init_text(types[i], [0])};")
    if with_inits:
        return "\n".join(lines) + "\n", tops, "\n".join(inits) + "\n"
    return "\n".join(lines) + "\n", tops


INT_PRIM_SIZE = {"char": 1, "uchar": 1, "short": 2, "ushort": 2, "int": 4, "uint": 4, "long": 8, "ulong": 8, "llong": 8, "ullong": 8}


def int_only(t):
    k = t[0]
    if k == "P":
        return t[1] in INT_PRIM_SIZE
    if k == "A":
        return int_only(t[2])
    return bool(t[1]) and all(int_only(x) for x in t[1])


def init_text(t, counter):
    """brace initialiser giving every scalar (first member of a union) the next value 1, 2, 3, …"""
    k = t[0]
    if k == "P":
        counter[0] += 1
        return str(counter[0] % 120 + 1)
    if k == "A":
        return "{" + ", ".join(init_text(t[2], counter) for _ in range(t[1])) + "}"
    if k == "S":
        return "{" + ", ".join(init_text(x, counter) for x in t[1]) + "}"
    return "{" + init_text(t[1][0], counter) + "}"


def subtypes(t, acc):
    acc[lty_proto(t)] = t
    if t[0] == "A":
        subtypes(t[2], acc)
    elif t[0] in "SN":
        for x in t[1]:
            subtypes(x, acc)
    return acc


def expected_image(t, info):
    """memory image of the object initialised by init_text, from the SPECIFICATION's sizes and offsets
    (info: proto -> (size, align, [offsets])): scalars little-endian at their offsets, padding zero"""
    size = info[lty_proto(t)][0]
    img = bytearray(size)
    counter = [0]

    def place(t, off):
        k = t[0]
        if k == "P":
            counter[0] += 1
            n = INT_PRIM_SIZE[t[1]]
            img[off:off + n] = (counter[0] % 120 + 1).to_bytes(n, "little")
        elif k == "A":
            es = info[lty_proto(t[2])][0]
            for i in range(t[1]):
                place(t[2], off + i * es)
        elif k == "S":
            offs = info[lty_proto(t)][2]
            for x, o in zip(t[1], offs):
                place(x, off + o)
        else:
            place(t[1][0], off)
    place(t, 0)
    return bytes(img)


def run_layout_unit(job):
    """worker: compile the declarations with the REAL front-end; for every global g<i> report
    (CContext.sizeof, CContext.alignment, [offsetof fields], ir.Variable amount, ir.Variable alignment, sizeof-expression constant)"""
    from ppci.lang.c.nodes import declarations as D
    src = job["src"]
    n = job["n"]
    extra = "".join(f"unsigned long s{i}(void) {{ return sizeof(g{i}); }}\n" for i in range(n)) + job.get("inits", "")
    out = {"status": "ok", "msg": "", "rows": []}
    try:
        module, cap = compile_capture(src + extra, job.get("march", "x86_64"))
    except Exception as e:  # noqa
        out["status"] = X.classify(e)
        out["msg"] = str(getattr(e, "msg", e))[:300]
        return out
    from ppci import ir
    ctx = cap.context
    decls = {d.name: d for d in cap.cu.declarations if isinstance(d, D.VariableDeclaration)}
    ivars = {v.name: v for v in module.variables}
    fs = {f.name: f for f in module.functions}
    for i in range(n):
        d = decls[f"g{i}"]
        typ = d.typ
        try:
            size = ctx.sizeof(typ)
            align = ctx.alignment(typ)
            offs = [ctx.offsetof(typ, f) for f in typ.fields] if typ.is_struct_or_union else []
        except Exception as e:  # noqa
            out["rows"].append({"error": f"{type(e).__name__}: {e}"[:200]})
            continue
        v = ivars.get(f"g{i}")
        konst = None
        for b in fs[f"s{i}"].blocks:
            for ins in b:
                if isinstance(ins, ir.Const):
                    konst = ins.value
        image = None
        vi = ivars.get(f"gi{i}")
        if vi is not None and vi.value is not None:
            image = b""
            for part in vi.value:
                if not isinstance(part, (bytes, bytearray)):
                    image = None
                    break
                image += bytes(part)
        out["rows"].append({"size": size, "align": align, "offsets": offs, "var_amount": v.amount if v else None,
                            "var_align": v.alignment if v else None, "sizeof_const": konst,
                            "image": None if image is None else image.hex()})
    return out


def gcc_layout(types, workdir="/tmp"):
    """[(size, align, [offsets])] from gcc for the given types (validation of Spec.CLayout)"""
    src, tops = layout_source(types, prefix="T")
    lines = ["#include <stdio.h>", "#include <stddef.h>", src, "int main(void) {"]
    for i, t in enumerate(types):
        spec, suf = tops[i]
        lines.append(f'printf("%lu %lu", (unsigned long)sizeof(g{i}), (unsigned long)_Alignof(__typeof__(g{i})));')
        if t[0] in "SN":
            for j in range(len(t[1])):
                lines.append(f'printf(" %lu", (unsigned long)offsetof({spec}, f{j}));')
        lines.append('printf("\\n");')
    lines.append("return 0; }")
    d = tempfile.mkdtemp(prefix="c01gcc", dir=workdir)
    try:
        p = os.path.join(d, "t.c")
        with open(p, "w") as f:
            f.write("\n".join(lines) + "\n")
        r = subprocess.run(["gcc", "-std=gnu11", "-w", "-O0", "-o", os.path.join(d, "t"), p], capture_output=True, text=True)
        if r.returncode != 0:
            return None, r.stderr[-1000:]
        q = subprocess.run([os.path.join(d, "t")], capture_output=True, text=True, timeout=60)
        rows = []
        for line in q.stdout.splitlines():
            xs = [int(x) for x in line.split()]
            rows.append((xs[0], xs[1], xs[2:]))
        return rows, ""
    finally:
        for fn in os.listdir(d):
            os.unlink(os.path.join(d, fn))
        os.rmdir(d)


GENERIC = ", ".join(f'{CNAME[t]}: "{t}"' for t in TYPES)


def gcc_values(cases, sanitize=True, workdir="/tmp"):
    """cases: [(ret_ty, params, tree, [arg vectors])].  One gcc program (-fsanitize=undefined) printing for each case the
    type name of the expression (_Generic) and, per argument vector, the value or `UB` when the sanitizer reported a
    runtime error while evaluating it.  Returns [(typename, [value|'UB'])] or (None, stderr)."""
    lines = ["#include <stdio.h>", f"#define TYPENAME(e) _Generic((e), {GENERIC}, default: \"other\")"]
    body = []
    for i, (rt, params, e, argvs) in enumerate(cases):
        ps = ", ".join(f"{CNAME[t]} v{j}" for j, t in enumerate(params)) or "void"
        c = render_c(e)
        lines.append(f"static const char *ty{i}({ps}) {{ return TYPENAME({c}); }}")
        lines.append(f"static long long f{i}({ps}) {{ return (long long)({c}); }}")
        zeros = ", ".join("0" for _ in params)
        body.append(f'printf("T %d %s\\n", {i}, ty{i}({zeros}));')
        for k, args in enumerate(argvs):
            def lit(t, v):
                if v == -(1 << 63):
                    return "(-9223372036854775807ll - 1)"
                return f"({v}ull)" if v > (1 << 63) - 1 else f"({v}ll)"
            a = ", ".join(f"({CNAME[t]}){lit(t, v)}" for t, v in zip(params, args))
            body.append(f'fflush(stdout); fprintf(stderr, "@ {i} {k}\\n"); printf("V {i} {k} %lld\\n", f{i}({a}));')
    lines.append("int main(void) {")
    lines += body
    lines.append("return 0; }")
    d = tempfile.mkdtemp(prefix="c01gcc", dir=workdir)
    try:
        p = os.path.join(d, "t.c")
        with open(p, "w") as f:
            f.write("\n".join(lines) + "\n")
        flags = ["-fsanitize=undefined"] if sanitize else []
        r = subprocess.run(["gcc", "-std=gnu11", "-w", "-O0", *flags, "-o", os.path.join(d, "t"), p],
                           capture_output=True, text=True)
        if r.returncode != 0:
            return None, r.stderr[-1500:]
        q = subprocess.run([os.path.join(d, "t")], capture_output=True, text=True, timeout=300)
        ub = set()
        cur = None
        for line in q.stderr.splitlines():
            if line.startswith("@ "):
                cur = tuple(int(x) for x in line.split()[1:3])
            elif "runtime error" in line and cur is not None:
                ub.add(cur)
        types = {}
        vals = {}
        for line in q.stdout.splitlines():
            w = line.split()
            if w[0] == "T":
                types[int(w[1])] = w[2]
            elif w[0] == "V":
                vals[(int(w[1]), int(w[2]))] = int(w[3])
        out = []
        for i, (rt, params, e, argvs) in enumerate(cases):
            out.append((types.get(i), ["UB" if (i, k) in ub else vals.get((i, k)) for k in range(len(argvs))]))
        return out, ""
    finally:
        for fn in os.listdir(d):
            os.unlink(os.path.join(d, fn))
        os.rmdir(d)


# ---------------------------------------------------------------------------------------------
# statement-level programs (failing-input search only: nothing is proved about them)

class ProgGen:
    """random C functions with loops, if/else, switch, local arrays, a struct, pointers to locals, calls and a
    global array.  Undefined behaviour is avoided by construction: arithmetic on unsigned types (or on values
    masked small before signed use), divisors `| 1`, shift counts `& 15`, indices `% N`, bounded loops."""

    UT = ["unsigned int", "unsigned long", "unsigned char", "unsigned short"]

    def __init__(self, rng):
        self.rng = rng
        self.lines = []
        self.nfun = 0

    def expr(self, vars_, depth):
        r = self.rng
        if depth <= 0 or r.random() < 0.25:
            x = r.random()
            if vars_ and x < 0.7:
                return r.choice(vars_)
            return str(r.choice([0, 1, 2, 3, 5, 7, 10, 100, 255, 256, 65535, 1000003])) + "u"
        op = r.choice(["+", "-", "*", "&", "|", "^", "/", "%", "<<", ">>", "<", ">", "==", "!=", "?", "!", "~", "c", "&&", "||", "-s"])
        a = self.expr(vars_, depth - 1)
        b = self.expr(vars_, depth - 1)
        if op in ("/", "%"):
            return f"({a} {op} ({b} | 1u))"
        if op in ("<<", ">>"):
            return f"({a} {op} ({b} & 15u))"
        if op == "?":
            return f"({a} ? {b} : {self.expr(vars_, depth - 1)})"
        if op == "!":
            return f"(!{a})"
        if op == "~":
            return f"(~{a})"
        if op == "c":
            return f"(({r.choice(['unsigned char', 'unsigned short', 'int', 'unsigned int', 'long', 'signed char', 'short'])}){a})"
        if op == "-s":
            # signed comparison of small values
            return f"(((int)({a} & 1023u) - 512) < ((int)({b} & 1023u) - 512))"
        return f"({a} {op} {b})"

    def block(self, wr, depth, ind, loop_ok=True, ro=()):
        """wr: assignable variables; ro: read-only ones (loop counters)"""
        vars_ = list(wr) + list(ro)
        r = self.rng
        out = []
        for _ in range(r.randint(1, 4)):
            k = r.random()
            v = r.choice(wr)
            if k < 0.30 or depth <= 0:
                op = r.choice(["=", "+=", "-=", "*=", "^=", "|=", "&=", "="])
                out.append(f"{ind}{v} {op} {self.expr(vars_, 2)};")
            elif k < 0.36:
                out.append(f"{ind}{v}{r.choice(['++', '--'])};")
            elif k < 0.52:
                out.append(f"{ind}if ({self.expr(vars_, 2)}) {{")
                out += self.block(wr, depth - 1, ind + "  ", loop_ok, ro)
                if r.random() < 0.6:
                    out.append(f"{ind}}} else {{")
                    out += self.block(wr, depth - 1, ind + "  ", loop_ok, ro)
                out.append(f"{ind}}}")
            elif k < 0.64 and loop_ok:
                n = r.randint(1, 6)
                c = f"i{len(ind)}"
                kind = r.random()
                if kind < 0.5:
                    out.append(f"{ind}for ({c} = 0; {c} < {n}; {c}++) {{")
                    out += self.block(wr, depth - 1, ind + "  ", loop_ok, tuple(ro) + (c,))
                    if r.random() < 0.3:
                        out.append(f"{ind}  if ({self.expr(vars_ + [c], 1)}) {r.choice(['break', 'continue'])};")
                    out.append(f"{ind}}}")
                elif kind < 0.8:
                    out.append(f"{ind}{c} = {n};")
                    out.append(f"{ind}while ({c} > 0) {{")
                    out.append(f"{ind}  {c}--;")
                    out += self.block(wr, depth - 1, ind + "  ", loop_ok, tuple(ro) + (c,))
                    out.append(f"{ind}}}")
                else:
                    out.append(f"{ind}{c} = 0;")
                    out.append(f"{ind}do {{")
                    out += self.block(wr, depth - 1, ind + "  ", loop_ok, tuple(ro) + (c,))
                    out.append(f"{ind}  {c}++;")
                    out.append(f"{ind}}} while ({c} < {n});")
            elif k < 0.74:
                out.append(f"{ind}switch ({self.expr(vars_, 1)} & 3u) {{")
                for cs in r.sample([0, 1, 2, 3], r.randint(1, 3)):
                    out.append(f"{ind}case {cs}:")
                    out += self.block(wr, 0, ind + "  ", False, ro)
                    if r.random() < 0.75:
                        out.append(f"{ind}  break;")
                if r.random() < 0.6:
                    out.append(f"{ind}default:")
                    out += self.block(wr, 0, ind + "  ", False, ro)
                out.append(f"{ind}}}")
            elif k < 0.82:
                out.append(f"{ind}arr[{self.expr(vars_, 1)} % 5u] = {self.expr(vars_, 2)};")
                out.append(f"{ind}{v} ^= arr[{self.expr(vars_, 1)} % 5u];")
            elif k < 0.88:
                out.append(f"{ind}st.a = {self.expr(vars_, 1)}; st.b = (unsigned char){self.expr(vars_, 1)}; {v} += st.a + st.b;")
            elif k < 0.93:
                out.append(f"{ind}p = &{r.choice([x for x in wr if x in ('x', 'y')] or ['x'])}; *p = *p + {self.expr(vars_, 1)};")
            elif k < 0.97 and self.nfun > 0:
                out.append(f"{ind}{v} += h{r.randrange(self.nfun)}({self.expr(vars_, 1)}, {self.expr(vars_, 1)});")
            else:
                out.append(f"{ind}g[{self.expr(vars_, 1)} % 4u] += {self.expr(vars_, 1)};")
        return out

    def helper(self):
        r = self.rng
        name = f"h{self.nfun}"
        body = [f"static unsigned int {name}(unsigned int x, unsigned int y) {{", "  unsigned int z = 1u;",
                "  unsigned int *p;", "  unsigned int arr[5] = {1u, 2u, 3u, 4u, 5u};",
                "  struct { unsigned int a; unsigned char b; } st;", "  int i2, i4, i6;", "  st.a = 0; st.b = 0; p = &z; i2 = i4 = i6 = 0;"]
        body += self.block(["x", "y", "z"], 1, "  ")
        body.append(f"  return {self.expr(['x', 'y', 'z'], 2)};")
        body.append("}")
        self.nfun += 1
        return body

    def function(self, name):
        r = self.rng
        pts = [r.choice(self.UT + ["int", "long", "signed char", "short"]) for _ in range(r.randint(1, 4))]
        ps = ", ".join(f"{t} a{i}" for i, t in enumerate(pts))
        body = [f"unsigned long {name}({ps}) {{"]
        body.append("  unsigned int x = 3u, y = 5u; unsigned long z = 7u;")
        body.append("  unsigned int *p; unsigned int arr[5] = {1u, 2u, 3u, 4u, 5u};")
        body.append("  struct { unsigned int a; unsigned char b; } st;")
        body.append("  int i2, i4, i6;")
        body.append("  st.a = 0; st.b = 0; p = &x; i2 = i4 = i6 = 0;")
        for i, t in enumerate(pts):
            body.append(f"  {r.choice(['x', 'y', 'z'])} += (unsigned int)a{i};")
        vars_ = ["x", "y", "z"] + [f"a{i}" for i, t in enumerate(pts) if t.startswith("unsigned")]
        body += self.block(vars_, 2, "  ")
        body.append(f"  return {self.expr(vars_, 2)} + x + y + z + arr[0] + arr[4] + st.a;")
        body.append("}")
        return body, pts


PARAM_TAG = {"unsigned int": "uint", "unsigned long": "ulong", "unsigned char": "uchar", "unsigned short": "ushort",
             "int": "int", "long": "long", "signed char": "schar", "short": "short"}


def gen_programs(rng, n):
    """-> (source text of the functions, [(name, [param types], [arg vectors])])"""
    g = ProgGen(rng)
    lines = ["unsigned int g[4];"]
    for _ in range(3):
        lines += g.helper()
    funcs = []
    for i in range(n):
        body, pts = g.function(f"f{i}")
        lines += body
        funcs.append((f"f{i}", pts))
    return "\n".join(lines) + "\n", funcs


def run_programs_ppci(src, funcs, argvs):
    """the real front-end + ir_to_python: {name: [(ret, g bytes hex) | error string]}"""
    from . import irgen, irrun
    from ppci import ir
    try:
        module, cap = compile_capture(src)
    except Exception as e:  # noqa
        return {"error": X.classify(e) + ": " + str(getattr(e, "msg", e))[:300]}
    module.debug_db = None
    fs = {f.name: f for f in module.functions}
    entries = {name: irgen.Entry(name, [a.ty for a in fs[name].arguments], fs[name].return_ty, True) for name, _ in funcs}
    gen = irgen.Generated(module, list(entries.values()), [])
    try:
        runner = irrun.Ir2Py(gen)
    except Exception as e:  # noqa
        return {"error": f"ir_to_python: {type(e).__name__}: {e}"[:300]}
    out = {}
    for name, pts in funcs:
        rows = []
        for args in argvs[name]:
            s = runner.run(entries[name], args)
            rows.append(s)
        out[name] = rows
    return out


def run_programs_gcc(src, funcs, argvs, sanitize=True, workdir="/tmp"):
    """{name: ['ret=<v> g=<hex>' | 'UB']} from gcc"""
    lines = ["#include <stdio.h>", "#include <string.h>", src]
    lines.append("static void show(unsigned long r) { const unsigned char *c = (const unsigned char *)g; int i; "
                 "printf(\"ret=%lu g=\", r); for (i = 0; i < (int)sizeof g; i++) printf(\"%02x\", c[i]); printf(\"\\n\"); }")
    lines.append("int main(void) {")
    for name, pts in funcs:
        for k, args in enumerate(argvs[name]):
            a = ", ".join(f"({t}){v}{'ull' if v >= 0 else 'll'}" for t, v in zip(pts, args))
            lines.append(f"  memset(g, 0, sizeof g); fflush(stdout); fprintf(stderr, \"@ {name} {k}\\n\"); printf(\"{name} {k} \"); show({name}({a}));")
    lines.append("  return 0; }")
    d = tempfile.mkdtemp(prefix="c01prog", dir=workdir)
    try:
        p = os.path.join(d, "t.c")
        with open(p, "w") as f:
            f.write("\n".join(lines) + "\n")
        flags = ["-fsanitize=undefined"] if sanitize else []
        r = subprocess.run(["gcc", "-std=gnu11", "-w", "-O0", *flags, "-o", os.path.join(d, "t"), p], capture_output=True, text=True)
        if r.returncode != 0:
            return None, r.stderr[-1500:]
        q = subprocess.run([os.path.join(d, "t")], capture_output=True, text=True, timeout=300)
        ub, cur = set(), None
        for line in q.stderr.splitlines():
            if line.startswith("@ "):
                w = line.split()
                cur = (w[1], int(w[2]))
            elif "runtime error" in line and cur is not None:
                ub.add(cur)
        out = {name: [None] * len(argvs[name]) for name, _ in funcs}
        for line in q.stdout.splitlines():
            w = line.split(" ", 2)
            if len(w) == 3 and w[0] in out:
                out[w[0]][int(w[1])] = "UB" if (w[0], int(w[1])) in ub else w[2]
        return out, ""
    finally:
        for fn in os.listdir(d):
            os.unlink(os.path.join(d, fn))
        os.rmdir(d)
