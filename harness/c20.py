"""C20 LEB128: translation tie (T1: Gen.Py_leb128 is regenerated from ppci/utils/leb128.py on every run and
proved equal to Model.Leb128), correspondence of Model.Leb128 with the real functions, and
evaluation of the property on the real functions (oracle: Spec.Leb through the driver)."""
PROP = "C20"
LEAN_PROPS = "PpciVerif/Props/C20.lean"
LEAN_TARGETS = ["PpciVerif.Props.C20", "Drivers.C20"]
LEVEL = "proof"
LEVEL_TEXT = ("Lean theorems, for ALL integers and all byte strings: both encoders emit the unique shortest well-formed LEB128 string "
              "denoting the value (Spec.Leb.UCanonical/SCanonical), the unsigned encoder rejects every negative, both decoders return "
              "the denoted value of every well-formed encoding and stop right after it; hence decode(encode x)=x. Termination of the "
              "loops is part of the definitions (well-founded recursion). Tie = translation + correspondence: the four functions are "
              "translated from the source text of the checked tree to Lean (Gen.Py_leb128, fuel-indexed loops) on every run; the theorems "
              "gen_*_eq_model prove, for every input and every fuel above |value|+1 / len(data)+1, that the regenerated functions equal the hand "
              "model (FuelExhausted never returned = termination), and gen_*_canonical / gen_*_denotes / gen_*_roundtrip restate the property "
              "about the regenerated functions; the hand model is additionally run differentially against the real functions on every check.")
LEVEL_NOTE = ("trusted: Lean kernel; axioms propext/Classical.choice/Quot.sound; the T1 translator translate/py2lean.py and its stated reading "
              "of the Python fragment (translate/SEMANTICS.md: unbounded ints, floor >>, two's-complement & |, bytes() range check, next() on an "
              "iterator), cross-checked on every run by the differential run hand model <-> real functions (exhaustive small range, 7k-bit "
              "boundaries to 2^128, random to 512 bits)")
TECHNIQUE = ("Lean 4 proof by functional induction over a hand model; translation (py2lean) of the Python source to Lean on every run with "
             "machine-checked equality regenerated definition = hand model; + differential correspondence with the Python functions")
RULE = ("integers: [-2^16,2^16] exhaustive (thorough; quick: [-2^11,2^11]), 7k-bit boundaries ±2 up to 2^128 both signs, "
        "random 1..512-bit; byte strings: encodings with junk suffixes, non-canonical paddings, truncations. "
        "distinct = distinct (op,input); non-trivial = multi-byte encoding or error outcome")
TRUSTED = [
    "translate/py2lean.py (T1 translator; reading of the Python fragment in translate/SEMANTICS.md) + runtime Model.PyRt/Model.PyInt: "
    "Gen.Py_leb128 is its output for ppci/utils/leb128.py of the checked tree",
    "hand model Model.Leb128 (Int %//128 for &0x7F/>>7): proved equal to Gen.Py_leb128 (gen_*_eq_model) and run differentially against the real functions",
    "Spec.Leb (denotational LEB128 semantics written from DWARF/wasm text)",
]
ASSUMPTIONS = ["bytes() of a list of ints in 0..255 is the identity on the list", "iterator protocol: next() raises StopIteration at end"]


def regen(ctx):
    """T1: translate ppci/utils/leb128.py of the checked tree into Gen/Py_leb128.lean"""
    from . import t1
    t1.regen(ctx, "leb128")


def ints(ctx):
    n = 1 << 16 if ctx.thorough else 1 << 11
    xs = list(range(-n, n + 1))
    for k in range(1, 19):
        for d in (-2, -1, 0, 1, 2):
            xs += [(1 << (7 * k)) + d, -(1 << (7 * k)) + d, (1 << (7 * k - 1)) + d, -(1 << (7 * k - 1)) + d]
    for _ in range(4000 if ctx.thorough else 400):
        b = ctx.rng.randint(1, 512)
        v = ctx.rng.getrandbits(b)
        xs += [v, -v]
    return xs


def hexs(bs):
    return bytes(bs).hex() if bs else "-"


def call(f, *a):
    try:
        return ("ok", f(*a))
    except Exception as e:  # noqa
        return ("err", type(e).__name__)


def dec(f, bs):
    it = iter(bytes(bs))
    try:
        v = f(it)
    except Exception as e:  # noqa
        return "err " + type(e).__name__
    return f"ok {v} {len(list(it))}"


def check(ctx):
    from ppci.utils import leb128 as L
    xs = ints(ctx)
    reqs, impl, meta = [], [], []
    enc_s, enc_u = {}, {}
    for x in xs:
        r = call(L.signed_leb128_encode, x)
        enc_s[x] = r
        reqs.append(f"senc {x}"); impl.append("ok " + hexs(r[1]) if r[0] == "ok" else "err " + r[1]); meta.append(("senc", x))
        r = call(L.unsigned_leb128_encode, x)
        enc_u[x] = r
        reqs.append(f"uenc {x}"); impl.append("ok " + hexs(r[1]) if r[0] == "ok" else "err " + r[1]); meta.append(("uenc", x))
    # decoder inputs: real encodings (+ suffix), padded non-canonical forms, truncations, random bytes
    dins = []
    for x in xs[:: 7 if ctx.thorough else 3]:
        for (tag, r) in (("s", enc_s[x]), ("u", enc_u[x])):
            if r[0] != "ok":
                continue
            b = list(r[1])
            dins.append((tag, b))
            dins.append((tag, b + [ctx.rng.randrange(256) for _ in range(ctx.rng.randint(0, 3))]))
            pad = b[:-1] + [b[-1] | 0x80] + ([0x80] * ctx.rng.randint(0, 2)) + [0x00 if (tag == "u" or not b[-1] & 0x40) else 0x7F]
            dins.append((tag, pad))
            dins.append((tag, b[:-1]))
    for _ in range(300):
        dins.append((ctx.rng.choice("su"), [ctx.rng.randrange(256) for _ in range(ctx.rng.randint(0, 6))]))
    for tag, b in dins:
        f = L.signed_leb128_decode if tag == "s" else L.unsigned_leb128_decode
        reqs.append(f"{tag}dec {hexs(b)}"); impl.append(dec(f, b)); meta.append((tag + "dec", hexs(b)))
    # specification values for the property evaluation
    spec_reqs = []
    for x in xs:
        if enc_s[x][0] == "ok":
            spec_reqs.append(f"sval {hexs(enc_s[x][1])}")
        if enc_u[x][0] == "ok":
            spec_reqs.append(f"uval {hexs(enc_u[x][1])}")
    out = ctx.driver("C20", reqs + spec_reqs)
    model, spec = out[: len(reqs)], out[len(reqs):]
    for rq, i, m, mt in zip(reqs, impl, model, meta):
        ctx.count("eval_" + mt[0])
        ctx.nontrivial(rq) if (i.startswith("err") or len(i) > 6) else None
        if i != m:
            ctx.disagree(mt[0], rq, i, m)
    ctx.sample({"request": reqs[len(xs)], "impl": impl[len(xs)], "model": model[len(xs)]})
    ctx.sample({"request": reqs[-1], "impl": impl[-1], "model": model[-1]})
    # ---- the property on the real code -------------------------------------------------
    k = 0
    for x in xs:
        r = enc_s[x]
        if r[0] != "ok":
            ctx.fail("signed_encode:raises", f"signed_leb128_encode({x}) raised {r[1]}", x)
        else:
            b = r[1]
            v = spec[k]; k += 1
            if v != f"ok {x}":
                ctx.fail("signed_encode:denotation", f"signed_leb128_encode({x}) = {b.hex()} denotes {v}", x, encoded=b.hex())
            elif len(b) > 1 and (b[-1], b[-2] & 0x40) in ((0x00, 0), (0x7F, 0x40)):
                ctx.fail("signed_encode:not-minimal", f"signed_leb128_encode({x}) = {b.hex()} is not minimal", x, encoded=b.hex())
            d = dec(L.signed_leb128_decode, b)
            if d != f"ok {x} 0":
                ctx.fail("signed:roundtrip", f"decode(encode({x})) -> {d}", x, encoded=b.hex())
        r = enc_u[x]
        if x < 0:
            if r != ("err", "ValueError"):
                ctx.fail("unsigned_encode:accepts-negative", f"unsigned_leb128_encode({x}) -> {r}", x)
        elif r[0] != "ok":
            ctx.fail("unsigned_encode:raises", f"unsigned_leb128_encode({x}) raised {r[1]}", x)
        if r[0] == "ok":
            b = r[1]
            v = spec[k]; k += 1
            if x >= 0:
                if v != f"ok {x}":
                    ctx.fail("unsigned_encode:denotation", f"unsigned_leb128_encode({x}) = {b.hex()} denotes {v}", x, encoded=b.hex())
                elif len(b) > 1 and b[-1] == 0:
                    ctx.fail("unsigned_encode:not-minimal", f"unsigned_leb128_encode({x}) = {b.hex()} is not minimal", x, encoded=b.hex())
                d = dec(L.unsigned_leb128_decode, b)
                if d != f"ok {x} 0":
                    ctx.fail("unsigned:roundtrip", f"decode(encode({x})) -> {d}", x, encoded=b.hex())
    ctx.extra_cov["exhaustive"] = False
    ctx.extra_cov["exhaustive_range"] = f"[-2^{16 if ctx.thorough else 11}, 2^{16 if ctx.thorough else 11}]"


def replay(ctx, rp):
    check(ctx)
