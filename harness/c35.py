"""C35 GDB RSP framing / acknowledgement: correspondence of Model.Rsp with
ppci/binutils/dbg/gdb/rsp.py (RspHandler, decoder, rsp_pack/rsp_unpack; client.py wiring)
over a fake, synchronous transport, and evaluation of the property on the real code
(oracle: Spec.Rsp through the driver).

No thread, socket or sleep is involved: the handler's `_ack_queue` is replaced from the
outside by a queue whose get/put never wait (an expired 0.5 s timeout and "nothing
arrives" are the same event in a single-threaded run)."""
import itertools
import logging
import queue

PROP = "C35"
TITLE = "GDB remote-serial-protocol framing and acknowledgement are reliable"
LEAN_PROPS = "PpciVerif/Props/C35.lean"
LEAN_TARGETS = ["PpciVerif.Props.C35", "Drivers.C35"]
LEVEL = "proof"
LEVEL_TEXT = (
    "PARTIAL. Lean theorems about a sequential hand model of rsp.py (decoder as a byte-fold state machine, RspHandler._process_byte/"
    "decodepkt, rsp_pack/rsp_unpack, sendpkt against a scripted peer), for ALL payloads, ALL chunkings, ALL ack sequences and retry "
    "budgets, no bounds: (1) the receive path is a fold, so every chunking of a byte stream gives the same result; (2) pack p fed from "
    "the idle state yields no message before its last byte and then exactly one, its checksum verifies, '+' is written and exactly p "
    "(escapes restored) is delivered once; (3) a frame is acknowledged iff int(cc,16) equals the mod-256 sum - hence every frame whose "
    "checksum field is two hex digits with the wrong value, or not a number, gets '-' and nothing is delivered (_partial: one-digit "
    "fields with blank/sign such as '+0' are accepted by int(); open finding); (4) for every stream of frames/noise bytes: one reply per "
    "frame, deliveries = accepted frames in order, exactly once; (5) sendpkt: transmissions = 1 + min(nacks before the first '+', retries), "
    "ValueError iff that many nacks >= retries, also with notifications and noise interleaved in the replies, whose good frames are all "
    "delivered once in order. NOT covered (stated, not claimed): real thread interleavings on _ack_queue/_lock between the receiver thread "
    "and senders, the 0.5 s timeouts as time, sockets/TCP transport, bytes >= 0x80, run-length encoding, client.py beyond message routing. "
    "The model is tied to the source by a differential run against the real RspHandler over a fake synchronous transport on every check.")
LEVEL_NOTE = (
    "trusted: Lean kernel; axioms propext/Classical.choice/Quot.sound; hand model <-> source correspondence is enumerated (all payloads "
    "<=4 over {a,$,#,},*,'} with all chunkings, all ack scripts <=12, all 128x128 checksum fields) and sampled, not proved; queue.Queue "
    "single-slot semantics modelled as Option; single-threaded schedule only (threads, timeouts, sockets outside the model)")
TECHNIQUE = ("Lean 4 proof (induction over byte streams / reply scripts of a state-machine model) + differential correspondence with the "
             "real RspHandler over a scripted fake transport")
RULE = ("payloads: all strings of length <=4 (thorough; <=3 quick) over {a,$,#,},*,'} with ALL 2^(n-1) chunkings of their packet, all 128 "
        "single characters; checksum fields: all 128x128 two-character fields on 3 bodies (1 quick) plus one-digit corruptions on every payload; ack "
        "scripts: all sequences over {+,-} of length <=12 (thorough; <=8 quick) x retries {1,2,3,10}; replies with notifications/noise: "
        "all scripts of length <=4 (<=3 quick) over 10 reply templates; receiver streams: all sequences of <=4 (<=3 quick) items from a pool "
        "of 9, every single frame with data of length <=4 (<=3 quick) over {a,},],^C} and a good checksum, + random; random mixed scenarios (stale acks, missing/double acks, retries<=0). distinct = distinct case; non-trivial = "
        "case with an escaped character, more than one chunk, a nack, an interleaved frame, or an error outcome")
TRUSTED = [
    "hand model Model.Rsp of ppci/binutils/dbg/gdb/rsp.py (generator -> explicit state machine, Queue(maxsize=1) -> Option, "
    "exceptions -> absorbing error state), tied by differential run on every check",
    "Spec.Rsp (escaping, checksum, item streams, sender formula) written from the GDB RSP text and the property statement",
    "the fake transport of the harness (send() records the bytes and injects the scripted reply byte by byte, synchronously)",
]
ASSUMPTIONS = [
    "characters are 7-bit (the real code encodes/decodes ascii)",
    "single-threaded schedule: a reply is processed completely inside transport.send before sendpkt looks at the ack queue",
    "queue.Queue(maxsize=1).get/put with an expired timeout behave as the non-blocking get/put (Empty/Full)",
]

ALPHA = "a$#}*'"
SIG_CAP = 3


# --------------------------------------------------------------------------- real code adapters
class NoWaitQueue(queue.Queue):
    def get(self, block=True, timeout=None):
        return super().get(False)

    def put(self, item, block=True, timeout=None):
        return super().put(item, False)


class FakeTransport:
    """send() records; a packet transmission (data starting with '$') gets the next scripted reply."""

    def __init__(self):
        self.sent = []
        self.script = []
        self.on_byte = None

    def send(self, data):
        data = bytes(data)
        self.sent.append(data)
        if data[:1] == b"$":
            reply = self.script.pop(0) if self.script else b""
            for b in reply:
                self.on_byte(bytes([b]))


def hx(b):
    if isinstance(b, str):
        b = b.encode("latin-1")
    b = bytes(b)
    return b.hex() if b else "-"


def unhx(s):
    return b"" if s == "-" else bytes.fromhex(s)


def show_ll(xs):
    return ",".join(hx(x) for x in xs) if xs else "_"


class Impl:
    def __init__(self, R):
        self.tr = FakeTransport()
        self.h = R.RspHandler(self.tr)
        self.h._ack_queue = NoWaitQueue(maxsize=1)
        self.deliv = []
        self.h.on_message = self.deliv.append
        self.err = None

    def inject(self, data):
        if self.err:
            return
        try:
            for b in data:
                self.tr.on_byte(bytes([b]))
        except Exception as e:  # noqa
            self.err = type(e).__name__

    def sendpkt(self, data, retries, replies):
        if self.err:
            return
        self.tr.script = [bytes(r) for r in replies]
        try:
            self.h.sendpkt(data, retries)
        except Exception as e:  # noqa
            self.err = type(e).__name__
        self.tr.script = []

    def ackq(self):
        q = list(self.h._ack_queue.queue)
        return str(ord(q[0])) if q else "none"

    def state(self):
        return f"ok sent={show_ll(self.tr.sent)} deliv={show_ll(self.deliv)} ackq={self.ackq()} err={self.err or 'none'}"


def run_impl(R, acts):
    im = Impl(R)
    for a in acts:
        if a[0] == "i":
            im.inject(a[1])
        else:
            im.sendpkt(a[2], a[1], a[3])
    return im


def acts_line(acts):
    ws = []
    for a in acts:
        if a[0] == "i":
            ws.append("i:" + hx(a[1]))
        else:
            ws.append(f"s:{a[1]}:{hx(a[2])}:" + (";".join(hx(r) for r in a[3]) if a[3] else "_"))
    return "run " + " ".join(ws)


def chunkings(data, mask):
    out, cur = [], [data[0]] if data else []
    for i in range(1, len(data)):
        if mask >> (i - 1) & 1:
            out.append(bytes(cur))
            cur = []
        cur.append(data[i])
    if cur:
        out.append(bytes(cur))
    return out


def call(f, *a):
    try:
        return "ok " + hx(f(*a))
    except Exception as e:  # noqa
        return "err " + type(e).__name__


def item_bytes(it):
    """render an item string (a2b | n7a | f<body>/<cc>) the way the peer would write it"""
    if it[0] in "an":
        return unhx(it[1:])
    body, cc = it[1:].split("/")
    return b"$" + unhx(body) + b"#" + unhx(cc)


def frame_item(R, payload, good=True):
    """item for the packet the real sender produces for `payload` (optionally with a spoiled checksum)"""
    w = R.RspHandler.rsp_pack(payload).encode("ascii")
    body, cc = w[1:-3], w[-2:]
    if not good:
        cc = bytes([cc[0], ord("0") if cc[1] != ord("0") else ord("1")])
    return "f" + hx(body) + "/" + hx(cc)


# --------------------------------------------------------------------------- case generation
def payloads(ctx):
    n = 4 if ctx.thorough else 3
    out = []
    for k in range(n + 1):
        out += ["".join(t) for t in itertools.product(ALPHA, repeat=k)]
    return out


def gen_cases(ctx, R):
    rng = ctx.rng
    cases = []
    P = payloads(ctx)
    # ---- fixed corpus: boundary cases, inputs of the findings (fixed and open) -------------
    cases += [
        {"kind": "send", "data": hx("a"), "retries": 10, "acks": hx("-+")},          # nack must cause a retransmission
        {"kind": "loop", "payload": hx("}"), "chunks": "all"},                         # escapes restored
        {"kind": "loop", "payload": hx("a'"), "chunks": "all"},                        # payload ending in '
        {"kind": "recv", "items": [frame_item(R, "x'"), frame_item(R, "y")]},          # … and the frame after it
        {"kind": "cks", "body": hx(""), "c1": ord("+"), "c2": ord("0")},               # open finding: lax checksum field
        {"kind": "cks", "body": hx("\x05"), "c1": ord(" "), "c2": ord("5")},
        {"kind": "cks", "body": hx("abc"), "c1": ord("2"), "c2": ord("0")},            # plain wrong checksum
        {"kind": "cks", "body": hx("abc"), "c1": ord("2"), "c2": ord("6")},            # good
        {"kind": "send", "data": hx("s"), "retries": 10, "acks": hx("-" * 10 + "+")},  # budget used up exactly
        {"kind": "send", "data": hx("s"), "retries": 10, "acks": hx("-" * 9 + "+")},
        {"kind": "send", "data": hx("s"), "retries": 10, "acks": hx("-" * 12)},
        {"kind": "send", "data": hx("s"), "retries": 1, "acks": hx("-+")},
        {"kind": "send", "data": hx("}$"), "retries": 3, "acks": hx("--")},            # peer stops answering
        {"kind": "scn", "acts": [["i", hx("+")], ["s", 10, hx("a"), []]]},             # stale ack
        {"kind": "scn", "acts": [["i", hx("-")], ["s", 10, hx("a"), [hx("+")]]]},      # stale nack + ack -> Full
        {"kind": "scn", "acts": [["s", 10, hx("a"), [hx("++")]]]},
        {"kind": "scn", "acts": [["s", 0, hx("a"), [hx("-"), hx("-"), hx("+")]]]},     # retries=0 never reaches 0
        {"kind": "scn", "acts": [["i", hx("zz$abc#26hh")], ["i", hx("$abc#20")]]},
        {"kind": "client", "payload": hx("a}b"), "ack": hx("+")},
        {"kind": "client", "payload": hx("S05"), "ack": hx("+")},
    ]
    # ---- function level -------------------------------------------------------------------
    for p in P:
        cases.append({"kind": "fn", "op": "pack", "arg": hx(p)})
    for c in range(128):
        cases.append({"kind": "fn", "op": "pack", "arg": hx(chr(c))})
        cases.append({"kind": "loop", "payload": hx(chr(c) + "q"), "chunks": [0, (1 << 30) - 1]})
    small = [""] + ["".join(t) for k in (1, 2, 3, 4, 5) for t in itertools.product("$#a0", repeat=k)]
    for s in small:
        cases.append({"kind": "fn", "op": "unpack", "arg": hx(s)})
    for a in range(128):
        for b in range(128):
            cases.append({"kind": "int16", "a": a, "b": b})
    for _ in range(600 if ctx.thorough else 150):
        n = rng.randint(0, 14)
        s = "".join(rng.choice("$#+-}*'a0123456789ABCDEFabcdef \x03") for _ in range(n))
        cases.append({"kind": "fn", "op": "dec", "arg": hx(s)})
        cases.append({"kind": "fn", "op": "unpack", "arg": hx("$" + s)})
        cases.append({"kind": "fn", "op": "pack", "arg": hx("".join(chr(rng.randrange(128)) for _ in range(n)))})
    # ---- loopback, every chunking -----------------------------------------------------------
    for p in P:
        cases.append({"kind": "loop", "payload": hx(p), "chunks": "all"})
    for _ in range(200 if ctx.thorough else 40):
        n = rng.randint(5, 40)
        p = "".join(rng.choice(ALPHA + "bc01\x00\x7f\x03\n]") for _ in range(n))
        cases.append({"kind": "loop", "payload": hx(p), "chunks": [rng.getrandbits(64) for _ in range(6)] + [0, (1 << 64) - 1]})
    # ---- checksum field ---------------------------------------------------------------------
    for body in (("", "\x05", "a}]") if ctx.thorough else ("\x05",)):
        for a in range(128):
            for b in range(128):
                cases.append({"kind": "cks", "body": hx(body), "c1": a, "c2": b})
    HEXU = "0123456789ABCDEF"
    for p in P[:: 1 if ctx.thorough else 2]:
        w = R.RspHandler.rsp_pack(p)
        body, c1, c2 = w[1:-3], w[-2], w[-1]
        for d in HEXU:
            cases.append({"kind": "cks", "body": hx(body), "c1": ord(d), "c2": ord(c2)})
            cases.append({"kind": "cks", "body": hx(body), "c1": ord(c1), "c2": ord(d)})
        cases.append({"kind": "cks", "body": hx(body), "c1": ord(c1.lower()), "c2": ord(c2.lower())})
    # ---- sender: every ack script ----------------------------------------------------------------
    L = 12 if ctx.thorough else 8
    for n in range(L + 1):
        for t in itertools.product("+-", repeat=n):
            acks = "".join(t)
            for r in (1, 2, 3, 10):
                if r == 10 and n < L - 2 and not ctx.thorough:
                    continue
                cases.append({"kind": "send", "data": hx("}a"), "retries": r, "acks": hx(acks)})
    # ---- sender with notifications / noise in the replies ----------------------------------------
    good, good2, bad, tick = frame_item(R, "T05"), frame_item(R, "o}k"), frame_item(R, "E01", good=False), frame_item(R, "q'")
    templ = []
    for a in ("a2b", "a2d"):
        templ += [[a], [good, a], [a, good2], ["n7a", a, bad], [tick, a, good]]
    M = 4 if ctx.thorough else 3
    for n in range(1, M + 1):
        for t in itertools.product(range(len(templ)), repeat=n):
            cases.append({"kind": "sendx", "data": hx("m 0,4"), "retries": 2 if n < 4 else 3, "replies": [templ[i] for i in t]})
    for _ in range(300 if ctx.thorough else 60):
        n = rng.randint(1, 12)
        cases.append({"kind": "sendx", "data": hx(rng.choice(P)), "retries": rng.choice((1, 2, 3, 5, 10)),
                      "replies": [templ[rng.randrange(len(templ))] for _ in range(n)]})
    # ---- receiver streams --------------------------------------------------------------------------
    pool = [good, good2, bad, tick, "n7a", "n23", "n27", frame_item(R, ""), frame_item(R, "$#", good=False)]
    for n in range(1, M + 1):
        for t in itertools.product(range(len(pool)), repeat=n):
            cases.append({"kind": "recv", "items": [pool[i] for i in t]})
    # every packet-data string a foreign peer could send (escape pairs the ppci sender never produces), good checksum
    for n in range(M + 1):
        for t in itertools.product("a}]\x03", repeat=n):
            body = "".join(t)
            cases.append({"kind": "recv", "items": ["f" + hx(body) + "/" + hx("%02x" % (sum(body.encode()) % 256))]})
    for _ in range(400 if ctx.thorough else 80):
        n = rng.randint(1, 10)
        items = []
        for _ in range(n):
            k = rng.random()
            if k < 0.5:
                items.append(frame_item(R, rng.choice(P), good=rng.random() < 0.7))
            elif k < 0.7:
                # a frame as a foreign peer might write it: arbitrary data (any escape pairs), usually a correct checksum
                body = "".join(rng.choice("a}]*'$+-\x03") for _ in range(rng.randint(0, 6)))
                if rng.random() < 0.75:
                    cc = (rng.choice(("%02X", "%02x")) % (sum(body.encode()) % 256))
                else:
                    cc = "".join(rng.choice("0123456789abcdefABCDEFg +") for _ in range(2))
                items.append("f" + hx(body) + "/" + hx(cc))
            else:
                items.append("n" + hx(rng.choice("az#'}*0 \x00\x7f")))
        if rng.random() < 0.4:
            items.insert(rng.randrange(len(items) + 1), rng.choice(("a2b", "a2d")))
        cases.append({"kind": "recv", "items": items, "mask": rng.getrandbits(64)})
    # ---- random mixed scenarios (correspondence only) ------------------------------------------------
    for _ in range(1500 if ctx.thorough else 300):
        acts = []
        for _ in range(rng.randint(1, 4)):
            if rng.random() < 0.5:
                s = "".join(rng.choice("$#+-}'a06 ") for _ in range(rng.randint(0, 9)))
                if rng.random() < 0.4:
                    s += R.RspHandler.rsp_pack(rng.choice(P))
                acts.append(["i", hx(s)])
            else:
                reps = []
                for _ in range(rng.randint(0, 5)):
                    k = rng.random()
                    rep = rng.choice(("+", "-")) if k < 0.75 else ("" if k < 0.85 else rng.choice(("++", "-+", "+-", "x")))
                    if rng.random() < 0.3:
                        rep = rng.choice((rep + "$OK#9a", "$OK#9a" + rep, "$O'K#c1" + rep, "$bad#00" + rep, "$tr" + rep))
                    reps.append(hx(rep))
                acts.append(["s", rng.choice((-1, 0, 1, 2, 3, 10)), hx(rng.choice(P)), reps])
        cases.append({"kind": "scn", "acts": acts})
    # ---- client.py wiring ----------------------------------------------------------------------------
    for p in P[:: 7 if ctx.thorough else 23]:
        cases.append({"kind": "client", "payload": hx(p), "ack": hx("+")})
        cases.append({"kind": "client", "payload": hx("T" + p), "ack": hx("-+")})
    return cases


# --------------------------------------------------------------------------- driver requests per case
def requests(R, c):
    """model / spec request lines of a case (their replies are handed to evaluate())"""
    k = c["kind"]
    if k == "fn":
        return [f"{c['op']} {c['arg']}"]
    if k == "int16":
        return [f"int16 {c['a']} {c['b']}"]
    if k == "loop":
        p = unhx(c["payload"]).decode("ascii")
        w = call(R.RspHandler.rsp_pack, p)
        wire = w[3:] if w.startswith("ok ") else "-"
        return [f"spec escape {c['payload']}", f"run i:{wire}"]
    if k == "cks":
        frame = b"$" + unhx(c["body"]) + b"#" + bytes([c["c1"], c["c2"]])
        return [f"spec cksum {c['body']} {c['c1']} {c['c2']}", f"spec unescape {c['body']}", "run i:" + hx(frame)]
    if k == "send":
        acks = unhx(c["acks"])
        acts = [["s", c["retries"], unhx(c["data"]), [bytes([a]) for a in acks]]]
        return [f"spec sender {c['retries']} {c['acks']}", acts_line(acts)]
    if k == "sendx":
        reps = c["replies"]
        acks = bytes(unhx(it[1:])[0] for r in reps for it in r if it[0] == "a")
        acts = [["s", c["retries"], unhx(c["data"]), [b"".join(item_bytes(it) for it in r) for r in reps]]]
        return [f"spec sender {c['retries']} {hx(acks)}", acts_line(acts)] + ["spec items " + " ".join(r) for r in reps]
    if k == "recv":
        data = b"".join(item_bytes(it) for it in c["items"])
        return ["spec items " + " ".join(c["items"]), "run i:" + hx(data)]
    if k == "scn":
        return [acts_line(decode_acts(c["acts"]))]
    if k == "client":
        return []
    raise ValueError(k)


def decode_acts(acts):
    out = []
    for a in acts:
        if a[0] == "i":
            out.append(["i", unhx(a[1])])
        else:
            out.append(["s", a[1], unhx(a[2]), [unhx(r) for r in a[3]]])
    return out


def impl_acts(acts):
    return [a if a[0] == "i" else ["s", a[1], a[2].decode("ascii"), a[3]] for a in acts]


def kv(reply):
    """'ok a=1 b=2' -> dict"""
    return dict(w.split("=", 1) for w in reply.split()[1:])


class Reporter:
    def __init__(self, ctx):
        self.ctx = ctx
        self.n = {}

    def fail(self, sig, what, case, **detail):
        self.n[sig] = self.n.get(sig, 0) + 1
        self.ctx.count("fail_" + sig)
        if self.n[sig] <= SIG_CAP:
            self.ctx.fail(sig, what, case, **detail)

    def disagree(self, what, case, impl, model):
        self.ctx.count("disagree_" + what)
        if len(self.ctx.disagreements) < 200:
            self.ctx.disagree(what, case, impl, model)


# --------------------------------------------------------------------------- evaluation
def evaluate(ctx, rep, R, c, out):
    k = c["kind"]
    ctx.count("eval_" + k)
    if k == "fn":
        arg = unhx(c["arg"]).decode("ascii")
        if c["op"] == "pack":
            impl = call(R.RspHandler.rsp_pack, arg)
        elif c["op"] == "unpack":
            impl = call(R.RspHandler.rsp_unpack, arg)
        else:
            d = R.decoder()
            next(d)
            ys = []
            for b in arg.encode("ascii"):
                m = d.send(bytes([b]))
                ys.append("." if m is None else ("a" if m in ("+", "-") else "p") + hx(m))
            impl = "ok " + ",".join(ys)
        if impl != out[0]:
            rep.disagree(c["op"], c, impl, out[0])
        if impl.startswith("err") or "7d" in impl:
            ctx.nontrivial(f"{c['op']} {c['arg']}")
        return
    if k == "int16":
        try:
            impl = f"ok {int(chr(c['a']) + chr(c['b']), 16)}"
        except ValueError:
            impl = "err ValueError"
        if impl != out[0]:
            rep.disagree("int16", c, impl, out[0])
        return
    if k == "loop":
        return eval_loop(ctx, rep, R, c, out)
    if k == "cks":
        return eval_cks(ctx, rep, R, c, out)
    if k == "send":
        return eval_send(ctx, rep, R, c, out)
    if k == "sendx":
        return eval_sendx(ctx, rep, R, c, out)
    if k == "recv":
        return eval_recv(ctx, rep, R, c, out)
    if k == "scn":
        acts = decode_acts(c["acts"])
        im = run_impl(R, impl_acts(acts))
        if im.state() != out[0]:
            rep.disagree("scenario", c, im.state(), out[0])
        ctx.nontrivial("scn " + out[0]) if im.err or len(im.tr.sent) > 1 else None
        return
    if k == "client":
        return eval_client(ctx, rep, R, c)
    raise ValueError(k)


def eval_loop(ctx, rep, R, c, out):
    p = unhx(c["payload"]).decode("ascii")
    pb = p.encode("ascii")
    try:
        wire = R.RspHandler.rsp_pack(p).encode("ascii")
    except Exception as e:  # noqa
        rep.fail("pack:raises", f"rsp_pack({p!r}) raised {type(e).__name__}", c)
        return
    esc = unhx(out[0][3:])
    crc = sum(esc) % 256
    if wire != b"$" + esc + b"#" + b"%02X" % crc and wire != b"$" + esc + b"#" + b"%02x" % crc:
        rep.fail("pack:format", f"rsp_pack({p!r}) = {wire!r} is not $<escaped>#<checksum>", c, wire=hx(wire))
    n = len(wire)
    masks = range(1 << (n - 1)) if c["chunks"] == "all" else sorted({m & ((1 << (n - 1)) - 1) for m in c["chunks"]})
    first = True
    for mask in masks:
        chunks = chunkings(wire, mask)
        im = Impl(R)
        early = False
        for i, ch in enumerate(chunks):
            im.inject(ch)
            if i < len(chunks) - 1 and (im.deliv or im.tr.sent):
                early = True
        ctx.count("eval_chunking")
        if first:
            first = False
            if im.state() != out[1]:
                rep.disagree("loopback", c, im.state(), out[1])
        case = {**c, "mask": mask, "chunks_hex": [hx(x) for x in chunks]}
        if im.err:
            rep.fail("loopback:raises", f"receiving pack({p!r}) raised {im.err}", case)
        elif early:
            rep.fail("loopback:premature", f"pack({p!r}): something was delivered/acknowledged before the last byte", case)
        elif len(im.deliv) != 1:
            rep.fail("loopback:not-one-message", f"pack({p!r}) fed in chunks {case['chunks_hex']}: {len(im.deliv)} messages delivered "
                     f"(acks written: {show_ll(im.tr.sent)})", case, state=im.state())
        elif im.deliv[0].encode("latin-1") != pb:
            rep.fail("loopback:payload-altered", f"pack({p!r}) was delivered as {im.deliv[0]!r} (escaped characters not restored)",
                     case, state=im.state())
        elif im.tr.sent != [b"+"]:
            rep.fail("loopback:ack", f"pack({p!r}) was answered with {show_ll(im.tr.sent)} instead of '+'", case, state=im.state())
    if len(wire) > len(pb) + 4 or len(masks) > 1:
        ctx.nontrivial("loop " + c["payload"])
    if c["chunks"] == "all" and len(pb) >= 3:
        ctx.sample({"payload": p, "wire": wire.decode("ascii"), "chunkings": len(masks), "model": out[1]}, limit=3)


def eval_cks(ctx, rep, R, c, out):
    body = unhx(c["body"])
    frame = b"$" + body + b"#" + bytes([c["c1"], c["c2"]])
    im = Impl(R)
    im.inject(frame)
    if im.state() != out[2]:
        rep.disagree("checksum-frame", c, im.state(), out[2])
    good = out[0] == "ok true"
    field = frame[-2:].decode("ascii")
    is_hex = all(ch in "0123456789abcdefABCDEF" for ch in field)
    if im.err:
        rep.fail("checksum:raises", f"frame {frame!r} raised {im.err}", c)
    elif not good:
        ctx.nontrivial(f"cks {c['body']} {field}")
        if im.tr.sent != [b"-"] or im.deliv:
            if not im.deliv and b"+" not in im.tr.sent:
                rep.fail("checksum:bad-frame-not-nacked", f"frame {frame!r} has a bad checksum but was answered {show_ll(im.tr.sent)} "
                         f"(no '-')", c, state=im.state())
            elif not is_hex and not int16_matches(field, body):
                rep.fail("checksum:unreadable-field-accepted", f"frame {frame!r}: checksum field {field!r} is not even readable by "
                         f"int(.,16) as the sum, but the frame was answered {show_ll(im.tr.sent)}, {len(im.deliv)} message(s) delivered",
                         c, state=im.state())
            elif not is_hex:
                rep.fail("checksum:lax-field-accepted", f"frame {frame!r}: checksum field {field!r} is not two hex digits but the frame "
                         f"was answered {show_ll(im.tr.sent)} and {len(im.deliv)} message(s) delivered", c, state=im.state())
            else:
                rep.fail("checksum:wrong-value-accepted", f"frame {frame!r} has a wrong checksum but was answered {show_ll(im.tr.sent)}, "
                         f"{len(im.deliv)} message(s) delivered", c, state=im.state())
    else:
        want = unhx(out[1][3:])
        if im.tr.sent != [b"+"] or [d.encode("latin-1") for d in im.deliv] != [want]:
            rep.fail("checksum:good-frame-not-delivered", f"frame {frame!r} has a good checksum but sent={show_ll(im.tr.sent)} "
                     f"delivered={im.deliv!r}", c, state=im.state())


def int16_matches(field, body):
    try:
        return int(field, 16) == sum(body) % 256
    except ValueError:
        return False


def spec_sender(line):
    w = line.split()
    return int(w[1]), w[2]


OUTCOME_ERR = {"acked": None, "retryFail": "ValueError", "timeout": "Empty"}


def eval_send(ctx, rep, R, c, out):
    acks = unhx(c["acks"])
    data = unhx(c["data"]).decode("ascii")
    im = run_impl(R, [["s", c["retries"], data, [bytes([a]) for a in acks]]])
    if im.state() != out[1]:
        rep.disagree("sendpkt", c, im.state(), out[1])
    want_t, want_o = spec_sender(out[0])
    wire = R.RspHandler.rsp_pack(data).encode("ascii")
    tx = [s for s in im.tr.sent if s[:1] == b"$"]
    if b"-" in acks or im.err:
        ctx.nontrivial(f"send {c['retries']} {c['acks']}")
    if any(s != wire for s in tx) or len(tx) != len(im.tr.sent):
        rep.fail("sendpkt:wire", f"sendpkt({data!r}) wrote {show_ll(im.tr.sent)}", c)
    elif len(tx) != want_t:
        rep.fail("sendpkt:transmissions", f"sendpkt({data!r}, retries={c['retries']}) against acks {acks.decode()!r}: {len(tx)} "
                 f"transmissions, expected {want_t} (= 1 + nacks before the first '+', capped by the budget)", c, state=im.state())
    elif im.err != OUTCOME_ERR[want_o]:
        rep.fail("sendpkt:outcome", f"sendpkt({data!r}, retries={c['retries']}) against acks {acks.decode()!r} ended with "
                 f"{im.err}, expected {want_o}", c, state=im.state())
    elif im.deliv:
        rep.fail("sendpkt:spurious-delivery", f"acks only, but {im.deliv!r} was delivered", c)
    if len(acks) >= 10:
        ctx.sample({"acks": acks.decode(), "retries": c["retries"], "impl": im.state(), "spec": out[0]}, limit=5)


def eval_sendx(ctx, rep, R, c, out):
    data = unhx(c["data"]).decode("ascii")
    reps = c["replies"]
    raw = [b"".join(item_bytes(it) for it in r) for r in reps]
    im = run_impl(R, [["s", c["retries"], data, raw]])
    if im.state() != out[1]:
        rep.disagree("sendpkt-interleaved", c, im.state(), out[1])
    ctx.nontrivial("sendx " + out[1])
    want_t, want_o = spec_sender(out[0])
    wire = R.RspHandler.rsp_pack(data).encode("ascii")
    want_sent, want_deliv = [], []
    for i in range(want_t):
        want_sent.append(wire)
        if i < len(reps):
            d = kv(out[2 + i])
            assert d["wf"] == "true" and unhx(d["bytes"]) == raw[i], (c, d)
            want_sent += [] if d["replies"] == "_" else [unhx(x) for x in d["replies"].split(",")]
            want_deliv += [] if d["deliv"] == "_" else [unhx(x) for x in d["deliv"].split(",")]
    got_deliv = [m.encode("latin-1") for m in im.deliv]
    tx = [s for s in im.tr.sent if s[:1] == b"$"]
    if len(tx) != want_t:
        rep.fail("sendpkt:transmissions", f"sendpkt({data!r}, retries={c['retries']}) with notifications in the replies: {len(tx)} "
                 f"transmissions, expected {want_t}", c, state=im.state())
    elif im.err != OUTCOME_ERR[want_o]:
        rep.fail("sendpkt:outcome", f"sendpkt({data!r}, retries={c['retries']}) ended with {im.err}, expected {want_o}", c, state=im.state())
    elif got_deliv != want_deliv:
        rep.fail("receiver:lost-or-duplicated", f"while sending: delivered {got_deliv!r}, the good frames received were {want_deliv!r}",
                 c, state=im.state())
    elif im.tr.sent != want_sent:
        rep.fail("receiver:acks", f"while sending: wrote {show_ll(im.tr.sent)}, expected {show_ll(want_sent)}", c, state=im.state())


def eval_recv(ctx, rep, R, c, out):
    data = b"".join(item_bytes(it) for it in c["items"])
    d = kv(out[0])
    assert d["wf"] == "true" and unhx(d["bytes"]) == data, (c, d)
    chunks = chunkings(data, c.get("mask", 0) & ((1 << max(len(data) - 1, 0)) - 1))
    im = Impl(R)
    for ch in chunks:
        im.inject(ch)
    if im.state() != out[1]:
        rep.disagree("receive-stream", c, im.state(), out[1])
    nack = sum(1 for it in c["items"] if it[0] == "a")
    if nack > 1:
        return
    want_deliv = [] if d["deliv"] == "_" else [unhx(x) for x in d["deliv"].split(",")]
    want_sent = [] if d["replies"] == "_" else [unhx(x) for x in d["replies"].split(",")]
    got = [m.encode("latin-1") for m in im.deliv]
    if len(c["items"]) > 1:
        ctx.nontrivial("recv " + " ".join(c["items"]))
    lax = lax_frames(c["items"])
    if im.err:
        rep.fail("receiver:raises", f"stream {data!r} raised {im.err}", c)
    elif got != want_deliv:
        if lax and got == want_deliv_lax(c["items"], want_deliv, lax):
            rep.fail("checksum:lax-field-accepted", f"stream {data!r}: frame(s) with a non-hex checksum field delivered", c, state=im.state())
        else:
            rep.fail("receiver:lost-or-duplicated", f"stream {data!r}: delivered {got!r}, the good frames in it are {want_deliv!r}",
                     c, state=im.state())
    elif im.tr.sent != want_sent:
        rep.fail("receiver:acks", f"stream {data!r}: wrote {show_ll(im.tr.sent)}, expected {show_ll(want_sent)}", c, state=im.state())


def lax_frames(items):
    """indices of frames whose checksum field is not two hex digits but which int(..,16) maps to the right sum"""
    out = []
    for i, it in enumerate(items):
        if it[0] != "f":
            continue
        body, cc = it[1:].split("/")
        cc = unhx(cc).decode("ascii")
        if all(ch in "0123456789abcdefABCDEF" for ch in cc):
            continue
        try:
            v = int(cc, 16)
        except ValueError:
            continue
        if v == sum(unhx(body)) % 256:
            out.append(i)
    return out


def spec_unescape(b):
    out, esc = [], False
    for ch in b:
        if esc:
            out.append(ch ^ 0x20)
            esc = False
        elif ch == 0x7D:
            esc = True
        else:
            out.append(ch)
    return bytes(out)


def want_deliv_lax(items, want, lax):
    """expected deliveries if exactly the lax frames were (wrongly) accepted too — used only to classify a failure"""
    out, k = [], 0
    for i, it in enumerate(items):
        if it[0] != "f":
            continue
        body, cc = it[1:].split("/")
        cc_s = unhx(cc).decode("ascii")
        is_hex = all(ch in "0123456789abcdefABCDEF" for ch in cc_s)
        if i in lax:
            out.append(spec_unescape(unhx(body)))
        elif is_hex and int(cc_s, 16) == sum(unhx(body)) % 256:
            out.append(want[k])
            k += 1
    return out


def eval_client(ctx, rep, R, c):
    """client.py wiring: _send_command -> sendpkt, on_message -> _handle_message -> the two queues."""
    from ppci.api import get_arch
    from ppci.binutils.dbg.gdb.client import GdbDebugDriver
    p = unhx(c["payload"]).decode("ascii")
    acks = unhx(c["ack"])
    tr = FakeTransport()
    drv = GdbDebugDriver(get_arch("example"), transport=tr)
    drv._rsp._ack_queue = NoWaitQueue(maxsize=1)
    drv._msg_queue = NoWaitQueue(maxsize=1)
    drv._stop_msg_queue = NoWaitQueue()
    reply = R.RspHandler.rsp_pack(p).encode("ascii")
    tr.script = [bytes([a]) for a in acks[:-1]] + [bytes([acks[-1]]) + reply]
    cmd = "m 0,4"
    try:
        drv._send_message(cmd)
    except Exception as e:  # noqa
        rep.fail("client:send-raises", f"_send_message against acks {acks!r} raised {type(e).__name__}", c)
        return
    q = drv._stop_msg_queue if p[:1] in ("T", "S") else drv._msg_queue
    other = drv._msg_queue if q is drv._stop_msg_queue else drv._stop_msg_queue
    got = list(q.queue)
    tx = [s for s in tr.sent if s[:1] == b"$"]
    if len(tx) != len(acks):
        rep.fail("sendpkt:transmissions", f"client: {len(tx)} transmissions against acks {acks!r}", c)
    elif got != [p] or list(other.queue):
        rep.fail("client:message-routing", f"reply {reply!r}: queues hold {got!r} / {list(other.queue)!r}, expected [{p!r}] / []", c)
    ctx.nontrivial("client " + c["payload"])


# --------------------------------------------------------------------------- entry points
def run_cases(ctx, cases):
    from ppci.binutils.dbg.gdb import rsp as R
    rep = Reporter(ctx)
    reqs, spans = [], []
    for c in cases:
        r = requests(R, c)
        spans.append((len(reqs), len(reqs) + len(r)))
        reqs += r
    out = ctx.driver("C35", reqs)
    bad = [(q, o) for q, o in zip(reqs, out) if o == "bad-op"]
    if bad:
        from harness.common import BrokenCheck
        raise BrokenCheck(f"driver rejected {len(bad)} requests, e.g. {bad[0][0]!r}")
    for c, (a, b) in zip(cases, spans):
        evaluate(ctx, rep, R, c, out[a:b])
    return rep


def check(ctx):
    from ppci.binutils.dbg.gdb import rsp as R
    logging.disable(logging.CRITICAL)
    try:
        cases = gen_cases(ctx, R)
        run_cases(ctx, cases)
    finally:
        logging.disable(logging.NOTSET)
    n = 4 if ctx.thorough else 3
    ctx.extra_cov["exhaustive"] = True
    ctx.extra_cov["exhaustive_domains"] = [
        f"payloads of length <= {n} over {{a,$,#,}},*,'}} x all chunkings of their packet",
        f"ack scripts over {{+,-}} of length <= {12 if ctx.thorough else 8} x retries {{1,2,3,10}}",
        f"checksum fields: all 128x128 two-character fields on {3 if ctx.thorough else 1} bodies",
        f"reply scripts of length <= {n} over 10 templates with interleaved notifications",
        f"receiver streams of <= {n} items from a pool of 9",
    ]
    ctx.extra_cov["not_covered"] = ["thread interleavings on _ack_queue/_lock", "0.5 s timeouts as time", "sockets", "bytes >= 0x80",
                                    "run-length encoding"]


def replay(ctx, rp):
    logging.disable(logging.CRITICAL)
    try:
        case = rp.get("case")
        if isinstance(case, dict) and "kind" in case:
            case = {k: v for k, v in case.items() if k not in ("mask", "chunks_hex") or case["kind"] != "loop"}
            if case["kind"] == "loop" and "mask" in rp.get("case", {}):
                case["chunks"] = [rp["case"]["mask"]]
            rep = run_cases(ctx, [case])
            print("replayed case:", case)
            for f in ctx.failures:
                print("  FAILS:", f["signature"], "-", f["what"])
            if not ctx.failures:
                print("  property holds on this input now")
        else:
            check(ctx)
    finally:
        logging.disable(logging.NOTSET)
