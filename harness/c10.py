"""C10 — out-of-range operands are rejected, never silently truncated.

regen: T2 tables (translate/tables.py) -> lean/PpciVerif/Gen/{Tokens,Instrs,Relocs}.lean
check: correspondence of Model.Token / Model.Reloc / Model.Encode with the live ppci classes and
       evaluation of the property on the real code (oracle: Spec.Field / Spec.RelocSem via the driver).
"""
import importlib
import sys
from pathlib import Path

from harness import common

sys.path.insert(0, str(Path(__file__).resolve().parent.parent / "translate"))

PROP = "C10"
LEAN_PROPS = "PpciVerif/Props/C10.lean"
LEAN_PROPS_EXTRA = ["PpciVerif/Props/C10T1.lean", "PpciVerif/Props/C10T1arm.lean"]   # T1 translation tie of relocation bodies (harness/t1.py, notes/T1.md)
LEAN_TARGETS = ["PpciVerif.Props.C10", "Drivers.C10", "PpciVerif.Props.C10T1", "PpciVerif.Props.C10T1arm"]
LEVEL = "proof"
LEVEL_TEXT = (
    "Lean theorems. (1) For EVERY token field (any width, any bit_range/bit_concat layout that passes the decidable well-formedness "
    "check, which `decide +kernel` establishes for every token class of all 13 ISAs from the regenerated tables): the exact set of "
    "values Token.__setitem__/bit_concat accept, what they store (v mod 2^w), that no other bit changes, and that reading the field "
    "back under its declared signedness gives v IF AND ONLY IF v fits -- so the accepted-but-not-fitting region is exactly the "
    "silent-corruption region (proved negation witnesses: RiscvIToken.imm=-4096 stored as 0, bit_concat truncation). Rejection of "
    "non-fitting values is proved only for the part the code does reject (_partial); the rest are open known findings. "
    "(2) Per relocation type of riscv, rvc, arm, thumb, x86_64 and the data relocations: if apply succeeds and the reference is "
    "architecturally representable, the ISA-manual decoder (Spec.RelocSem) reads back exactly the symbol address; exact acceptance "
    "regions; proved witnesses where the range check is too wide. (3) `decide +kernel` over the instruction tables of all ISAs: no "
    "operand field is overwritten by a later pattern, fixed values and register numbers fit, lifted by a generic lemma to: after "
    "Instruction.encode of any declarative class (incl. every combination of constructor operands) every operand field holds "
    "v mod 2^w and decodes to the operand iff it fits.")
LEVEL_NOTE = (
    "trusted: Lean kernel; T2 table translator (closure introspection of bit_range/bit_concat, class attributes); hand models "
    "Model.Token/Model.Reloc/Model.Encode tied to /repo by differential runs on every check (sampled at range edges, not proved); "
    "Spec.Field and Spec.RelocSem are my reading of the declarations / ISA manuals (riscv/arm branch decoders validated against "
    "llvm-objdump in C11 thorough). Not covered: operand checks inside hand-written encode() methods are only sampled "
    "(injectivity of encode on accepted operand values); Transform patterns are opaque; relocations of the other 8 ISAs are not modelled.")
TECHNIQUE = ("Lean 4 proofs over hand models (bit-level lemmas, induction over bit_concat parts and pattern lists) + kernel-decided "
             "conditions on tables regenerated from the live ppci classes + differential correspondence with the Python classes")
RULE = ("token fields: every field of every token class of every ISA, values 0, +-1, +-2^k, +-2^k+-1 for k in {w-1,w,w+1}, 2 random, on a zero "
        "and a random initial bit_value; relocations: every modelled type, distances d at +-2^k, +-2^k+-{1,2,4} around the field range and "
        "the accepted range, several site addresses/alignments, zeroed and random field bytes; instructions: every class with a syntax, "
        "register tuples and int operands at +-2^k edges (quick: subset per class, thorough: all edges). distinct = distinct request line; "
        "non-trivial = error outcome, negative value, or value outside the unsigned range")
TRUSTED = [
    "translate/tables.py (T2): reads bit ranges from the closures of bit_range/bit_concat, class attributes of tokens/instructions/relocations",
    "hand models Model.Token, Model.Encode, Model.Reloc (tied by differential run on every check)",
    "Spec.Field (declared signedness -> representable range) and Spec.RelocSem (decoders written from the RISC-V/ARM/Intel manuals)",
]
ASSUMPTIONS = [
    "Token.bit_value is a non-negative int (0 or the result of unpack)",
    "relocated bytes are bytes (0..255) and the slice has the relocation's size (asserted by the linker)",
    "ldr_imm12/adr_imm12/b_imm11_imm6 OR into the instruction: their theorems assume the field bits are clear, as emitted by encode()",
    "nested bit_concat properties are flattened by T2 (inner setters only see masked values)",
]

CHECK_WITHOUT_BUILD = True     # a broken proof still gets the failing-input search on the real code

ISAS = ["arm", "thumb", "avr", "m68k", "mcs6500", "microblaze", "mips", "msp430", "or1k", "riscv", "stm8", "x86_64", "xtensa", "misc"]


# ---------------------------------------------------------------------------------------------


def regen(ctx):
    import tables
    importlib.reload(tables) if False else None
    tabs, changed = tables.regen()
    ctx.tabs = tabs
    if changed:
        ctx.note("regenerated " + ", ".join(changed))
    from . import t1                # T1: py2lean translation of relocation calc/apply bodies (+ the bitfun helpers they call)
    t1.regen_many(ctx, t1.RELOC_KEYS)


def get_tabs(ctx):
    if getattr(ctx, "tabs", None) is None:
        import tables
        ctx.tabs = tables.collect()
    return ctx.tabs


def exc_name(e):
    n = type(e).__name__
    return {"error": "struct.error", "IndexError": "KeyError"}.get(n, n)


def edge_values(w, rng, thorough):
    vs = {0, 1, -1, 2, -2}
    for k in (w - 1, w, w + 1):
        if k < 0:
            continue
        for d in (-1, 0, 1):
            vs.add((1 << k) + d)
            vs.add(-(1 << k) + d)
    for _ in range(4 if thorough else 2):
        vs.add(rng.randint(-(1 << (w + 1)), 1 << (w + 1)))
    if thorough:
        for k in range(0, w + 3):
            vs.add(1 << k)
            vs.add(-(1 << k))
    return sorted(vs)


# ---------------------------------------------------------------------------------------------
# (1) token fields


def field_signature(fld, w, v):
    """signature of 'accepted although it does not fit' by call site and region"""
    site = "bit_concat" if fld["concat"] else "Token.__setitem__"
    if v >= (1 << w):
        return f"{site}:accepts-[2^w,inf)"
    if v < -(1 << w):
        return f"{site}:accepts-(-inf,-2^w)"
    if v < -(1 << (w - 1)):
        return f"{site}:accepts-[-2^w,-2^(w-1))"
    if v < 0:
        return f"{site}:accepts-[-2^(w-1),0)-into-unsigned-field"
    return f"{site}:accepts-[2^(w-1),2^w)-into-signed-field"


def check_tokens(ctx, tabs):
    reqs, meta = [], []
    for isa in ISAS:
        for trow in tabs["isas"][isa]["tokens"]:
            tcls = trow["cls"]
            size = trow["size"]
            inits = [0, ctx.rng.getrandbits(size)] if ctx.thorough else [ctx.rng.getrandbits(size)]
            # pack / unpack
            for bv in inits + [(1 << size) - 1]:
                impl = "ok " + (tcls.pack(bv).hex() or "-")
                reqs.append(f"tpack {isa} {trow['name']} {bv}"); meta.append(("pack", impl, None))
                data = tcls.pack(bv)
                try:
                    impl = f"ok {tcls.unpack(data)}"
                except Exception as e:  # noqa
                    impl = "err " + exc_name(e)
                reqs.append(f"tunpack {isa} {trow['name']} {data.hex() or '-'}"); meta.append(("unpack", impl, None))
            for bad in (b"", b"\0" * (size // 8 + 1)):
                try:
                    impl = f"ok {tcls.unpack(bad)}"
                except Exception as e:  # noqa
                    impl = "err " + exc_name(e)
                if bad != b"" or size:
                    reqs.append(f"tunpack {isa} {trow['name']} {bad.hex() or '-'}"); meta.append(("unpack", impl, None))
            for fld in trow["fields"]:
                w = sum(e - b for b, e in fld["parts"])
                for v in edge_values(w, ctx.rng, ctx.thorough):
                    for init in inits:
                        t = tcls()
                        t.bit_value = init
                        try:
                            setattr(t, fld["name"], v)
                            impl = f"ok {t.bit_value}"
                            raw = getattr(t, fld["name"])
                        except Exception as e:  # noqa
                            impl = "err " + exc_name(e)
                            raw = None
                        case = {"isa": isa, "token": trow["name"], "field": fld["name"], "init": init, "value": v}
                        reqs.append(f"tset {isa} {trow['name']} {fld['name']} {init} {v}")
                        meta.append(("tset", impl, case))
                        if raw is not None:
                            reqs.append(f"tget {isa} {trow['name']} {fld['name']} {t.bit_value}")
                            meta.append(("tget", f"ok {raw}", case))
                            reqs.append(f"tdec {isa} {trow['name']} {fld['name']} {raw}")
                            meta.append(("spec-dec", None, (case, fld, w, v, "dec")))
                        reqs.append(f"tfits {isa} {trow['name']} {fld['name']} {v}")
                        meta.append(("spec-fits", None, (case, fld, w, v, raw is not None)))
    out = ctx.driver("C10", reqs)
    pending_dec = {}
    for rq, (kind, impl, case), m in zip(reqs, meta, out):
        if kind in ("pack", "unpack", "tset", "tget"):
            ctx.count("eval_" + kind)
            if impl.startswith("err") or (kind == "tset" and case and (case["value"] < 0 or case["value"] >= (1 << 31))):
                ctx.nontrivial(rq)
            if impl != m:
                ctx.disagree(kind, rq, impl, m)
        elif kind == "spec-dec":
            c, fld, w, v, _ = case
            pending_dec[(c["isa"], c["token"], c["field"], c["init"], v)] = m
        elif kind == "spec-fits":
            c, fld, w, v, accepted = case
            ctx.count("eval_field_property")
            fits = m == "ok true"
            key = (c["isa"], c["token"], c["field"], c["init"], v)
            if accepted:
                dec = pending_dec.get(key)
                if not fits:
                    ctx.fail(field_signature(fld, w, v),
                             f"{c['isa']} {c['token']}.{c['field']} ({w} bits, {'signed' if fld['signed'] else 'unsigned'}) = {v} is accepted and reads back as {dec}",
                             c, decoded=dec)
                    ctx.count("field_accepted_not_fitting")
                elif dec != f"ok {v}":
                    ctx.fail(("bit_concat" if fld["concat"] else "Token.__setitem__") + ":wrong-bits-for-fitting-value",
                             f"{c['isa']} {c['token']}.{c['field']} = {v} fits but reads back as {dec}", c, decoded=dec)
            else:
                ctx.count("field_rejected")
                if fits:
                    ctx.fail(("bit_concat" if fld["concat"] else "Token.__setitem__") + ":rejects-fitting-value",
                             f"{c['isa']} {c['token']}.{c['field']} = {v} fits but is rejected", c)
    ctx.sample({"request": reqs[-2], "model": out[-2]})


# ---------------------------------------------------------------------------------------------
# (2) relocations

# (isa key, relocation name) -> (bias b: field encodes S - (P + b); scale; bits of the architectural field incl. scale; zero instruction bytes)
RELOCS = {
    ("riscv", "b_imm12"): dict(bias=0, bits=13, data="63000000"),
    ("riscv", "b_imm20"): dict(bias=0, bits=21, data="6f000000"),
    ("riscv", "cb_imm11"): dict(bias=0, bits=21, data="6f000000"),
    ("riscv", "cbl_imm11"): dict(bias=0, bits=21, data="ef000000"),
    ("riscv", "bc_imm11"): dict(bias=0, bits=12, data="01a0"),
    ("riscv", "bc_imm8"): dict(bias=0, bits=9, data="01c0"),
    ("riscv", "abs32_imm20"): dict(bias=0, bits=33, data="b7000000", absolute=True),
    ("riscv", "abs32_imm12"): dict(bias=0, bits=33, data="13000000", absolute=True),
    ("riscv", "rel_imm20"): dict(bias=0, bits=33, data="97000000"),
    ("riscv", "rel_imm12"): dict(bias=0, bits=33, data="13000000"),
    ("arm", "imm24"): dict(bias=8, bits=26, data="000000ea"),
    ("arm", "rel8"): dict(bias=4, bits=9, data="00000000"),
    ("arm", "ldr_imm12"): dict(bias=8, bits=13, data="00001fe5"),
    ("arm", "adr_imm12"): dict(bias=8, bits=13, data="00000fe2"),
    ("thumb", "lit8"): dict(bias=4, bits=11, data="0048"),
    ("thumb", "wrap_new11"): dict(bias=4, bits=12, data="00e0"),
    ("thumb", "rel8"): dict(bias=4, bits=9, data="00d0"),
    ("thumb", "bl_imm11"): dict(bias=4, bits=25, data="00f000f8"),
    ("thumb", "b_imm11_imm6"): dict(bias=4, bits=21, data="00f00080"),
    ("x86_64", "rel32"): dict(bias=0, bits=32, data="00000000", addends=[-4, 0]),
    ("x86_64", "jmp8"): dict(bias=1, bits=8, data="00"),
    ("x86_64", "abs32"): dict(bias=0, bits=33, data="00000000", absolute=True),
    ("x86_64", "abs64"): dict(bias=0, bits=65, data="0000000000000000", absolute=True),
    ("misc", "absaddr16"): dict(bias=0, bits=17, data="0000", absolute=True),
    ("misc", "absaddr32"): dict(bias=0, bits=33, data="00000000", absolute=True),
    ("misc", "absaddr64"): dict(bias=0, bits=65, data="0000000000000000", absolute=True),
}
# architectural width n (in address units, scale included) of the signed displacement each relative type can hold;
# for bl_imm11 / b_imm11_imm6 the width for which ppci's encoding is right (J1 = J2 = 1 resp. J1 = J2 = S);
# unsigned width for the absolute types.  Findings are keyed by the REGION of the displacement relative to n.
WIDTH = {"b_imm12": 13, "b_imm20": 21, "cb_imm11": 21, "cbl_imm11": 21, "bc_imm11": 12, "bc_imm8": 9, "imm24": 26,
         "ldr_imm12": 13, "adr_imm12": 13, "lit8": 11, "wrap_new11": 12, "rel8": 9, "bl_imm11": 23, "b_imm11_imm6": 19,
         "rel32": 32, "jmp8": 8, "abs32": 32, "abs64": 64, "absaddr16": 16, "absaddr32": 32, "absaddr64": 64,
         "abs32_imm20": 32, "abs32_imm12": 32, "rel_imm20": 32, "rel_imm12": 32}
UNSIGNED = {"abs32", "abs64", "absaddr16", "absaddr32", "absaddr64", "abs32_imm20", "abs32_imm12"}


def region(name, d):
    """which of the regions (relative to the field's width n) the displacement / address d lies in"""
    n = WIDTH[name]
    if name in UNSIGNED:
        return "negative" if d < 0 else ("in-range" if d < (1 << n) else f">=2^{n}")
    if d >= 0:
        if d < (1 << (n - 1)):
            return "in-signed-range"
        return f"[2^{n - 1},2^{n})" if d < (1 << n) else f">=2^{n}"
    if d >= -(1 << (n - 1)):
        return "in-signed-range"
    return f"[-2^{n},-2^{n - 1})" if d >= -(1 << n) else f"<-2^{n}"


# types whose apply ORs into the bytes: the property is evaluated on a clear field only
OR_TYPES = {("arm", "ldr_imm12"), ("arm", "adr_imm12"), ("thumb", "b_imm11_imm6"),
            ("thumb", "bl_imm11")}   # bl_imm11 relies on J1 = J2 = 1 in the emitted instruction
NO_SPEC = {("arm", "rel8")}      # ArmToken.imm8 branch: no such A32 instruction; correspondence only
HILO = {("riscv", "abs32_imm20"), ("riscv", "abs32_imm12"), ("riscv", "rel_imm20"), ("riscv", "rel_imm12")}


def reloc_classes(tabs):
    """(isa, name) -> class, as found in the T2 relocation tables"""
    out = {}
    for isa in ISAS:
        for r in tabs["isas"][isa]["relocs"]:
            if r["name"]:
                out[(isa, r["name"])] = r["cls"]
    # rvc classes live in the riscv table
    return out


def reloc_distances(bits, rng, thorough):
    ds = {0, 2, -2, 4, -4, 8, -8, 1, -1, 3}
    for k in (bits - 3, bits - 2, bits - 1, bits, bits + 1):
        if k < 1:
            continue
        for d in (-8, -4, -2, -1, 0, 1, 2, 4, 8):
            ds.add((1 << k) + d)
            ds.add(-(1 << k) + d)
    for _ in range(24 if thorough else 6):
        k = rng.randint(1, bits + 1)
        ds.add(rng.randint(-(1 << k), 1 << k) & ~1)
        ds.add(rng.randint(-(1 << k), 1 << k) & ~3)
    if thorough:
        for k in range(1, bits + 2):
            ds.update({1 << k, -(1 << k), (1 << k) - 2, (1 << k) - 4, -(1 << k) - 2})
    return sorted(ds)


def check_relocs(ctx, tabs):
    classes = reloc_classes(tabs)
    reqs, meta = [], []
    for (isa, name), cfg in RELOCS.items():
        cls = classes.get((isa, name))
        if cls is None:
            ctx.broken.append({"kind": "translation", "msg": f"relocation {isa}/{name} no longer exists"})
            continue
        zero = bytes.fromhex(cfg["data"])
        sites = [0, 4, 0x1000, 0x10002, 0x7FFFFFF0] if isa != "x86_64" else [0, 1, 0x1000, 0x7FFFFFF3]
        if isa == "thumb":
            sites = [0, 2, 4, 6, 0x1002]
        if not ctx.thorough:
            sites = sites[:2]
        if not cfg.get("absolute"):
            sites = sites + [1 << (cfg["bits"] + 2)]      # far site: displacements below the signed minimum keep S >= 0
        for A in cfg.get("addends", [0]):
            for P in sites:
                for d in reloc_distances(cfg["bits"], ctx.rng, ctx.thorough):
                    S = d if cfg.get("absolute") else P + cfg["bias"] + d - A
                    variants = [zero]
                    if (d % 7 == 0) or ctx.thorough:
                        variants.append(bytes(ctx.rng.randrange(256) for _ in zero))
                    for data in variants:
                        try:
                            r = cls(None, addend=A).apply(S, bytearray(data), P)
                            impl = "ok " + bytes(r).hex()
                        except Exception as e:  # noqa
                            impl = "err " + exc_name(e)
                        case = {"isa": isa, "reloc": name, "cls": cls.__name__, "S": S, "P": P, "addend": A, "data": data.hex(),
                                "d": d, "region": region(name, d) if name in WIDTH else "?"}
                        reqs.append(f"rapply {isa} {name} {A} {S} {data.hex()} {P}")
                        meta.append(("rapply", impl, case))
                        if S < 0 or (isa, name) in NO_SPEC:
                            continue        # symbol values are addresses; no property evaluation
                        if data is zero or (isa, name) not in OR_TYPES:
                            reqs.append(f"rrep {isa} {name} {S} {A} {P}")
                            meta.append(("rrep", impl, case))
                            if impl.startswith("ok") and (isa, name) not in HILO:
                                reqs.append(f"rtarget {isa} {name} {impl[3:]} {P}")
                                meta.append(("rtarget", impl, case))
    # hi/lo pairs: both halves applied, the pair decoded by the spec
    for hi, lo, rel in (("abs32_imm20", "abs32_imm12", False), ("rel_imm20", "rel_imm12", True)):
        chi, clo = classes[("riscv", hi)], classes[("riscv", lo)]
        for P in ([0, 0x1000, 0x7FFFF000, 0xFFFFF000] if ctx.thorough else [0, 0x7FFFF000]):
            for d in reloc_distances(33, ctx.rng, ctx.thorough) + [0x7FF, 0x800, 0x801, 0xFFF, 0x1000, 0x7FFFF7FE, 0x7FFFF800, 0xFFFFF7FE, 0xFFFFF800, 0xFFFFFFFE]:
                S = (P + d) if rel else d
                if S % 2 or S < 0:
                    continue
                try:
                    dh = bytes(chi(None).apply(S, bytearray.fromhex("97000000" if rel else "b7000000"), P))
                    dl = bytes(clo(None).apply(S, bytearray.fromhex("13000000"), P + 4))
                except Exception as e:  # noqa
                    continue
                case = {"isa": "riscv", "reloc": hi + "+" + lo, "S": S, "P": P}
                reqs.append(f"rhilo {dh.hex()} {dl.hex()}")
                meta.append(("rhilo", None, (case, rel)))
                reqs.append(f"rrep riscv {hi} {S} 0 {P}")
                meta.append(("rrep-hilo", None, case))
    out = ctx.driver("C10", reqs)
    rep = {}
    hilo_val = {}
    for rq, (kind, impl, case), m in zip(reqs, meta, out):
        if kind == "rapply":
            ctx.count("eval_rapply")
            ctx.count("reloc_" + ("accepted" if impl.startswith("ok") else impl[4:]))
            ctx.nontrivial(rq)
            if impl != m:
                ctx.disagree("relocation apply", rq, impl, m)
        elif kind == "rrep":
            key = (case["isa"], case["reloc"], case["S"], case["P"], case["addend"], case["data"])
            rep[key] = (m == "ok true")
            ctx.count("eval_reloc_property")
            if impl.startswith("ok") and m != "ok true" and (case["isa"], case["reloc"]) not in HILO:
                ctx.fail(f"{case['cls']}:accepts-{case['region']}",
                         f"{case['isa']} {case['reloc']}: displacement {case['d']} (S={case['S']} P={case['P']} A={case['addend']}) lies in "
                         f"{case['region']}, is not representable, but apply succeeds ({impl[3:]})",
                         case, impl=impl)
            if impl.startswith("err") and m == "ok true":
                ctx.count("reloc_rejects_representable")
        elif kind == "rtarget":
            key = (case["isa"], case["reloc"], case["S"], case["P"], case["addend"], case["data"])
            want = case["S"] + (case["addend"] if (case["isa"], case["reloc"]) == ("x86_64", "rel32") else 0)
            if rep.get(key) and m != f"ok {want}":
                ctx.fail(f"{case['cls']}:wrong-target-{case['region']}",
                         f"{case['isa']} {case['reloc']}: displacement {case['d']} (S={case['S']} P={case['P']}, region {case['region']}) is "
                         f"representable, apply gives {impl[3:]} which designates {m[3:]}",
                         case, impl=impl, spec_target=m)
        elif kind == "rhilo":
            c, rel = case
            hilo_val[(c["reloc"], c["S"], c["P"])] = (m, rel)
        elif kind == "rrep-hilo":
            ctx.count("eval_hilo_property")
            m2, rel = hilo_val[(case["reloc"], case["S"], case["P"])]
            want = (case["S"] - case["P"]) % (1 << 32) if rel else case["S"]
            if m2 != f"ok {want}":
                sig = (f"Abs32Imm20Relocation:accepts-{region('abs32_imm20', case['S'])}" if not rel
                       else "RelImm20Relocation:wrong-pair-value")
                if not rel and m == "ok true":
                    sig = "Abs32Imm20Relocation:wrong-pair-value"
                ctx.fail(sig, f"riscv {case['reloc']}: S={case['S']} P={case['P']}: the pair computes {m2[3:]}, expected {want}", case)
    ctx.sample({"request": reqs[0], "model": out[0]})


# ---------------------------------------------------------------------------------------------
# (2b) rvc linker relaxation: can_shrink / do_shrink of cb_imm11, cbl_imm11


def check_relax(ctx, tabs):
    """the relocated value reaches the 11-bit C.J/C.JAL field through the relaxation path too: can_shrink must say yes
    only if the displacement fits (four-region grid), and the shrunk + re-relocated instruction must designate S;
    also through real final links of rvc objects (relaxation runs inside link())."""
    classes = reloc_classes(tabs)
    reqs, meta = [], []
    grid = sorted({d + e for d in (0, 1024, -1024, 2044, 2046, 2048, 2050, 2998, 4094, 4096, 4098, -2046, -2048, -2050, -4094, -4096,
                                  -4098, 8190, -8192) for e in (0, 2, -2)} | {3, -1}
                  | {ctx.rng.randrange(-5000, 5000) & ~1 for _ in range(40 if ctx.thorough else 8)})
    for name, opc, zero in (("cb_imm11", 5, "6f000000"), ("cbl_imm11", 1, "ef000000")):
        cls = classes.get(("riscv", name))
        bc = classes.get(("riscv", "bc_imm11"))
        if cls is None or bc is None or not hasattr(cls, "can_shrink"):
            ctx.broken.append({"kind": "translation", "msg": f"rvc relocation {name} / can_shrink no longer exists"})
            continue
        for P in (0x2000, 0x10002):
            for d in grid:
                S = P + d
                try:
                    can = cls(None).can_shrink(S, P)
                    impl = "ok " + ("true" if can else "false")
                except Exception as e:  # noqa
                    can = None
                    impl = "err " + exc_name(e)
                case = {"isa": "riscv", "reloc": name, "cls": cls.__name__, "S": S, "P": P, "d": d, "region": region("bc_imm11", d)}
                reqs.append(f"canshrink {S} {P}")
                meta.append(("canshrink", impl, case))
                if can:
                    reqs.append(f"rrep riscv bc_imm11 {S} 0 {P}")
                    meta.append(("rrep", impl, case))
                    try:
                        data, news = cls("t").do_shrink(S, bytearray.fromhex(zero), P)
                        out = bytes(bc(None).apply(S, bytearray(data), P))
                        impl2 = "ok " + out.hex()
                    except Exception as e:  # noqa
                        impl2 = "err " + exc_name(e)
                    reqs.append(f"rapply riscv shrink_{name} 0 {S} {zero} {P}")
                    meta.append(("doshrink", "ok " + bytes(data).hex() if impl2 != "err" else impl2, case))
                    if impl2.startswith("ok"):
                        reqs.append(f"rtarget riscv bc_imm11 {impl2[3:]} {P}")
                        meta.append(("rtarget", impl2, case))
                    else:
                        ctx.count("relax_shrunk_rejected")
    # real final links of rvc objects: relaxation runs inside link()
    from harness import c11 as L
    from ppci.api import get_arch
    arch = get_arch("riscv:rvc")
    links = []
    for name, zero in (("cb_imm11", "6f000000"), ("cbl_imm11", "ef000000")):
        for d in (2040, 2046, 2048, 2050, 2998, 4090, 4094, 4096, -2044, -2048, -2050, -2052, -4096, -4100) + \
                ((1000, -1000, 3000, -3000, 8190, -8192) if ctx.thorough else ()):
            code_addr = 0x4000
            P = code_addr
            S = P + d
            sym_off = S % 16
            try:
                sec_addr, data, symval = L.build_and_link(arch, name, 0, bytes.fromhex(zero), 0, sym_off, code_addr, S - sym_off)
            except Exception as e:  # noqa
                ctx.count("relax_link_" + exc_name(e))
                continue
            ctx.count("eval_relax_link")
            shrunk = len(data) < 8
            ctx.count("relax_link_shrunk" if shrunk else "relax_link_kept")
            rt = "bc_imm11" if shrunk else name
            case = {"isa": "riscv", "reloc": name, "cls": classes[("riscv", name)].__name__, "S": symval, "P": sec_addr, "d": symval - sec_addr,
                    "region": region("bc_imm11", symval - sec_addr), "linked": data.hex(), "shrunk": shrunk}
            if shrunk:
                reqs.append(f"rrep riscv bc_imm11 {symval} 0 {sec_addr}")
                meta.append(("rrep", "ok", case))
                reqs.append(f"rtarget riscv bc_imm11 {data[0:2].hex()} {sec_addr}")
                meta.append(("rtarget", "ok " + data[0:2].hex(), case))
    out = ctx.driver("C10", reqs)
    for rq, (kind, impl, case), m in zip(reqs, meta, out):
        if kind == "canshrink":
            ctx.count("eval_can_shrink")
            ctx.nontrivial(rq)
            if impl != m:
                ctx.disagree("can_shrink", rq, impl, m)
        elif kind == "doshrink":
            ctx.count("eval_do_shrink")
            if impl != m:
                ctx.disagree("do_shrink", rq, impl, m)
        elif kind == "rrep":
            ctx.count("eval_relax_property")
            if m != "ok true":
                ctx.fail(f"{case['cls']}:relaxed-{case['region']}",
                         f"riscv {case['reloc']}: displacement {case['d']} (S={case['S']} P={case['P']}) lies in {case['region']} and does not fit "
                         f"C.J/C.JAL's 12-bit signed offset, but {'link() relaxed' if case.get('shrunk') else 'can_shrink allows shrinking'} the jump",
                         case)
        elif kind == "rtarget":
            if m != f"ok {case['S']}":
                ctx.fail(f"{case['cls']}:relaxed-jump-designates-wrong-target-{case['region']}",
                         f"riscv {case['reloc']}: displacement {case['d']}: the shrunk jump {impl[3:]} at {case['P']} designates {m[3:]}, "
                         f"symbol is at {case['S']}", case)


# ---------------------------------------------------------------------------------------------
# (3) instruction classes


def registers_of(cls):
    try:
        regs = list(cls.all_registers())
    except Exception:  # noqa
        regs = []
    return [r for r in regs if getattr(r, "_num", None) is not None]


def build_instances(row, rows_by_cls, rng, int_values, depth=0):
    """Yield (instance, description) for a class row: registers varied, ints from int_values, labels 'lbl'."""
    from ppci.arch.registers import Register
    cls = row["cls"]
    syn = cls.syntax
    if syn is None or depth > 4:
        return
    fargs = syn.formal_arguments
    sub_ints = [0, 1, -1, 255, 256, 32767, -32768, 65535]      # int operands of nested constructors

    def choices(op):
        c = op._cls
        if op._value_map is not None:
            c = tuple(op._value_map.keys())
        if isinstance(c, tuple):
            outs = []
            for o in c:
                r = rows_by_cls.get(o)
                if r is None:
                    continue
                for k, inst in enumerate(build_instances(r, rows_by_cls, rng, sub_ints, depth + 1)):
                    outs.append(inst)
                    if k >= 7:
                        break
            return outs
        if isinstance(c, type) and issubclass(c, Register):
            regs = registers_of(c)
            if not regs:
                return []
            picks = {id(r): r for r in (regs[0], regs[-1], regs[len(regs) // 2])}
            return list(picks.values())
        if c is int:
            return list(int_values)
        if c is str:
            return ["lbl"]
        if isinstance(c, type):
            r = rows_by_cls.get(c)
            if r is not None:
                return list(build_instances(r, rows_by_cls, rng, sub_ints, depth + 1))[:8]
        return []

    pools = [choices(a) for a in fargs]
    if any(len(p) == 0 for p in pools):
        return
    # vary one argument at a time around a base tuple (keeps the number of instances linear)
    base = [p[len(p) // 2] for p in pools]
    seen = set()
    for i, p in enumerate(pools):
        for x in p:
            args = list(base)
            args[i] = x
            key = tuple(id(a) if not isinstance(a, (int, str)) else a for a in args)
            if key in seen:
                continue
            seen.add(key)
            try:
                yield cls(*args)
            except Exception:  # noqa
                continue
    if not fargs:
        try:
            yield cls()
        except Exception:  # noqa
            return


def flat_of(ins, names):
    """non_leaves of an instance in the driver's flat syntax, or None if a pattern value cannot be computed"""
    from ppci.arch.encoding import Constructor, VariablePattern, Transform
    parts = []
    for nl in ins.non_leaves:
        cname = names.get(type(nl))
        if cname is None:
            return None
        kv = []
        for p in Constructor.dict_to_patterns(type(nl).patterns):
            if isinstance(p, VariablePattern):
                try:
                    v = p.get_value(nl)
                except Exception:  # noqa
                    return None
                if isinstance(p.prop, Transform):
                    kv.append(f"{p.prop.source._name}@{type(p.prop).__name__}={v}")
                else:
                    kv.append(f"{p.prop._name}={v}")
        parts.append(cname + ":" + ",".join(dict.fromkeys(kv)))
    return ";".join(parts)


def operand_shape(ins):
    """(shape, ints): shape = everything but the int operand values (classes of the non-leaves, register
    numbers, labels); ints = the int operand values in order.  Only instances of the SAME shape are compared."""
    from ppci.arch.registers import Register
    shape, ints = [], []
    for nl in ins.non_leaves:
        shape.append(type(nl).__name__)
        for a in (nl.syntax.formal_arguments if nl.syntax else []):
            v = a.__get__(nl)
            if isinstance(v, int) and not isinstance(v, bool):
                ints.append(v)
            elif isinstance(v, Register):
                shape.append(("r", v.num))
            elif isinstance(v, str):
                shape.append(v)
    return tuple(shape), tuple(ints)


def check_instrs(ctx, tabs):
    ints_quick = [0, 1, -1, 127, 128, -128, -129, 255, 256, 2047, 2048, -2048, -2049, 4095, 4096, -4096, 32767, 32768, -32768, 65535, 65536,
                  (1 << 31) - 1, 1 << 31, -(1 << 31), (1 << 32) - 1, 1 << 32]
    ints_thorough = sorted(set(ints_quick + [s * ((1 << k) + d) for k in range(0, 34) for d in (-1, 0, 1) for s in (1, -1)]))
    int_values = ints_thorough if ctx.thorough else ints_quick
    reqs, meta = [], []
    table_reqs = []
    for isa in ISAS:
        table_reqs += [f"isaok {isa}", f"never {isa}", f"counts {isa}", f"wf {isa}"]
        rows = tabs["isas"][isa]["instrs"]
        rows_by_cls = {r["cls"]: r for r in rows}
        names = {r["cls"]: r["name"] for r in rows}
        for row in rows:
            if not row["is_instruction"] or not row["has_syntax"] or not row["tokens"]:
                continue            # no tokens: nothing is encoded into a field (e.g. `.zero n` allocates n bytes)
            declarative = row["has_tokens"] and not row["encode_overridden"] and not row["user_patterns_overridden"]
            groups = {}
            n = 0
            for ins in build_instances(row, rows_by_cls, ctx.rng, int_values):
                n += 1
                shape, ints = operand_shape(ins)      # before encode: riscv IBase.encode overwrites self.offset
                try:
                    enc = bytes(ins.encode())
                    impl = "ok " + (enc.hex() or "-")
                except Exception as e:  # noqa
                    enc = None
                    impl = "err " + exc_name(e)
                ctx.count("eval_encode_declarative" if declarative else "eval_encode_handwritten")
                ctx.count("encode_" + ("ok" if enc is not None else impl[4:]))
                decl_here = declarative and all(
                    not (tables_row(rows_by_cls, type(nl)) or {}).get("user_patterns_overridden", True) for nl in ins.non_leaves)
                if decl_here and enc is not None:
                    bad = clobbered_operand(ins)
                    ctx.count("eval_operand_field_readback")
                    if bad is not None:
                        ctx.fail(f"{isa}.{row['name']}:operand-field-clobbered",
                                 f"{isa} {row['name']}: after set_all_patterns field {bad[0]} holds {bad[2]} but the operand value is {bad[1]} "
                                 f"(mod 2^{bad[3]} = {bad[1] % (1 << bad[3])})",
                                 {"isa": isa, "class": row["name"], "text": str(ins), "field": bad[0], "value": bad[1]})
                if decl_here:
                    fl = flat_of(ins, names)
                    if fl is not None:
                        reqs.append(f"enc {isa} {fl}")
                        meta.append((isa, row["name"], impl, str(ins) if enc is not None else "?"))
                # property (oracle-free): two different operand tuples of one class must not encode to the same bytes
                if enc is not None:
                    if ints:
                        groups.setdefault((shape, enc), set()).add(ints)
            for (shape, enc), g in groups.items():
                if len(g) > 1:
                    keys = sorted(g)[:2]
                    owner = "Instruction.encode" if declarative else f"{isa}.{encode_owner(row['cls'])}"
                    ctx.fail(f"{owner}:aliases-int-operands",
                             f"{isa} {row['name']}: int operands {keys[0]} and {keys[1]} (same registers/labels) are both accepted and "
                             f"encode to the same bytes {enc.hex()}",
                             {"isa": isa, "class": row["name"], "operands": [list(k) for k in keys], "bytes": enc.hex()})
                    ctx.count("encode_alias_groups")
    out = ctx.driver("C10", reqs + table_reqs)
    for rq, (isa, cname, impl, txt), m in zip(reqs, meta, out):
        ctx.count("eval_enc_correspondence")
        ctx.nontrivial(rq)
        if impl != m:
            ctx.disagree("declarative encode", rq, impl, m)
    tout = out[len(reqs):]
    cov_total = 0
    for i, isa in enumerate(ISAS):
        ok, never, counts, wf = tout[4 * i: 4 * i + 4]
        cov_total += int(counts.split()[1])
        if not ok.startswith("ok true"):
            ctx.broken.append({"kind": "table-condition", "msg": f"{isa}: ordered-write condition fails for: {ok[8:]}"})
        if wf != "ok true":
            ctx.broken.append({"kind": "table-condition", "msg": f"{isa}: a token class is not well formed"})
        if never.strip() != "ok":
            ctx.note(f"{isa}: classes whose patterns name a field no token declares (encode always raises KeyError): {never[3:]}")
    ctx.extra_cov["declarative_classes_covered_by_table_theorem"] = cov_total
    if reqs:
        ctx.sample({"request": reqs[0], "impl": meta[0][2], "model": out[0]})


def clobbered_operand(ins):
    """the conclusion of `declarative_operand_decodes` evaluated on the real code: after set_all_patterns every
    field written from an operand holds v mod 2^w.  Returns (field, v, raw, w) of the first violation."""
    from ppci.arch.encoding import Constructor, VariablePattern
    tokens = ins.get_tokens()
    ins.set_all_patterns(tokens)
    for nl in ins.non_leaves:
        for p in Constructor.dict_to_patterns(type(nl).patterns):
            if isinstance(p, VariablePattern):
                v = p.get_value(nl)
                raw = tokens.get_field(p.field)
                w = None
                for t in tokens.tokens:
                    if hasattr(t, p.field):
                        w = getattr(type(t), p.field)._bitsize
                        break
                if w is not None and raw != v % (1 << w):
                    return (p.field, v, raw, w)
    return None


def tables_row(rows_by_cls, cls):
    return rows_by_cls.get(cls)


def encode_owner(cls):
    """qualified name of the function that implements encode for this class (the call site of a finding)"""
    for k in cls.__mro__:
        if "encode" in k.__dict__:
            return k.__name__ + ".encode"
    return cls.__name__ + ".encode"


# ---------------------------------------------------------------------------------------------

CORPUS = [
    # the witnesses proved in Props/C10.lean, replayed on the real code
    ("riscv", "RiscvIToken", "imm", -4096),
    ("riscv", "RiscvIToken", "imm", 4095),
    ("riscv", "RiscvSBToken", "imm", 4096),
    ("x86_64", "Imm8Token", "disp8", 255),
]


def check_corpus(ctx, tabs):
    from ppci.arch.riscv.tokens import RiscvIToken, RiscvSBToken
    from ppci.arch.riscv.relocations import BImm12Relocation
    t = RiscvIToken(); t.imm = -4096
    if t.imm != 0:
        ctx.note("witness RiscvIToken.imm=-4096 no longer stores 0")
    t = RiscvSBToken(); t.imm = 4096 + 5
    if t.imm != 5:
        ctx.note("witness RiscvSBToken.imm=4101 no longer truncates to 5")
    try:
        r = BImm12Relocation(None).calc(6000, 0)
        if r != 3000:
            ctx.note(f"witness BImm12Relocation.calc(6000,0) now returns {r}")
    except Exception as e:  # noqa
        ctx.note(f"witness BImm12Relocation.calc(6000,0) now raises {type(e).__name__}")
    ctx.count("eval_corpus", 3)


def check(ctx):
    if ctx.build_ok is False:
        try:                                  # the driver does not depend on Props; it may still run
            if ctx.driver("C10", ["wf misc"]) != ["ok true"]:
                raise common.BrokenCheck("driver")
        except Exception:  # noqa
            ctx.note("proofs do not build and the driver cannot run: no failing-input search possible")
            return
    tabs = get_tabs(ctx)
    if tabs["failed_imports"]:
        ctx.note("modules that do not import on this tree (skipped): " + "; ".join(f"{m}: {e}" for m, e in tabs["failed_imports"]))
    check_corpus(ctx, tabs)
    check_tokens(ctx, tabs)
    check_relocs(ctx, tabs)
    check_relax(ctx, tabs)
    check_instrs(ctx, tabs)
    ctx.extra_cov["exhaustive"] = False
    ctx.extra_cov["isas"] = ISAS
    ctx.extra_cov["token_classes"] = sum(len(tabs["isas"][i]["tokens"]) for i in ISAS)
    ctx.extra_cov["fields"] = sum(len(t["fields"]) for i in ISAS for t in tabs["isas"][i]["tokens"])
    ctx.extra_cov["relocation_types_modelled"] = len(RELOCS)
    ctx.extra_cov["handwritten_encode"] = "sampled (injectivity of encode on accepted operand tuples), not proved"


def replay(ctx, rp):
    check(ctx)
