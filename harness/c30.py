"""C30 compilation is deterministic.

Two separate things happen here and they must not be confused:

1. PROOF (the claim): Lean theorems about a hand model of
   ppci.utils.collections.OrderedSet (doubly linked list + dict): for every history of
   add/discard/remove/pop/clear/|=/&=/-=/^= the iteration order is the insertion order of a
   duplicate-free list, independent of anything but the history.  Tied to the class by a
   differential run of random histories on every check.
2. SEARCH (not a proof of anything): the same C sources are compiled in fresh subprocesses under
   several PYTHONHASHSEED values, also after compiling an unrelated module first and with the
   configurations in a different order, for several targets and optimisation levels; the saved
   object files and linked images must be byte-identical.  A difference is a concrete failing
   input of the property; no difference proves nothing.
"""
import hashlib
import json
import os
import subprocess
import sys
from concurrent.futures import ThreadPoolExecutor

PROP = "C30"
TITLE = "Compilation is deterministic"
LEAN_PROPS = "PpciVerif/Props/C30.lean"
LEAN_TARGETS = ["PpciVerif.Props.C30", "Drivers.C30"]
LEVEL = "proof"
LEVEL_TEXT = (
    "The theorem covers ppci.utils.collections.OrderedSet ONLY: for a hand model of the class (doubly linked list of cells + "
    "dict, plus the MutableSet mixins remove/pop/clear/|=/&=/-=/^=) Lean proves, for EVERY history of operations, that "
    "iteration terminates and yields exactly the duplicate-free insertion-ordered list of the surviving elements "
    "(Spec.OrderedSet), that len and membership agree with it, and that for add-only histories this is the order of first "
    "occurrence; the model never enumerates the dict, so nothing depends on hash order. Process-level determinism of the "
    "compiler (byte-identical objects/images under different PYTHONHASHSEED values, in fresh processes, after compiling other "
    "modules first) is NOT proved and cannot be carried by a model: it is only SEARCHED on every run by recompiling fixed and "
    "generated C sources in subprocesses and comparing bytes; finding no difference is not evidence of determinism."
)
LEVEL_NOTE = (
    "trusted: Lean kernel; axioms propext/Classical.choice/Quot.sound; hand model <-> OrderedSet correspondence is sampled (random "
    "histories incl. the inherited mixins), not proved; CPython's _collections_abc mixin code is modelled as read; the multi-hash-seed "
    "recompilation is failing-input search only (sources x targets x levels x seeds listed in the evidence)"
)
TECHNIQUE = ("Lean 4 proof (representation invariant of the linked list, induction over operation histories) over a hand model + "
             "differential correspondence with the Python class; separate multi-PYTHONHASHSEED subprocess recompilation as failing-input search")
RULE = (
    "OrderedSet: random histories (length 1..60) over add/discard/remove/pop/clear/|=/&=/-=/^= (also with the set itself as operand) "
    "and OrderedSet(iterable), values from a small universe so that re-insertions and misses are frequent; after every operation "
    "list/len/contains/getitem/reversed and the binary operators are observed. distinct = distinct history; non-trivial = history "
    "with >= 1 discard-like operation that hit and >= 1 later re-insertion, or a KeyError outcome. "
    "determinism search: (source, target, level) triples, each compiled under every listed PYTHONHASHSEED in a fresh process, once "
    "first in the process and once after an unrelated module with the configurations reversed; distinct = distinct triple"
)
TRUSTED = [
    "hand model Model.OrderedSet of ppci/utils/collections.py OrderedSet and of the MutableSet/Set mixins of CPython 3.12 _collections_abc; tied by differential run",
    "Spec.OrderedSet (duplicate-free list semantics)",
    "the determinism search compares sha256 of ObjectFile.save text and of linked image bytes produced in subprocesses",
]
ASSUMPTIONS = [
    "elements are hashable values with a deterministic __eq__ (the model uses integers); dict lookup/insert/pop behave as a finite map",
    "no mutation of the set while it is being iterated, except the patterns of the mixins themselves (s |= s adds nothing, s &= s discards nothing)",
]

HERE = os.path.dirname(os.path.abspath(__file__))

# --------------------------------------------------------------------------------------
# determinism search
# --------------------------------------------------------------------------------------
WORKER = r'''
import sys, io, json, hashlib, logging
repo, spec = sys.argv[1], json.loads(sys.stdin.read())
sys.path.insert(0, repo)
logging.disable(logging.CRITICAL)
from ppci.api import cc, link
out = {}
configs = spec["configs"]
if spec["variant"] == "after-unrelated":
    try:
        cc(io.StringIO(spec["unrelated"]), configs[0][0], opt_level=2)
    except Exception:
        pass
    configs = list(reversed(configs))
import signal
class _Slow(Exception):
    pass
def _alarm(signum, frame):
    raise _Slow()
signal.signal(signal.SIGALRM, _alarm)
LAYOUT = "MEMORY flash LOCATION=0x1000 SIZE=0x80000 { SECTION(code) ALIGN(8) SECTION(data) }\nMEMORY ram LOCATION=0x20000000 SIZE=0x10000 { SECTION(bss) }"
for arch, opt in configs:
    key = f"{arch}:O{opt}"
    signal.setitimer(signal.ITIMER_REAL, spec.get("per_config_timeout", 45))
    try:
        o = cc(io.StringIO(spec["source"]), arch, opt_level=opt, debug=spec.get("debug", False))
        f = io.StringIO(); o.save(f)
        h = hashlib.sha256(f.getvalue().encode()).hexdigest()[:20]
        try:
            und = {s.name: 0x2000 for s in o.symbols if s.undefined}
            img = link([o], layout=io.StringIO(LAYOUT), extra_symbols=und)
            hi = hashlib.sha256(b"|".join(bytes(i.data) for i in img.images)).hexdigest()[:20]
        except Exception as e:
            hi = "link-" + type(e).__name__
        out[key] = [h, hi]
    except _Slow:
        out[key] = ["slow", ""]          # load-dependent: carries no information, never compared
    except Exception as e:
        out[key] = ["raise-" + type(e).__name__, ""]
    finally:
        signal.setitimer(signal.ITIMER_REAL, 0)
print(json.dumps(out))
'''

UNRELATED = "int zz1(int a) { int i, s = 0; for (i = 0; i < a; i++) { s += i * a; } return s; }\nint zz2(char c) { return c + zz1(c); }\n"

# the source on which the finding was first reproduced (DESIGN section 7), and a smaller cut of it
SRC_KNOWN = """int g1; char buf[16]; short tab[8];
extern int ext(int);
long mix(char a, short b, long c, int d, char e, short f, long g, int h) { return a + b * c - d + e * f - g + h; }
int loops(int n, char c, short s2, long l) {
  int i, j, s = 0;
  for (i = 0; i < n; i++) {
    for (j = i; j < n; j += 2) { s += ext(i * j) + buf[j & 15] + tab[i & 7]; }
    if (s > 1000) s -= g1 + c;
    else s += s2 * l;
  }
  return s;
}
int sw(int k, int v, char c, short s, long l) {
  switch (k) {
    case 0: v += 1; break;
    case 1: v *= 3; break;
    case 2: v += c; break;
    case 3: v -= s; break;
    case 7: v -= g1; break;
    default: v = v ^ k; break;
  }
  while (v > 100) { v = v / 2 + mix(c, s, l, k, c, s, l, v); }
  do { v++; l -= v; } while (l > 0);
  return v + loops(k, c, s, l);
}
"""
SRC_MIN = """long mix(char a, short b, long c, int d) { return a + b * c - d; }
"""
SRC_MIN2 = """extern int ext(int);
int sw(int k, int v, char c, short s, long l) {
  while (v > 100) { v = v / 2 + ext(c) + s + l + k; }
  return v;
}
"""
SRC_STRUCT = """struct p { int x; char t; short u; long w; };
struct p gs[4];
static int helper(struct p *q, int i) { return q->x * i + q->t - q->u; }
int walk(int n, long acc) {
  int i; struct p loc;
  loc.x = n; loc.t = 1; loc.u = 2; loc.w = acc;
  for (i = 0; i < n; i++) { acc += helper(&gs[i & 3], i) + helper(&loc, n - i); if (acc & 1) acc ^= gs[i & 3].w; }
  return acc + loc.w;
}
"""
# past failing input of the search: the only source so far on which the order of otherwise unordered selection-dag
# trees (phi copies) in dagsplit.topological_sort_modified showed (x86_64 -O2)
SRC_DAGORDER = 'long g0;\nunsigned char g1;\nunsigned int g2;\nint arr[16];\nextern int ext(int);\nshort f0(long p0) { int v0 = 0; int v1 = 0; long v2 = 7; for (v0 = 0; v0 < arr[p0 & 3]; v0++) { while (((v0 | v0) + (v2 << 86)) > 2) { v2 = v2 / 2; g0 = arr[139 & 3]; } } arr[v0 & 3] = v2; while (arr[(v1 & 139) & 3] > 15) { v1 = v1 / 2; for (p0 = 0; p0 < v0; p0++) { v1 = (p0 & p0); g1 = ((v1 + v0) ^ (v2 << v2)); } switch (v2) { case 6: v1 += v1; break; case 9: v1 += arr[v1 & 3]; break; case 11: v0 += p0; break; default: v2 = ((91 * v0) * (p0 - v0)); break; } } return v2; }\nlong f1(int p0, long p1, unsigned char p2, int p3, long p4) { int v0 = 0; char v1 = 2; char v2 = 8; if (p0 < v2) { g2 = arr[arr[p1 & 3] & 3]; g0 = v0; } else { g2 = ((p0 >> 2) ^ arr[p0 & 3]); } switch (v2) { case 1: v1 += (p0 << p2); break; case 6: v1 += (73 << v2); break; case 10: p4 += (p0 << v1); break; case 11: p2 += (147 * p1); break; default: v2 = (arr[v2 & 3] + f0(p4)); break; } if (p1 < f0((p3 + p1))) { for (p1 = 0; p1 < p2; p1++) { g2 = (v2 * (p2 ^ p0)); p4 = p0; } p0 = (((p4 >> p3) | (130 + v2)) - arr[f0(p4) & 3]); arr[p3 & 3] = ((p0 & v0) * (v2 - p4)); } else { if (arr[p3 & 3] < (v2 * (p4 - v1))) { g2 = ((v0 ^ p2) + 123); } else { g2 = p3; } for (v0 = 0; v0 < (p3 - v0); v0++) { g1 = arr[(p4 ^ p3) & 3]; g1 = (p0 * (v2 | p0)); g2 = (f0(v2) - (v2 & p0)); } p4 = (165 | ((p4 + p4) >> p4)); } return p2; }\nshort f2(unsigned int p0, long p1, unsigned int p2, long p3) { long v0 = 1; int v1 = 9; p2 = p2; return v0; }\n'
FIXED_SOURCES = [("known", SRC_KNOWN), ("min-mix", SRC_MIN), ("dag-order", SRC_DAGORDER), ("min-loop", SRC_MIN2), ("struct", SRC_STRUCT)]

TYPES = ["char", "short", "int", "long", "int", "unsigned int"]


def gen_source(rng):
    """A random C translation unit: a few functions with mixed-width parameters, nested loops,
    switch, conditionals, calls, globals and arrays (no division by variables, no UB needed: never run)."""
    nglob = rng.randint(1, 3)
    out = [f"{rng.choice(TYPES)} g{i};" for i in range(nglob)]
    out.append(f"int arr[{rng.choice([4, 8, 16])}];")
    out.append("extern int ext(int);")
    nfun = rng.randint(2, 4)
    funs = []

    def expr(vars_, depth=0):
        r = rng.random()
        if depth > 2 or r < 0.3:
            return rng.choice(vars_ + [str(rng.randint(0, 200))])
        if r < 0.8:
            op = rng.choice(['+', '-', '*', '&', '|', '^', '<<', '>>'])
            if op in ('<<', '>>'):
                return f"({expr(vars_, depth + 1)} {op} ({expr(vars_, depth + 1)} & 7))"
            return f"({expr(vars_, depth + 1)} {op} {expr(vars_, depth + 1)})"
        if r < 0.9 and funs:
            fn, np_ = rng.choice(funs)
            return f"{fn}({', '.join(expr(vars_, depth + 1) for _ in range(np_))})"
        return f"arr[{expr(vars_, depth + 1)} & 3]"

    def stmts(vars_, depth):
        res = []
        for _ in range(rng.randint(1, 3)):
            r = rng.random()
            v = rng.choice(vars_)
            if depth < 2 and r < 0.2:
                res.append(f"for ({v} = 0; {v} < {expr(vars_, 2)}; {v}++) {{ {' '.join(stmts(vars_, depth + 1))} }}")
            elif depth < 2 and r < 0.35:
                res.append(f"while ({expr(vars_, 1)} > {rng.randint(1, 50)}) {{ {v} = {v} / 2; {' '.join(stmts(vars_, depth + 1))} }}")
            elif depth < 2 and r < 0.55:
                res.append(f"if ({expr(vars_, 1)} < {expr(vars_, 1)}) {{ {' '.join(stmts(vars_, depth + 1))} }} else {{ {' '.join(stmts(vars_, depth + 1))} }}")
            elif depth < 2 and r < 0.65:
                cases = " ".join(f"case {c}: {rng.choice(vars_)} += {expr(vars_, 2)}; break;" for c in sorted(rng.sample(range(0, 12), rng.randint(2, 4))))
                res.append(f"switch ({v}) {{ {cases} default: {v} = {expr(vars_, 1)}; break; }}")
            elif r < 0.75:
                res.append(f"g{rng.randrange(nglob)} = {expr(vars_, 1)};")
            elif r < 0.85:
                res.append(f"arr[{v} & 3] = {expr(vars_, 1)};")
            else:
                res.append(f"{v} = {expr(vars_, 0)};")
        return res

    for k in range(nfun):
        np_ = rng.randint(1, 7)
        params = [(rng.choice(TYPES), f"p{i}") for i in range(np_)]
        locs = [(rng.choice(["int", "long", "int"]), f"v{i}") for i in range(rng.randint(1, 4))]
        vars_ = [n for _, n in params + locs]
        body = [f"{t} {n} = {rng.randint(0, 9)};" for t, n in locs] + stmts(vars_, 0) + [f"return {expr(vars_, 0)};"]
        out.append(f"{rng.choice(['int', 'long', 'int'])} f{k}({', '.join(t + ' ' + n for t, n in params)}) {{ {' '.join(body)} }}")
        funs.append((f"f{k}", np_))
    return "\n".join(out) + "\n"


def run_worker(repo, spec, hashseed, timeout=None):
    if timeout is None:     # every configuration has its own 45 s limit inside the worker
        timeout = 90 + 50 * len(spec["configs"])
    env = dict(os.environ, PYTHONHASHSEED=str(hashseed))
    try:
        p = subprocess.run([sys.executable, "-c", WORKER, str(repo)], input=json.dumps(spec), capture_output=True, text=True, env=env, timeout=timeout)
    except subprocess.TimeoutExpired:
        return {"_error": f"timeout after {timeout} s"}
    if p.returncode != 0:
        return {"_error": p.stderr[-400:]}
    return json.loads(p.stdout.strip().splitlines()[-1])


def src_id(source):
    return hashlib.sha1(source.encode()).hexdigest()[:10]


def determinism_search(ctx, sources, configs, seeds, workers=16):
    """sources: [(label, text)]; seeds: [(PYTHONHASHSEED, variant)].
    Returns {(label, srcid, 'arch:Olevel'): {(objhash, imghash): [seed/variant, ...]}}."""
    from harness import common
    jobs = []
    for label, text in sources:
        for hs, variant in seeds:
            jobs.append((label, text, hs, variant))
    results = {}
    with ThreadPoolExecutor(max_workers=workers) as ex:
        futs = [(j, ex.submit(run_worker, common.REPO, {"source": j[1], "configs": configs, "variant": j[3], "unrelated": UNRELATED}, j[2])) for j in jobs]
        for (label, text, hs, variant), fut in futs:
            r = fut.result()
            ctx.count("search_processes")
            if "_error" in r:
                ctx.count("search_worker_error")
                ctx.note(f"worker error for {label} seed {hs}: {r['_error'][-200:]}")
                continue
            for key, hv in r.items():
                if hv[0] == "slow":
                    ctx.count("search_config_too_slow")
                    continue
                results.setdefault((label, src_id(text), key), {}).setdefault(tuple(hv), []).append(f"{hs}/{variant}")
    return results


# --------------------------------------------------------------------------------------
# OrderedSet correspondence
# --------------------------------------------------------------------------------------
def fmt_list(xs):
    return "[" + ",".join(str(x) for x in xs) + "]"


def gen_history(rng, n):
    uni = rng.choice([3, 5, 8, 12])
    ops = []

    def lst():
        return [rng.randrange(uni + 2) for _ in range(rng.randint(0, 6))]

    for _ in range(n):
        r = rng.random()
        v = rng.randrange(uni)
        if r < 0.35:
            ops.append(f"a{v}")
        elif r < 0.55:
            ops.append(f"d{v}")
        elif r < 0.62:
            ops.append(f"r{v}")
        elif r < 0.70:
            ops.append("p")
        elif r < 0.73:
            ops.append("c")
        elif r < 0.80:
            ops.append("|" + fmt_list(lst()))
        elif r < 0.85:
            ops.append("&" + fmt_list(lst()))
        elif r < 0.90:
            ops.append("-" + fmt_list(lst()))
        elif r < 0.94:
            ops.append("^" + fmt_list(lst()))
        elif r < 0.97:
            ops.append(rng.choice(["|s", "&s", "-s", "^s"]))
        else:
            ops.append("i" + fmt_list(lst()))
    q = [rng.randrange(uni + 3) for _ in range(rng.randint(0, 6))]
    return ops, q


def parse_list(txt):
    return [int(x) for x in txt[1:-1].split(",")] if len(txt) > 2 else []


def run_real(ops, q):
    """The same history on the real class; returns (model-format line, per-op (raised, list))."""
    from ppci.utils.collections import OrderedSet
    s = OrderedSet()
    outs, states = [], []
    for op in ops:
        raised = False
        try:
            k, arg = op[0], op[1:]
            if k == "a":
                s.add(int(arg))
            elif k == "d":
                s.discard(int(arg))
            elif k == "r":
                s.remove(int(arg))
            elif k == "p":
                s.pop()
            elif k == "c":
                s.clear()
            elif k == "i":
                s = OrderedSet(parse_list(arg))
            else:
                other = s if arg == "s" else parse_list(arg)
                if k == "|":
                    s |= other
                elif k == "&":
                    s &= other
                elif k == "-":
                    s -= other
                elif k == "^":
                    s ^= other
        except KeyError:
            raised = True
        cur = list(s)
        outs.append(("K" if raised else "-") + fmt_list(cur) + str(len(s)))
        states.append((raised, cur, len(s)))
    n = len(list(s))
    gets = ["N" if s[i] is None else str(s[i]) for i in range(-1, n + 2)]
    has = ["t" if v in s else "f" for v in q]
    line = (" ".join(outs) + " | rev" + fmt_list(list(reversed(s))) + " get[" + ",".join(gets) + "]" + " has[" + ",".join(has) + "]"
            + " or" + fmt_list(list(s | q)) + " and" + fmt_list(list(s & q)) + " sub" + fmt_list(list(s - q)) + " xor" + fmt_list(list(s ^ q)) + f" n{n}")
    return line, states


CORPUS_HISTORIES = [
    ([], []),
    (["a3", "a1", "a3", "d1", "a1", "p", "r9", "|[5,6,5]", "^[6,7]", "&s", "-[3]"], [1, 5, 9]),
    (["p"], [0]),
    (["r0"], [0]),
    (["a1", "a2", "a3", "d2", "a2", "d1", "a1"], [1, 2, 3]),
    (["i[4,4,2,4,1]", "^[4,4,7]", "&[7,2,9]", "|s", "-s", "p"], [7]),
    (["a1", "c", "c", "a1", "^s", "a2", "-[2,2]", "&[]"], []),
    (["|[1,2,3,4,5,6]", "&[6,5,9,1]", "^[1,1,8]", "-[8]", "p", "p", "p", "p"], [5, 6]),
]


def check_orderedset(ctx):
    rng = ctx.rng
    hists = list(CORPUS_HISTORIES)
    for _ in range(3000 if ctx.thorough else 300):
        hists.append(gen_history(rng, rng.randint(1, 60)))
    reqs = []
    for ops, q in hists:
        reqs.append("hist " + " ".join(ops) + " ? " + fmt_list(q))
        reqs.append("spec " + " ".join(ops))
    out = ctx.driver("C30", reqs)
    import signal

    class Hang(Exception):
        pass

    def on_alarm(signum, frame):
        raise Hang()

    old_handler = signal.signal(signal.SIGALRM, on_alarm)
    hangs = 0
    for k, (ops, q) in enumerate(hists):
        m, sp = out[2 * k], out[2 * k + 1]
        if hangs >= 3:          # a corrupted list makes every further history spin: enough evidence
            break
        signal.setitimer(signal.ITIMER_REAL, 5.0)
        try:
            real_line, states = run_real(ops, q)
        except Hang:
            hangs += 1
            ctx.fail("orderedset:does-not-terminate", f"history {' '.join(ops)} ? {q}: the real OrderedSet did not finish within 5 s "
                     "(the model proves iteration terminates for every history)", ops)
            continue
        finally:
            signal.setitimer(signal.ITIMER_REAL, 0)
        ctx.count("eval_history")
        ctx.count("eval_ops", len(ops))
        if m != "ok " + real_line:
            ctx.disagree("orderedset-history", reqs[2 * k][:300], real_line[:400], m[:400])
        # the property of the sliver on the real class, oracle = Spec.OrderedSet through the driver
        spec_states = sp[3:].split(" ") if len(sp) > 3 else []
        if sp[:2] != "ok" or len(spec_states) != len(states):
            ctx.disagree("orderedset-spec-line", reqs[2 * k + 1][:300], str(len(states)), sp[:200])
            continue
        hit_discard = reinsert = keyerr = False
        for i, ((raised, cur, ln), ss) in enumerate(zip(states, spec_states)):
            want_raise, want = ss[0] == "K", parse_list(ss[1:])
            if cur != want:
                ctx.fail("orderedset:iteration-order", f"after {' '.join(ops[:i + 1])}: list(s) = {cur}, insertion-ordered list = {want}", ops[:i + 1])
                break
            if raised != want_raise:
                ctx.fail("orderedset:keyerror", f"after {' '.join(ops[:i + 1])}: raised={raised}, expected {want_raise}", ops[:i + 1])
                break
            if len(set(cur)) != len(cur) or ln != len(cur):
                ctx.fail("orderedset:set-view", f"after {' '.join(ops[:i + 1])}: list(s) = {cur}, len(s) = {ln}", ops[:i + 1])
                break
            keyerr |= raised
        if keyerr or any(o[0] in "dr-&^pc" for o in ops) and any(o[0] in "a|i" for o in ops[1:]):
            ctx.nontrivial(("hist", " ".join(ops)))
    signal.signal(signal.SIGALRM, old_handler)
    ctx.sample({"request": reqs[2], "model": out[2], "spec": out[3]})


# --------------------------------------------------------------------------------------
# the check
# --------------------------------------------------------------------------------------
QUICK_CONFIGS = [[a, o] for a in ("arm", "riscv", "x86_64") for o in (0, 2)]
THOROUGH_CONFIGS = QUICK_CONFIGS + [[a, 1] for a in ("arm", "riscv", "x86_64")] + [[a, 2] for a in ("arm:thumb", "riscv:rvc", "or1k", "microblaze")]


def check(ctx):
    check_orderedset(ctx)
    if ctx.failures:
        # the compiler itself is built on OrderedSet: with a misbehaving class the recompilation
        # would hang or crash in every worker and add nothing to the failing inputs already found
        ctx.note("determinism search skipped: OrderedSet itself fails its property")
        ctx.extra_cov["determinism_search"] = {"role": "skipped (OrderedSet failures found first)"}
        return

    # ---- failing-input search for process-level determinism (NOT part of the proof) ----
    rng = ctx.rng
    fixed = FIXED_SOURCES if ctx.thorough else FIXED_SOURCES[:3]     # quick: known, min-mix, dag-order
    sources = list(fixed) + [(f"gen{i}", gen_source(rng)) for i in range(6 if ctx.thorough else 1)]
    configs = THOROUGH_CONFIGS if ctx.thorough else QUICK_CONFIGS
    if ctx.thorough:
        seeds = [(hs, v) for hs in range(4) for v in ("fresh", "after-unrelated")]
    else:   # 5 processes per source: two seeds fresh, the first seed again after other work, two more seeds
        seeds = [(0, "fresh"), (1, "fresh"), (0, "after-unrelated"), (2, "after-unrelated"), (3, "fresh")]
    res = determinism_search(ctx, sources, configs, seeds)
    texts = dict(sources)
    compiled = 0
    for (label, sid, key), variants in sorted(res.items()):
        ctx.count("eval_determinism_triple")
        hv = list(variants)
        if all(h[0].startswith("raise-") for h in hv):
            ctx.count("search_target_cannot_compile")     # consistently refuses: no information
            if len(hv) > 1:
                ctx.fail(f"nondet-error:{sid}:{key}", f"{label} for {key}: different exceptions in different processes: {sorted(h[0] for h in hv)}", {"source": texts[label], "config": key})
            continue
        compiled += 1
        ctx.nontrivial(("triple", sid, key))
        if len(hv) > 1:
            objs = {h[0] for h in hv}
            what = "object files" if len(objs) > 1 else "linked images"
            ctx.fail(f"nondet:{sid}:{key}", f"{label} ({sid}) for {key}: {len(hv)} different {what} over PYTHONHASHSEED/process variants "
                     f"{ {h[0][:8]: v[:3] for h, v in variants.items()} }", {"source": texts[label], "config": key, "processes": [f"{hs}/{v}" for hs, v in seeds]})
    ctx.extra_cov["exhaustive"] = False
    ctx.extra_cov["determinism_search"] = {
        "role": "failing-input search only; a clean search is not evidence of determinism",
        "sources": [f"{l}:{src_id(t)}" for l, t in sources], "configs": [f"{a}:O{o}" for a, o in configs],
        "processes_per_source": [f"PYTHONHASHSEED={hs}/{v}" for hs, v in seeds],
        "variants": {"fresh": "target compiled first in a new process", "after-unrelated": "an unrelated module is compiled first and the configurations are taken in reverse order"},
        "triples_compiled": compiled, "triples_total": len(res),
    }
    ctx.sample({"determinism_triples_compiled": compiled, "of": len(res), "seeds": seeds})


def replay(ctx, rp):
    check(ctx)
