"""C09 — assembling an instruction's printed form reproduces its encoding.

regen: translate/c09_tables.py -> lean/PpciVerif/Gen/Asm_<key>.lean (syntaxes, register names, keywords,
       generated grammar with priorities and a ranking, for each of the 17 assembler configurations)
check: (a) the property itself on the REAL assembler for every generated instance: print -> ppci.api.asm ->
           compare section bytes and relocations with direct emission of the instance; tie-breaks of the Earley
           parser are explored by permuting equal-priority candidates (what another PYTHONHASHSEED does);
       (b) correspondence of the Lean models with the real code on the same instances: Syntax.render text,
           AsmLexer tokens and token types, and the Lean enumeration of ALL parses evaluated with the real
           grammar actions (the real assembler's result must be among them).
"""
import binascii
import collections
import json
import random

from harness import common
from harness import c09_engine as E
from translate import c09_tables as T

PROP = "C09"
LEAN_PROPS = "PpciVerif/Props/C09.lean"
LEAN_TARGETS = ["PpciVerif.Props.C09", "Drivers.C09"]
LEVEL = "proof"
LEVEL_TEXT = (
    "Lean theorems, partial (P). (1) For every instruction class with a syntax of all 17 assembler configurations ppci can build "
    "(13 targets + thumb, rvc, rvf, rvfx, x87), for every choice of operand constructors and for ALL operand values (any register of the "
    "operand's class, any integer incl. negatives, any identifier as label): the text Syntax.render prints lexes, in the model of "
    "AsmLexer (ordered regex alternatives, maximal munch per class, REAL/0x/0b/% pitfalls), to exactly the token list the generated "
    "grammar rule is built from. Hypothesis = the decidable `wellSpaced`, decided by the kernel on the table regenerated from the live "
    "classes on every run. (2) The Lean enumerator of derivations of the dumped grammar is sound and complete (exactly the derivation "
    "trees of depth <= fuel); 15 of 17 grammars are recursion free (kernel-checked ranking) so ALL derivations are returned; Lean-proved "
    "witnesses that x86_64, msp430 and rvc printed forms have two derivations. NOT proved: that ppci's Earley parser returns one of the "
    "derivations and resolves priorities as documented, and that a derivation encodes to the instance's bytes - both are evaluated on "
    "the real code for every generated instance on every run (failures = known findings / violations).")
LEVEL_NOTE = (
    "trusted: Lean kernel; the T2 dump translate/c09_tables.py (reads Syntax.syntax, Operand._cls, Register names, lexer.kws, "
    "parser.g.productions from live objects); hand models Model.AsmLex (AsmLexer/BaseLexer regex, ASCII only) and Model.AsmSyn "
    "(Syntax.render, str(int), str(register)) tied by differential run on every instance + a lexer fuzz corpus; register-set operands "
    "(arm/thumb push/pop) are outside theorem (1); arm/thumb grammars are left recursive: enumerator complete up to depth 12 only; "
    "the Earley parser itself, its priority resolution and hash-seed dependent tie-breaks are observed, not modelled.")
TECHNIQUE = ("Lean 4 proof (lexeme-chain induction over a hand model of the lexer; mutual structural induction over derivation trees) + "
             "kernel-decided conditions on tables regenerated from live ppci objects + differential run of the real assembler")
RULE = ("instances: every instruction class with a syntax of every configuration x every combination of operand constructors "
        "(quick: <=10 per class by stride sampling, thorough: <=48) x systematic operand tuples (registers cycle through the whole class, "
        "integers through 49 boundary values incl. negatives, 8 label spellings incl. a capitalised mnemonic) + a BOUNDARY pass: every "
        "integer operand, also inside nested constructor operands (shifts, addressing modes, immediates), takes 0, 1, -1, the largest and "
        "smallest value ppci encodes there (probed through 2^k, 2^k-1, -2^k) and a random one, for every sampled constructor combination "
        "(quick: all classes of arm/thumb/x86_64/riscv and a seed-rotated third of the others; thorough: all) + seeded random tuples; "
        "thorough: every register of every register operand appears; + a MUTATION pass: print, change every operand in place "
        "(replace_register / assignment, nested operands on the nested object) to the values of another instance, print again: the text "
        "must be that of a fresh instance with the new operands, printing twice must agree (quick 6, thorough 24 pairs per class x 2 "
        "modes). The text is always str() of the LIVE object. An instance counts only "
        "if ppci can encode it directly. distinct = distinct (configuration, printed text); non-trivial = instance with a negative "
        "integer, a label, a nested constructor operand, more than one derivation, or a failing outcome")
TRUSTED = [
    "translate/c09_tables.py (T2 dump of syntaxes, register names, keywords, grammar productions and priorities)",
    "hand models Model.AsmLex / Model.AsmSyn / Model.AsmParse (tied by differential run on every check)",
    "ppci's Earley parser: only observed (its result must be among the Lean-enumerated derivations; tie-breaks explored by permutation)",
]
ASSUMPTIONS = [
    "printed instructions are ASCII (Python's \\d also matches other Unicode digits)",
    "an instance is in scope iff ppci encodes it directly without raising (operand ranges are C10's subject)",
    "labels are identifiers [A-Za-z_][A-Za-z0-9_]*",
    "equal-priority Earley candidates may be chosen in any order (set iteration order depends on PYTHONHASHSEED)",
]
CHECK_WITHOUT_BUILD = True      # a broken proof still gets the failing-input search on the real assembler

VARIANT_OF = {"x87": "x86_64", "rvc": "riscv", "rvf": "riscv", "rvfx": "riscv"}


def regen(ctx):
    cfgs, changed = T.regen()
    ctx.c09_cfgs = cfgs
    if changed:
        ctx.note("regenerated " + ", ".join(changed))


def get_cfgs(ctx):
    if getattr(ctx, "c09_cfgs", None) is None:
        ctx.c09_cfgs = {k: T.Config(k) for k, _t, _o in T.CONFIGS}
    return ctx.c09_cfgs


# ----------------------------------------------------------------------------------------
# instance <-> JSON (for known-finding inputs and replays)


def spec_to_json(cfg, spec):
    from ppci.arch.registers import Register
    args = []
    for a in spec.args:
        if isinstance(a, E.Spec):
            args.append(spec_to_json(cfg, a))
        elif isinstance(a, Register):
            args.append({"reg": str(a)})
        elif isinstance(a, set):
            args.append({"set": sorted(str(r) for r in a)})
        elif isinstance(a, int):
            args.append({"int": a})
        else:
            args.append({"label": a})
    return {"cls": cfg.name_of[spec.cls], "args": args}


def spec_from_json(cfg, js, cls=None):
    cls = cls or cfg.class_of[js["cls"]]
    args = []
    for op, a in zip(cls.syntax.formal_arguments, js["args"]):
        kd = T.operand_kind(op)
        if "cls" in a:
            sub = [c for c in kd[1] if cfg.name_of[c] == a["cls"]][0]
            args.append(spec_from_json(cfg, a, sub))
        elif "reg" in a:
            args.append([r for r in kd[1].all_registers() if str(r) == a["reg"]][0])
        elif "set" in a:
            from ppci.arch.arm.registers import ArmRegister
            regs = [r for r in ArmRegister.all_registers() if str(r) in a["set"]]
            args.append(op._cls(regs))
        elif "int" in a:
            args.append(a["int"])
        else:
            args.append(a["label"])
    return E.Spec(cls, args)


# ----------------------------------------------------------------------------------------
# driver encoding


def hx(s):
    return binascii.hexlify(s.encode("utf-8")).decode("ascii") if s else "-"


def show_real_tok(t):
    """canonical form of a real lexer token, same alphabet as the driver's showTok"""
    if t.typ == "NUMBER":
        return f"N{t.val}"
    if t.typ == "REAL":
        return "R?"          # value is a float: compared by typ only
    if t.typ == "STRING":
        return "S" + hx(t.val)
    if len(t.typ) == 1 and t.typ == t.val and not (t.val.isalnum() or t.val == "_"):
        return "G" + hx(t.val)
    return "I" + hx(t.val)


def canon_model_toks(words):
    return ["R?" if w.startswith("R") else w for w in words]


def real_lex(cfg, text):
    from ppci.common import CompilerError
    try:
        toks = list(cfg.asm.lexer.tokenize(text))
    except CompilerError:
        return None
    return toks


def inst_vals(cfg, inst):
    """(constructor choices, operand values as driver words) of a BUILT instance, in the order the syntax prints
    them (an operand that occurs twice in a syntax is printed twice); None if an operand kind is not modelled"""
    from ppci.arch.registers import Register
    from ppci.arch.encoding import Operand, Constructor
    choices, vals = [], []
    for e in inst.syntax.syntax:
        if not isinstance(e, Operand):
            continue
        v = e.__get__(inst)
        kd = T.operand_kind(e)
        if kd[0] == "cons":
            if type(v) not in kd[1]:
                return None
            choices.append(kd[1].index(type(v)))
            sub = inst_vals(cfg, v)
            if sub is None:
                return None
            choices.extend(sub[0])
            vals.extend(sub[1])
        elif isinstance(v, Register):
            vals.append("r" + hx(str(v)))
        elif isinstance(v, bool) or not isinstance(v, (int, str)):
            return None
        elif isinstance(v, int):
            vals.append(f"i{v}")
        else:
            vals.append("l" + hx(v))
    return choices, vals


def parse_tree(s):
    """'(12 t (3 t))' -> [12, 't', [3, 't']]"""
    pos = 0

    def rd():
        nonlocal pos
        while s[pos] == " ":
            pos += 1
        if s[pos] == "t":
            pos += 1
            return "t"
        assert s[pos] == "("
        pos += 1
        j = pos
        while s[j] not in " )":
            j += 1
        node = [int(s[pos:j])]
        pos = j
        while True:
            while s[pos] == " ":
                pos += 1
            if s[pos] == ")":
                pos += 1
                return node
            node.append(rd())
    return rd()


def eval_tree(cfg, tree, toks):
    """evaluate a derivation with the REAL grammar actions; toks = real tokens consumed left to right"""
    it = iter(toks)

    def ev(n):
        if n == "t":
            return next(it)
        p = cfg.productions[n[0]]
        args = [ev(k) for k in n[1:]]
        return p.f(*args) if p.f else None
    return ev(tree)


# ----------------------------------------------------------------------------------------


class Plan:
    def __init__(self, thorough):
        self.cap = 48 if thorough else 10
        self.n_extra = 6 if thorough else 1          # systematic instances beyond one per skeleton
        self.n_rand = 6 if thorough else 1
        self.all_regs = thorough
        self.variant_base = 2 if thorough else 1     # systematic instances for base-ISA classes in variant configs
        self.parse_every = 1 if thorough else 3      # Lean parse enumeration for every k-th instance
        self.mut_pairs = 24 if thorough else 6       # print -> mutate in place -> print sequences per class (x 2 modes)


BOUND_FIXED = [0, 1, -1]
BOUND_MAX = [0xFFFFFFFF, 0x7FFFFFFF, 65536, 65535, 32768, 32767, 4096, 4095, 2048, 2047, 1024, 1023, 256, 255, 128, 127, 64, 63,
             32, 31, 16, 15, 8, 7, 4, 3, 2]
BOUND_MIN = [-0x80000000, -32769, -32768, -2049, -2048, -257, -256, -129, -128, -64, -32, -16, -8, -4, -2]
FULL_BOUNDARY = ("arm", "thumb", "x86_64", "riscv")       # quick tier: boundary pass for every class of these


def int_paths(spec, prefix=()):
    """paths (argument indices) of every integer operand, also inside nested constructor operands"""
    out = []
    for i, a in enumerate(spec.args):
        if isinstance(a, E.Spec):
            out.extend(int_paths(a, prefix + (i,)))
        elif isinstance(a, int) and not isinstance(a, bool):
            out.append(prefix + (i,))
    return out


def with_int(spec, path, v):
    args = list(spec.args)
    if len(path) == 1:
        args[path[0]] = v
    else:
        args[path[0]] = with_int(args[path[0]], path[1:], v)
    return E.Spec(spec.cls, args)


def boundary_instances(cfg, gen, base, rng, small):
    """for every integer operand of `base` (nested ones too): 0, 1, -1, the largest and the smallest value ppci
    encodes (probed downwards through powers of two +-1) and one random encodable value; other operands as in base"""
    out = []
    for path in int_paths(base):
        vals = []
        for v in BOUND_FIXED:
            if gen.encodable(with_int(base, path, v)):
                vals.append(v)
        for pool in ((BOUND_MAX, BOUND_MIN) if not small else ([300, 255, 16], [])):
            for v in pool:
                if gen.encodable(with_int(base, path, v)):
                    vals.append(v)
                    break
        for _ in range(6):
            v = rng.randint(0, 300) if small else rng.choice([rng.randint(-40, 40), rng.randint(-5000, 5000), rng.randint(-70000, 70000)])
            if gen.encodable(with_int(base, path, v)):
                vals.append(v)
                break
        for v in vals:
            out.append(with_int(base, path, v))
    return out


def class_instances(cfg, gen, cls, plan, rng, reduced, boundary=True):
    """instances of one class: systematic (seed independent) then seeded random"""
    from ppci.arch.registers import Register
    small = E.size_by_value(cls)
    sks = gen.skeletons(cls, plan.cap)
    nreg = 0
    for op in cls.syntax.formal_arguments:
        kd = T.operand_kind(op)
        if kd[0] == "reg":
            nreg = max(nreg, len(list(kd[1].all_registers())))
    if reduced:
        n_sys = max(plan.variant_base, min(len(sks), 4))
        n_rand = 0
    else:
        n_sys = max(len(sks) + plan.n_extra, nreg if plan.all_regs else 0, 3)
        n_rand = plan.n_rand
    out, seen, fails = [], set(), 0
    srng = random.Random(f"{cfg.key}:{cfg.name_of[cls]}")
    bases = {}
    for j in range(n_sys):
        sk = sks[j % len(sks)]
        for attempt in range(len(E.INTS) + 1):          # walk through the whole integer pool until ppci can encode it
            try:
                s = gen.spec(cls, sk, srng, small, j, 0, attempt)
            except Exception:  # noqa
                fails += 1
                continue
            key = repr(s.describe(cfg))
            if key in seen:
                continue
            if gen.encodable(s):
                seen.add(key)
                out.append(s)
                bases.setdefault(j % len(sks), s)
                break
            fails += 1
    # boundary pass: every integer operand (nested constructor operands included) of every sampled constructor
    # combination takes 0, 1, -1, its extreme encodable values and a random one
    if boundary and not reduced:
        for _k, base in sorted(bases.items()):
            for s in boundary_instances(cfg, gen, base, rng, small):
                key = repr(s.describe(cfg))
                if key not in seen:
                    seen.add(key)
                    out.append(s)
    tries = 0
    want = len(out) + n_rand
    while len(out) < want and tries < 8 * n_rand:
        tries += 1
        try:
            s = gen.spec(cls, rng.choice(sks), rng, small, None)
        except Exception:  # noqa
            fails += 1
            continue
        key = repr(s.describe(cfg))
        if key in seen:
            continue
        if gen.encodable(s):
            seen.add(key)
            out.append(s)
        else:
            fails += 1
    return out, fails


def rebuild(obj):
    """a FRESH instance with the operand values `obj` has now (read through the operand descriptors)"""
    from ppci.arch.encoding import Constructor
    args = []
    for farg in obj.syntax.formal_arguments:
        v = farg.__get__(obj)
        if isinstance(v, Constructor):
            v = rebuild(v)
        elif isinstance(v, set):
            v = type(v)(v)
        args.append(v)
    return type(obj)(*args)


def mutate_to(top, obj, spec, mode):
    """change the operands of `obj` IN PLACE to those of `spec` (same class): registers through
    Instruction.replace_register (mode 'replace', what the register allocator's spill rewrite does) or by assignment,
    immediates / labels / whole sub-constructors by assignment on the object that owns the operand"""
    from ppci.arch.registers import Register
    for farg, a in zip(obj.syntax.formal_arguments, spec.args):
        cur = farg.__get__(obj)
        if isinstance(a, E.Spec):
            if type(cur) is a.cls:
                mutate_to(top, cur, a, mode)
            else:
                setattr(obj, farg._name, a.build())
        elif isinstance(a, Register):
            if cur is a:
                continue
            if mode == "replace":
                top.replace_register(cur, a)
            else:
                setattr(obj, farg._name, a)
        elif isinstance(a, set):
            setattr(obj, farg._name, type(a)(a))
        else:
            if cur != a:
                setattr(obj, farg._name, a)


def mutation_pass(ctx, cfg, cls, insts, ties, limit):
    """print -> mutate in place -> print: the second text must be the text of a fresh instance with the new
    operands (and so assemble to the mutated instance's encoding); printing twice must give the same text"""
    pr = cfg.arch.asm_printer.print_instruction
    name = cfg.name_of[cls]
    by_sk = collections.OrderedDict()
    for s in insts:
        by_sk.setdefault(repr(s.skeleton(cfg)), []).append(s)
    pairs = []
    for group in by_sk.values():
        for a, b in zip(group, group[1:] + group[:1]):
            if a is not b:
                pairs.append((a, b))
    # nested-constructor classes first, then spread over the constructor combinations
    step = max(1, len(pairs) // limit)
    pairs = pairs[::step][:limit]
    for a, b in pairs:
        for mode in ("assign", "replace"):
            try:
                i = a.build()
                s1 = pr(i)
                s1b = pr(i)
                mutate_to(i, i, b, mode)
                s2 = pr(i)
                s2b = pr(i)
                fresh = rebuild(i)
                want = pr(fresh)
            except Exception as e:  # noqa  (an in-place change ppci refuses: not an instance)
                ctx.count("mutation_not_applicable")
                continue
            ctx.count("eval_mutation")
            case = {"config": cfg.key, "instance": spec_to_json(cfg, a), "mutate_to": spec_to_json(cfg, b), "mode": mode}
            if s1b != s1 or s2b != s2:
                ctx.fail(f"{cfg.key}:{name}:print-not-idempotent", f"{cfg.key}: {name} prints '{s1}' then '{s1b}' / '{s2}' then '{s2b}'", case)
            if s2 != want:
                detail = {}
                try:
                    detail["direct_of_mutated"] = E.direct_view(cfg.arch, rebuild(i))
                    detail["assembled_stale_text"] = list(E.assemble(cfg.arch, s2))
                except Exception as e:  # noqa
                    detail["error"] = type(e).__name__
                ctx.nontrivial((cfg.key, "mut", s1, s2))
                ctx.fail(f"{cfg.key}:{name}:stale-text-after-mutation",
                         f"{cfg.key}: {name} printed '{s1}', operands changed in place ({mode}) to those of '{want}', but it still prints "
                         f"'{s2}' (assembles to {detail.get('assembled_stale_text')}, the instance encodes to {detail.get('direct_of_mutated')})",
                         case, first_text=s1, second_text=s2, expected_text=want, **detail)


LEXER_CORPUS = [
    "", " ", "mov r1, r2", "mov r1,r2", "sdivR0,R1", "bkpt2", "1.5", "1.", ".5", "1.5.2", "%10", "%2", "% 1", "%", "0x1F", "0x", "0xg",
    "0b101", "0b2", "0b", "$ff", "$", "12abc", "abc12", "a_b", "_", "__x", "0", "00", "007", "1-2", "--5", "-0x10", "a:b", "r1:r0",
    "[rax, -100]", "#-1", "'str'", "'a' 'b'", "'unterminated", "; comment", "x ; y", "a\tb", "a  b", "@&#=,.:()[]{}+-*%", "!", "a!b", "~",
    "ADD R1", "Add", "x0", "0x0b1", "0b1x", "1e5", "1.e", "1.5e3", "9999999999999999999999", "%101%", "$1g", "a$b", "a.b.c", "sub.w #-1, 4(r5)",
]


def lexer_fuzz(rng, n):
    alpha = list("0123456789") * 2 + list("abxfABXFrR_") + list("@&#=,.:()[]{}+-*%") * 2 + list(" \t;$'!") + ["0x", "0b", "1.5", "%1"]
    out = []
    for _ in range(n):
        out.append("".join(rng.choice(alpha) for _ in range(rng.randint(1, 10))))
    return out


def check(ctx):
    E.quiet()
    cfgs = get_cfgs(ctx)
    plan = Plan(ctx.thorough)
    ties = E.Ties()
    ties.install()
    use_driver = ctx.build_ok is not False
    if not use_driver:                       # a proof broke: the driver (models only) may still build
        use_driver = ctx.lake_build(["Drivers.C09"])[0]
    try:
        _check(ctx, cfgs, plan, ties, use_driver)
    finally:
        ties.uninstall()


def _check(ctx, cfgs, plan, ties, use_driver):
    known = {f["signature"]: f for f in ctx.known_findings("open")}
    failed_sigs = set()
    records = []          # (cfg, spec, result) for the model correspondence

    def report(cfg, cls, spec, res, origin):
        kind = res["kind"]
        name = cfg.name_of[cls]
        sig = f"{cfg.key}:{name}:{kind}"
        base = VARIANT_OF.get(cfg.key)
        if base and cls in cfgs[base].name_of:
            bsig = f"{base}:{cfgs[base].name_of[cls]}:{kind}"
            if bsig in failed_sigs:
                ctx.count("dup_of_base_config")
                return                     # the same class fails the same way in the base configuration
        failed_sigs.add(sig)
        runs = [[k, st, v] for (k, st, v) in res["runs"]]
        ctx.fail(sig, f"{cfg.key}: '{res['text']}' ({name}) {kind}: direct {res['direct']} vs assembled {runs[0][1:]}"
                 + (f" / other tie-break {runs[1][1:]}" if len(runs) > 1 else ""),
                 {"config": cfg.key, "instance": spec_to_json(cfg, spec)}, text=res["text"], direct=res["direct"], runs=runs,
                 origin=origin)

    def run_one(cfg, cls, spec, origin):
        res = E.evaluate(cfg, spec, ties)
        if res["kind"] == "not-encodable":
            ctx.count("skipped_not_encodable")
            return None
        ctx.count("eval_property")
        ctx.count("outcome_" + str(res["kind"] or "holds"))
        if res["ties"] > 1:
            ctx.count("instances_with_tie")
        vals = spec.leaf_values()
        if res["kind"] or any(isinstance(v, E.Spec) for v in spec.args) or any(
                (isinstance(v, int) and v < 0) or isinstance(v, str) for v in vals):
            ctx.nontrivial((cfg.key, res["text"]))
        if res["kind"]:
            report(cfg, cls, spec, res, origin)
        records.append((cfg, cls, spec, res))
        return res

    import time as _time
    _tp = _time.time()
    # ---- 1. corpus: the inputs of the known findings, always first ----------------------------
    for sig, f in known.items():
        inp = f.get("input") or {}
        try:
            cfg = cfgs[inp["config"]]
            spec = spec_from_json(cfg, inp["instance"])
        except Exception as e:  # noqa  (class renamed/removed: the finding cannot be replayed)
            ctx.note(f"known finding {sig}: input no longer constructible ({type(e).__name__})")
            continue
        run_one(cfg, spec.cls, spec, "known-finding-input")

    # ---- 2. every class of every configuration --------------------------------------------------
    per_cfg = {}
    for key, cfg in cfgs.items():
        gen = E.Gen(cfg)
        base = VARIANT_OF.get(key)
        c = collections.Counter()
        for cls in cfg.instructions:
            reduced = bool(base and cls in cfgs[base].name_of)
            ci = c["classes"]
            # quick tier: boundary pass for every class of arm/thumb/x86_64/riscv, elsewhere for a seed-rotated third
            boundary = ctx.thorough or key in FULL_BOUNDARY or (ci + ctx.seed) % 3 == 0
            insts, fails = class_instances(cfg, gen, cls, plan, ctx.rng, reduced, boundary)
            c["classes"] += 1
            c["not_encodable_candidates"] += fails
            if not insts:
                c["classes_without_instance"] += 1
                ctx.count("classes_without_encodable_instance")
            for s in insts:
                r = run_one(cfg, cls, s, "generated")
                if r is not None:
                    c["instances"] += 1
            if not reduced:
                mutation_pass(ctx, cfg, cls, insts, ties, plan.mut_pairs)
        per_cfg[key] = dict(c)
        ctx.count("classes", c["classes"])
    ctx.extra_cov["per_configuration"] = per_cfg
    for (cfg, cls, spec, res) in records[:: max(1, len(records) // 6)][:6]:
        ctx.sample({"config": cfg.key, "text": res["text"], "direct": res["direct"], "assembled": res["runs"][0][1:], "kind": res["kind"]})

    ctx.extra_cov["property_seconds"] = round(_time.time() - _tp, 1)
    if not use_driver:
        ctx.note("Lean driver does not build: model correspondence skipped, property evaluated on the real assembler only")
        return

    # ---- 3. correspondence of the models on the same instances -------------------------------
    reqs, meta = [], []
    for key in cfgs:
        reqs.append(f"spaced {key}"); meta.append(("spaced", key))
        reqs.append(f"ranked {key}"); meta.append(("ranked", key))
    lex_texts = list(LEXER_CORPUS) + lexer_fuzz(ctx.rng, 4000 if ctx.thorough else 600)
    anycfg = cfgs["x86_64"]
    for t in lex_texts:
        reqs.append(f"lex {hx(t)}"); meta.append(("lex", t))
    seen_text = set()
    for idx, (cfg, cls, spec, res) in enumerate(records):
        tk = (cfg.key, res["text"])
        if tk in seen_text:
            continue
        seen_text.add(tk)
        text = res["text"]
        toks = real_lex(cfg, text)
        reqs.append(f"typs {cfg.key} {hx(text)}"); meta.append(("typs", cfg, text, toks))
        cv = inst_vals(cfg, spec.build())
        if cv is not None:
            ch = "[" + ",".join(str(i) for i in cv[0]) + "]"
            reqs.append(f"render {cfg.key} {hx(cfg.name_of[cls])} {ch} " + " ".join(cv[1]))
            meta.append(("render", cfg, cls, spec, text, toks))
        if toks is not None and toks and (idx % plan.parse_every == 0 or res["kind"]):
            reqs.append(f"parse {cfg.key} " + ",".join(hx(t.typ) for t in toks))
            meta.append(("parse", cfg, cls, spec, res, toks))
    import time as _time
    _t0 = _time.time()
    replies = ctx.driver("C09", reqs)
    ctx.extra_cov["driver_seconds"] = round(_time.time() - _t0, 1)
    ctx.extra_cov["driver_requests"] = len(reqs)

    multi = collections.Counter()
    for rq, mt, rp in zip(reqs, meta, replies):
        what = mt[0]
        if what == "spaced":
            ctx.count("eval_table_spaced")
            if not rp.startswith("ok 1 "):
                bad = [binascii.unhexlify(h).decode() for h in rp.split("bad=")[1].split(" ")[0].split(",") if h] if "bad=" in rp else []
                ctx.disagree("wellSpaced-table", mt[1], "expected every syntax well spaced", rp[:200] + " " + ",".join(bad))
        elif what == "ranked":
            ctx.count("eval_table_ranked")
            exp = "ok 0 12" if mt[1] in ("arm", "thumb") else "ok 1 "
            if not rp.startswith(exp):
                ctx.disagree("ranked-table", mt[1], exp, rp)
        elif what == "lex":
            ctx.count("eval_lex")
            toks = real_lex(anycfg, mt[1])
            impl = "err CompilerError" if toks is None else ("ok " + " ".join(show_real_tok(t) for t in toks)).rstrip()
            model = rp if rp.startswith("err") else ("ok " + " ".join(canon_model_toks(rp.split()[1:]))).rstrip()
            if toks is None or len(toks) != 1:
                ctx.nontrivial(("lex", mt[1]))
            if impl.rstrip() != model.rstrip():
                ctx.disagree("lex", mt[1], impl, model)
        elif what == "typs":
            ctx.count("eval_typs")
            _w, cfg, text, toks = mt
            impl = "err CompilerError" if toks is None else ("ok " + " ".join(hx(t.typ) for t in toks)).rstrip()
            if impl != rp.rstrip():
                ctx.disagree("typs", [cfg.key, text], impl, rp)
        elif what == "render":
            ctx.count("eval_render")
            _w, cfg, cls, spec, text, toks = mt
            if not rp.startswith("ok "):
                ctx.disagree("render", [cfg.key, text], text, rp)
                continue
            head, _, tokpart = rp[3:].partition(" | ")
            thex, spaced, fits = head.split()
            mtext = binascii.unhexlify(thex).decode() if thex != "-" else ""
            if mtext != text:
                ctx.disagree("render-text", [cfg.key, cfg.name_of[cls]], text, mtext)
            impl_t = None if toks is None else [show_real_tok(t) for t in toks]
            model_t = canon_model_toks(tokpart.split())
            if spaced == "1" and fits == "1":
                ctx.count("eval_theorem1_instances")
                if impl_t != model_t:
                    # the theorem's conclusion, checked against the REAL lexer
                    ctx.disagree("render-tokens", [cfg.key, text], impl_t, model_t)
            elif fits == "1":
                ctx.count("not_well_spaced_instances")
        elif what == "parse":
            ctx.count("eval_parse")
            _w, cfg, cls, spec, res, toks = mt
            parts = rp.split(" ", 2)
            n = int(parts[1])
            trees = [parse_tree(t) for t in parts[2].split(";")] if n else []
            views = []
            for tr in trees:
                try:
                    obj = eval_tree(cfg, tr, toks)
                    views.append(E.direct_view(cfg.arch, obj))
                except Exception as e:  # noqa
                    views.append({"exception": type(e).__name__})
            distinct = []
            for v in views:
                if v not in distinct:
                    distinct.append(v)
            multi["1" if n == 1 else ("0" if n == 0 else ("n-same" if len(distinct) == 1 else "n-different"))] += 1
            if n > 1:
                ctx.nontrivial((cfg.key, res["text"]))
            # the real assembler's result (every tie-break we saw) must be one of the enumerated derivations
            for (k, st, v) in res["runs"]:
                if st == "ok" and v not in views:
                    ctx.disagree("parse-set", [cfg.key, res["text"]], v, views[:4])
                    break
                if st == "unparsable" and any("exception" not in v for v in views) and n:
                    # the grammar derives the line but the assembler rejected it
                    ctx.disagree("parse-set-reject", [cfg.key, res["text"]], "unparsable", views[:4])
                    break
            # if every derivation encodes like the instance, no tie-break can make the property fail
            if res["kind"] is None and n >= 1 and any(v != res["direct"] for v in views):
                ctx.count("holds_by_priority_only")
    ctx.extra_cov["derivations_per_printed_instance"] = dict(multi)
    ctx.extra_cov["exhaustive"] = False


def replay(ctx, rp):
    """re-run one failing input from a replay file on the real assembler"""
    E.quiet()
    cfgs = get_cfgs(ctx)
    ties = E.Ties()
    ties.install()
    try:
        case = rp.get("case") or {}
        try:
            cfg = cfgs[case["config"]]
            spec = spec_from_json(cfg, case["instance"])
            other = spec_from_json(cfg, case["mutate_to"]) if "mutate_to" in case else None
        except Exception as e:  # noqa  (the class of the replay does not exist in this tree)
            ctx.note(f"replay input is not constructible on this tree ({type(e).__name__}: {e})")
            return
        if other is not None:
            mutation_pass(ctx, cfg, spec.cls, [spec, other], ties, 2)
            return
        res = E.evaluate(cfg, spec, ties)
        ctx.count("eval_property")
        if res["kind"] and res["kind"] != "not-encodable":
            sig = f"{cfg.key}:{cfg.name_of[spec.cls]}:{res['kind']}"
            ctx.fail(sig, f"{cfg.key}: '{res['text']}' {res['kind']}", case, text=res["text"], direct=res["direct"],
                     runs=[[k, st, v] for (k, st, v) in res["runs"]])
    finally:
        ties.uninstall()


def explain(sig, f):
    """one line for findings/C09.json"""
    key, name, kind = sig.split(":")
    text, direct = f.get("text"), f.get("direct")
    runs = f.get("runs") or []
    d = (direct or {}).get("sections", {}).get("code")
    outs = []
    for (_k, st, v) in runs:
        o = st if st != "ok" else v["sections"].get("code") + ("" if v["relocs"] == (direct or {}).get("relocs") else " relocs " + json.dumps(v["relocs"]))
        if o not in outs:
            outs.append(o)
    if kind == "ambiguous":
        return (f"{key} {name}: '{text}' encodes directly to {d} but has several equal-priority derivations; depending on the "
                f"Earley parser's set-iteration order (PYTHONHASHSEED) it assembles to one of {outs}")
    if kind == "differs":
        return (f"{key} {name}: '{text}' encodes directly to {d} relocs {json.dumps((direct or {}).get('relocs'))} but assembles to {outs[0]} "
                f"(another rule with the same token sequence - instruction class or operand constructor - has the better priority or comes first in the grammar)")
    return f"{key} {name}: '{text}' {kind}: {outs}"


if __name__ == "__main__":
    # collect the failing (signature, input) pairs of the current tree without the Lean side:
    #   PYTHONHASHSEED=0 /venv/bin/python -m harness.c09 [quick|thorough] > /tmp/c09_failures.json
    import sys
    ctx = common.Ctx(sys.modules[__name__], sys.argv[1] if len(sys.argv) > 1 else "thorough", 0)
    ctx.build_ok = False
    KNOWN_BACKUP = ctx.known_findings
    ctx.known_findings = lambda status="open": []
    check(ctx)
    out = collections.OrderedDict()
    for f in ctx.failures:
        if f["signature"] not in out:
            out[f["signature"]] = {"property": "C09", "status": "open", "signature": f["signature"],
                                   "what": explain(f["signature"], f), "input": f["case"]}
    json.dump(list(out.values()), sys.stdout, indent=1)
