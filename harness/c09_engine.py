"""C09 engine: instantiate instruction classes, print them, assemble the text with the REAL
assembler (ppci.api.asm) and compare with direct encoding.  Used by harness/c09.py.

Nothing here decides the property by itself being right: it only evaluates the property on
the real code at concrete inputs (instances) and reports what it saw.
"""
import builtins
import contextlib
import io
import logging
import random
import sys
from pathlib import Path

sys.path.insert(0, str(Path(__file__).resolve().parent.parent))
from translate import c09_tables as T  # noqa: E402

INTS = [0, 1, 2, 3, 4, 5, 7, 8, 10, 12, 15, 16, 20, 31, 32, 63, 64, 100, 127, 128, 255, 256, 1000, 1023, 1024,
        2047, 2048, 4095, 4096, 32767, 32768, 65535, 65536, 0x12345, 0x7FFFFFFF, 0xFFFFFFFF,
        -1, -2, -3, -4, -8, -16, -100, -128, -129, -256, -2048, -2049, -32768, -0x80000000]
SMALL_INTS = [0, 1, 2, 3, 4, 7, 8, 16, 100, 255, 300, -1]
LABELS = ["a", "lbl1", "_x9", "main_loop", "Zq", "L_42", "__start"]


class Spec:
    """Recipe for an instance: class + argument recipes (values or nested Specs).  `build()` makes a
    FRESH object every time (some encoders mutate their operands)."""

    def __init__(self, cls, args):
        self.cls = cls
        self.args = args

    def build(self):
        return self.cls(*[a.build() if isinstance(a, Spec) else (type(a)(a) if isinstance(a, set) else a)
                          for a in self.args])

    def describe(self, cfg):
        def d(a):
            from ppci.arch.registers import Register
            if isinstance(a, Spec):
                return a.describe(cfg)
            if isinstance(a, Register):
                return "reg:" + str(a)
            if isinstance(a, set):
                return "set:" + ",".join(sorted(str(r) for r in a))
            return repr(a)
        return [cfg.name_of.get(self.cls, self.cls.__name__)] + [d(a) for a in self.args]

    def skeleton(self, cfg):
        """constructor choices in depth-first operand order (indices into the option tuples)"""
        from ppci.arch.encoding import Operand
        out = []
        fa = self.cls.syntax.formal_arguments
        for op, a in zip(fa, self.args):
            kd = T.operand_kind(op)
            if kd[0] == "cons":
                out.append(kd[1].index(a.cls))
                out.extend(a.skeleton(cfg))
        return out

    def leaf_values(self):
        out = []
        for a in self.args:
            if isinstance(a, Spec):
                out.extend(a.leaf_values())
            else:
                out.append(a)
        return out

    def has_label(self):
        return any(isinstance(v, str) for v in self.leaf_values())


def size_by_value(cls):
    """data reservations (`ds 1000000`) must not get huge operands"""
    return getattr(cls, "tokens", None) == [] or cls.__name__ in ("Ds", "DZero", "Dz")


class Gen:
    """Instance generator for one configuration."""

    def __init__(self, cfg):
        self.cfg = cfg
        # labels: ordinary identifiers + a capitalised mnemonic of this ISA (a keyword when lower-cased)
        kw = None
        for c in cfg.instructions:
            e = c.syntax.syntax[0] if c.syntax.syntax else None
            if isinstance(e, str) and e.isidentifier() and len(e) > 1:
                kw = e
                break
        self.labels = LABELS + ([kw.capitalize()] if kw else [])

    def skeletons(self, cls, cap=48, _top=True):
        """combinations of constructor options (as lists of chosen classes per cons operand, nested); when there
        are more than `cap`, a stride sample of the full product so that every option still appears"""
        from itertools import product, islice
        fa = cls.syntax.formal_arguments
        per = []
        for op in fa:
            kd = T.operand_kind(op)
            if kd[0] == "cons":
                alts = []
                for c in kd[1]:
                    for sk in self.skeletons(c, cap, False):
                        alts.append((c, sk))
                per.append(alts)
            else:
                per.append([None])
        full = [list(c) for c in islice(product(*per), 4000)]
        if len(full) <= cap:
            return full
        n = len(full)
        stride = max(1, n // cap)
        while n % stride == 0 and stride > 1 and stride < n:      # a stride that walks through all residues
            stride += 1
        out, seen, i = [], set(), 0
        while len(out) < cap:
            if i % n not in seen:
                seen.add(i % n)
                out.append(full[i % n])
            i += stride
            if len(seen) == n:
                break
        return out

    def value(self, op, rng, small, j, pos, salt=0):
        from ppci.arch.registers import Register
        kd = T.operand_kind(op)
        if kd[0] == "reg":
            regs = list(kd[1].all_registers())
            return regs[(j + 3 * pos) % len(regs)] if j is not None else rng.choice(regs)
        if kd[0] == "int":
            pool = SMALL_INTS if small else INTS
            return pool[(j * 7 + 5 * pos + salt) % len(pool)] if j is not None else (
                rng.choice(pool) if rng.random() < 0.6 else rng.randint(-70000, 70000) if not small else rng.randint(0, 300))
        if kd[0] == "str":
            return self.labels[(j + pos) % len(self.labels)] if j is not None else rng.choice(self.labels)
        if kd[0] == "other":
            k = op._cls
            from ppci.arch.arm.registers import ArmRegister
            regs = [r for r in ArmRegister.all_registers()]
            if k is set:
                regs = [r for r in regs if r.num < 8]
            # register lists: consecutive runs of every length (a printer may fold them into ranges), runs that
            # reach the named registers at the top of the file (sp/lr/pc), strided lists and arbitrary subsets
            nr = len(regs)
            if j is None:
                shape = rng.randrange(4)
                if shape == 0:
                    return k(rng.sample(regs, rng.randint(1, min(nr, 7))))
                n = rng.randint(1, min(nr, 6))
                start = rng.randrange(nr) if shape != 1 else nr - n - rng.randrange(min(3, nr - n + 1))
                stride = 2 if shape == 3 else 1
                return k([regs[(start + stride * i) % nr] for i in range(n)])
            shapes = []
            for n in (3, 4, 2, 1, 5, nr):
                for start in (nr - n, max(0, nr - n - 1), max(0, nr - n - 2), 4 % nr, 0):
                    shapes.append((start, n, 1))
            for n in (2, 3, 4):
                for start in (0, 1, nr - 3):
                    shapes.append((start, n, 2))
            shapes.append((0, 3, 1))
            start, n, stride = shapes[(j + pos) % len(shapes)]
            chosen = [regs[(start + stride * i) % nr] for i in range(min(n, nr))]
            return k(chosen)
        raise NotImplementedError(str(kd))

    def spec(self, cls, skel, rng, small, j, pos0=0, salt=0):
        args = []
        pos = pos0
        for op, sk in zip(cls.syntax.formal_arguments, skel):
            if sk is None:
                args.append(self.value(op, rng, small, j, pos, salt))
                pos += 1
            else:
                c, sub = sk
                s = self.spec(c, sub, rng, small, j, pos, salt)
                pos += max(1, len(s.leaf_values()))
                args.append(s)
        return Spec(cls, args)

    def encodable(self, spec):
        try:
            direct_view(self.cfg.arch, spec.build())     # encodes (pseudo instructions: renders) and collects relocations
            return True
        except Exception:  # noqa  (an operand outside what this class can encode)
            return False

    def instances(self, cls, n_sys, n_rand, rng):
        """`n_sys` systematic instances per skeleton round-robin (seed independent), then `n_rand` random."""
        small = size_by_value(cls)
        sks = self.skeletons(cls)
        out, seen = [], set()
        srng = random.Random(f"{self.cfg.key}:{self.cfg.name_of[cls]}")
        fails = 0

        def add(s):
            nonlocal fails
            key = repr(s.describe(self.cfg))
            if key in seen:
                return False
            if not self.encodable(s):
                fails += 1
                return False
            seen.add(key)
            out.append(s)
            return True
        for j in range(n_sys):
            for sk in sks:
                for attempt in range(6):
                    try:
                        s = self.spec(cls, sk, srng, small, j + 11 * attempt if attempt else j)
                    except Exception:  # noqa
                        fails += 1
                        continue
                    if add(s):
                        break
        tries = 0
        want = len(out) + n_rand
        while len(out) < want and tries < 6 * n_rand + 6:
            tries += 1
            sk = rng.choice(sks)
            try:
                add(self.spec(cls, sk, rng, small, None))
            except Exception:  # noqa
                fails += 1
        return out, fails


# ----------------------------------------------------------------------------------------
# the real assembler, observed from outside


class Ties:
    """`ppci.lang.tools.earley.walk` picks `sorted(items, key=priority)[0]`; the order of equal
    priorities is the order in which a set iteration produced the items (PYTHONHASHSEED dependent).
    We shadow the name `sorted` in that module: policy k takes the k-th member of the leading tie group."""

    def __init__(self):
        self.policy = 0
        self.max_tie = 1

    def install(self):
        import ppci.lang.tools.earley as E
        E.sorted = self.sorted_

    def uninstall(self):
        import ppci.lang.tools.earley as E
        if "sorted" in E.__dict__:
            del E.sorted

    def sorted_(self, items, key=None):
        res = builtins.sorted(items, key=key)
        if len(res) > 1 and key is not None:
            k0 = key(res[0])
            group = [r for r in res if key(r) == k0]
            rules = []
            for r in group:
                if all(r.rule is not q.rule for q in rules):
                    rules.append(r)
            if len(rules) > 1:
                self.max_tie = max(self.max_tie, len(rules))
                k = self.policy % len(rules)
                if k:
                    chosen = rules[k]
                    res.remove(chosen)
                    res.insert(0, chosen)
        return res


def objview(obj):
    secs = {s.name: bytes(s.data).hex() for s in obj.sections if len(s.data) or s.name == "code"}
    syms = {s.id: s.name for s in obj.symbols}
    rels = sorted((r.reloc_type, syms[r.symbol_id], r.section, r.offset, r.addend) for r in obj.relocations)
    return {"sections": secs, "relocs": [list(r) for r in rels]}


def direct_view(arch, inst):
    from ppci.binutils.objectfile import ObjectFile
    from ppci.binutils.outstream import BinaryOutputStream
    obj = ObjectFile(arch)
    st = BinaryOutputStream(obj)
    st.select_section("code")
    st.emit(inst)
    return objview(obj)


def assemble(arch, text):
    """('ok', view) | ('unparsable', msg) | ('crash', ExcName)"""
    from ppci.api import asm
    from ppci.build.tasks import TaskError
    try:
        with contextlib.redirect_stdout(io.StringIO()), contextlib.redirect_stderr(io.StringIO()):
            obj = asm(io.StringIO(text), arch)
        return ("ok", objview(obj))
    except TaskError as e:
        return ("unparsable", str(getattr(e, "msg", e))[:120])
    except Exception as e:  # noqa
        return ("crash", type(e).__name__)


def evaluate(cfg, spec, ties):
    """Evaluate the property at one instance.  Returns dict(text, direct, runs=[(policy, status, view)], kind)
    kind: None (holds) | 'unparsable' | 'crash' | 'differs' | 'ambiguous' | 'not-encodable' (skipped)"""
    arch = cfg.arch
    try:
        text = arch.asm_printer.print_instruction(spec.build())
        direct = direct_view(arch, spec.build())
    except Exception as e:  # noqa
        return {"text": None, "kind": "not-encodable", "error": type(e).__name__}
    ties.policy, ties.max_tie = 0, 1
    runs = [(0,) + assemble(arch, text)]
    m = ties.max_tie
    for k in range(1, m):
        ties.policy, ties.max_tie = k, 1
        runs.append((k,) + assemble(arch, text))
    ties.policy = 0
    good = [r for r in runs if r[1] == "ok" and r[2] == direct]
    if len(good) == len(runs):
        kind = None
    elif good:
        kind = "ambiguous"
    else:
        st = runs[0][1]
        kind = st if st != "ok" else "differs"
    return {"text": text, "direct": direct, "runs": runs, "kind": kind, "ties": m}


def quiet():
    logging.disable(logging.CRITICAL)
