"""C34 build runner: correspondence of Model.Tasks with ppci/build/tasks.py (a real Project of Targets whose
recording task logs every execution, run by the real TaskRunner) and evaluation of the property itself on the
observed history (oracle: an independent closure/Kahn computation in Python; the Lean model's verdict, which is
proved equivalent to Spec.Tasks, is compared as well)."""
import itertools
import json
import os
import subprocess
import sys
from pathlib import Path

PROP = "C34"
TITLE = "Build runner executes dependencies once, in order, and detects loops exactly"
LEAN_PROPS = "PpciVerif/Props/C34.lean"
LEAN_TARGETS = ["PpciVerif.Props.C34", "Drivers.C34"]
LEVEL = "proof"
LEVEL_TEXT = ("Lean theorems for ALL finite projects (any number of targets, any dependency lists) and all request lists: the "
              "runner's ordering code reports a dependency loop iff a cycle (inductive dependency path back to a target) is "
              "reachable from the requested targets; otherwise the executed sequence is duplicate-free, consists exactly of the "
              "requested targets and their transitive dependencies (each count = 1, everything else count = 0), and every "
              "execution of a target is preceded by the execution of each of its dependencies; the walk terminates (well-founded "
              "recursion). Histories: a project object is modelled as a state machine (add_target / add_dependency / run / check_target) "
              "and it is proved that in ANY history the i-th build equals the stateless run on the project as edited so far (earlier "
              "builds are irrelevant), hence satisfies all of the above. The model "
              "(Model.Tasks.visit) is hand-written after the fixed Project.dfs/target_sequence and tied to "
              "ppci/build/tasks.py by an exhaustive differential run (all labelled graphs on <=4 targets quick / <=5 thorough x "
              "all non-empty request subsets) of the real TaskRunner with a recording task, on every check. "
              "Histories of 2-3 builds (+ checks, edits) on ONE Project+TaskRunner object are run as well (every pair of request lists "
              "on every graph with <=3 targets, sampled beyond), each build judged independently. The code as it was "
              "before the fix is modelled separately and refuted by two Lean-checked witnesses (diamond; partial-order sort).")
LEVEL_NOTE = ("trusted: Lean kernel; axioms propext/Quot.sound (Classical.choice not needed); hand model <-> source correspondence is "
              "exhaustive only up to 5 targets (plus random larger graphs), not proved; Python sets/sorted()/list are modelled by "
              "lists of name ranks; that the real Project/TaskRunner objects carry no state between builds other than the graph is checked "
              "on histories of <=8 calls only (exhaustive pairs for <=3 targets), not proved; task execution itself, macro expansion, project.default and the XML recipe loader are outside the model; "
              "the driver is run as leanc-compiled code (cross-checked against `lean --run` on ~900 requests per run)")
TECHNIQUE = "Lean 4 proof by functional induction over a hand model of the DFS + exhaustive differential correspondence with the real TaskRunner"
RULE = ("case = (labelled dependency graph, request list). Exhaustive: every digraph without self-loops on n<=4 (quick) / n<=5 "
        "(thorough) targets x every non-empty request subset (sorted), every digraph WITH self-loops on n<=3 (quick) / n<=4 "
        "(thorough); plus corpus, random graphs on 5..9 targets, permuted/duplicated request lists, dangling names, and "
        "check_target on every single target. Histories on one Project+TaskRunner object: every ordered pair of duplicate-free "
        "request lists (all orders) for every digraph on <=3 targets (thorough: also with self-loops, all triples, all subset pairs on "
        "4 targets, [build, add one dependency, build]), random 3..8-call histories with add_target/add_dependency/check_target in "
        "between; every build of a history is compared with the stateless model and judged by the property on the graph as it is "
        "then. Target insertion order, dependency insertion order and the target names are "
        "varied independently of the name ranks the model sees. non-trivial = the needed part has >=3 targets and contains a "
        "shared dependency (in-degree >=2 inside the needed part) or a cycle; distinct = distinct (graph, request) pair")
TRUSTED = [
    "hand model Model.Tasks (visit = Project.dfs loop with the recursive call inlined; names = ranks in sorted order), tied by exhaustive differential run on every check",
    "Spec.Tasks (inductive dependency paths, Needed, CycleReachable, ExactlyOnce, AfterDeps) written from the property text",
    "independent Python oracle (Warshall closure; cross-checked against worklist closure + Kahn peeling on all keyed cases) used to evaluate the property on the observed history",
]
ASSUMPTIONS = [
    "a target's execution is observed through one recording task per target (registered in task_map as 'verifrecord')",
    "sorted() of dependency names = ascending rank; `x in set`/`x in list` = list membership",
    "project.default (used only for an empty request) is not modelled",
    "a Project object's state relevant to ordering is its targets and their dependency sets (the history model has no other state; tied by the history correspondence)",
]

VERIF = Path(__file__).resolve().parent.parent
LOOP = "err TaskError:loop"
NOTFOUND = "err TaskError:notfound"

# --------------------------------------------------------------------------------------------
# the real implementation
# --------------------------------------------------------------------------------------------
_T = None


def tasks_mod():
    global _T
    if _T is None:
        from harness import common  # noqa: F401  (puts REPO on sys.path)
        from ppci.build import tasks as T

        class VerifRecordTask(T.Task):
            log = []

            def run(self):
                VerifRecordTask.log.append(self.target.name)

        T.register_task(VerifRecordTask)
        T.VerifRecordTask = VerifRecordTask
        _T = T
    return _T


NAME_SCHEMES = [
    lambda i: f"t{i}" if i < 10 else f"u{i:03d}",     # t0 < t1 < … < t9 < u010 …
    lambda i: ("abcdefghij"[i // 10 % 10] + "abcdefghij"[i % 10]) * (1 + i % 3),
    lambda i: f"{i:03d}-{'zyxwvutsrq'[i % 10]}",
    lambda i: "T" * (i + 1),                # prefix order
]


def names_for(n, scheme):
    ns = [NAME_SCHEMES[scheme % len(NAME_SCHEMES)](i) for i in range(n)]
    assert ns == sorted(ns) and len(set(ns)) == n
    return ns


def perm(xs, k):
    """cheap deterministic permutation number k of xs"""
    xs = list(xs)
    out = []
    while xs:
        k, r = divmod(k, len(xs))
        out.append(xs.pop(r))
    return out


def make_project(T, graph, names, k=0):
    """graph: {rank: iterable of dependency ranks} for the targets that exist; k varies insertion orders"""
    proj = T.Project("verif")
    for key in perm(sorted(graph), k):
        t = T.Target(names[key], proj)
        for d in perm(sorted(graph[key]), k // 7 + key):
            t.add_dependency(names[d])
        t.add_task(("verifrecord", {"tag": "x"}))
        proj.add_target(t)
    return proj


def classify(T, e):
    if isinstance(e, T.TaskError):
        msg = str(getattr(e, "msg", ""))
        if msg.startswith("Dependency loop detected"):
            return LOOP
        if msg.startswith("target ") and msg.endswith("not found"):
            return NOTFOUND
        return "err TaskError:other"
    return "err " + type(e).__name__


def run_impl(T, proj, req_names, rank, runner=None):
    log = T.VerifRecordTask.log
    del log[:]
    try:
        (runner or T.TaskRunner()).run(proj, list(req_names))
    except Exception as e:  # noqa
        r = classify(T, e)
        if log:
            r += " after-running " + fmt([rank[x] for x in log])
        return r
    return "ok " + fmt([rank[x] for x in log])


def ops_str(ops):
    out = []
    for op in ops:
        if op[0] == "r":
            out.append("r" + ".".join(map(str, op[1])))
        elif op[0] == "c":
            out.append(f"c{op[1]}")
        elif op[0] == "t":
            out.append("t" + ".".join(map(str, [op[1]] + sorted(set(op[2])))))
        else:
            out.append(f"d{op[1]}.{op[2]}")
    return ";".join(out)


def run_history(T, graph0, n, ops, k=0, scheme=0):
    """ONE Project object and ONE TaskRunner for the whole list of calls.  ops: ("r", req) TaskRunner.run,
    ("c", t) check_target, ("t", t, deps) add_target of a new Target, ("d", t, d) targets[t].add_dependency(d).
    Returns the observations and, per op, the dependency graph as it was when the op was made."""
    names = names_for(n, scheme)
    rank = {nm: i for i, nm in enumerate(names)}
    proj = make_project(T, graph0, names, k)
    runner = T.TaskRunner()
    graph = {t: sorted(set(ds)) for t, ds in graph0.items()}
    outs, snaps = [], []
    for op in ops:
        snaps.append(graph)
        if op[0] == "r":
            outs.append(run_impl(T, proj, [names[r] for r in op[1]], rank, runner))
        elif op[0] == "c":
            outs.append(check_impl(T, proj, names[op[1]]))
        elif op[0] == "t":
            t = T.Target(names[op[1]], proj)
            for d in op[2]:
                t.add_dependency(names[d])
            t.add_task(("verifrecord", {"tag": "x"}))
            try:
                proj.add_target(t)
            except T.TaskError as e:
                outs.append("D" if str(e.msg).startswith("Duplicate target") else "err TaskError:other")
            except Exception as e:  # noqa
                outs.append("err " + type(e).__name__)
            else:
                outs.append("u")
                graph = dict(graph)
                graph[op[1]] = sorted(set(op[2]))
        else:
            try:
                proj.targets[names[op[1]]].add_dependency(names[op[2]])
            except Exception as e:  # noqa
                outs.append("err " + type(e).__name__)
            else:
                outs.append("u")
                graph = dict(graph)
                graph[op[1]] = sorted(set(graph[op[1]]) | {op[2]})
    return outs, snaps


def check_impl(T, proj, name):
    try:
        proj.check_target(name)
    except Exception as e:  # noqa
        return classify(T, e)
    return "ok"


def fmt(xs):
    return "[" + ",".join(map(str, xs)) + "]"


def gstr(graph):
    if not graph:
        return "-"
    return "|".join(f"{k}:{','.join(map(str, sorted(graph[k])))}" for k in sorted(graph))


# --------------------------------------------------------------------------------------------
# the property, evaluated independently of both the code and the model
# --------------------------------------------------------------------------------------------
_closure_cache = [None, None]


def closure(graph):
    """transitive closure (paths of length >= 1) by Warshall: {v: set of w with v ->+ w}; cached for the last graph"""
    if _closure_cache[0] is graph:
        return _closure_cache[1]
    nodes = set(graph)
    for ds in graph.values():
        nodes.update(ds)
    plus = {v: set(graph.get(v, ())) for v in nodes}
    for k in nodes:
        pk = plus[k]
        for v in nodes:
            if k in plus[v]:
                plus[v] |= pk
    _closure_cache[0], _closure_cache[1] = graph, plus
    return plus


def oracle(graph, req):
    """needed set (reflexive-transitive closure of req), cycle-reachable?, dangling name needed?"""
    plus = closure(graph)
    needed = set(req)
    for r in req:
        needed.update(plus.get(r, ()))
    dangling = any(v not in graph for v in needed)
    cyclic = any(v in plus.get(v, ()) for v in needed)
    return needed, cyclic, dangling


def oracle_kahn(graph, req):
    """second, differently computed oracle (worklist closure + Kahn peeling); cross-checked against `oracle` on the corpus"""
    needed, todo = set(), list(req)
    while todo:
        v = todo.pop()
        if v not in needed:
            needed.add(v)
            todo.extend(graph.get(v, ()))
    dangling = any(v not in graph for v in needed)
    left = set(needed)
    progress = True
    while progress:
        progress = False
        for v in sorted(left):
            if all(d not in left for d in graph.get(v, ())):
                left.discard(v)
                progress = True
    return needed, bool(left), dangling


def is_nontrivial(graph, needed, cyclic):
    if len(needed) < 3:
        return False
    if cyclic:
        return True
    indeg = {}
    for v in needed:
        for d in graph.get(v, ()):
            indeg[d] = indeg.get(d, 0) + 1
    return any(c >= 2 for c in indeg.values())


def evaluate(graph, req, impl, fails, site="run"):
    """append (signature, what) to fails when the property is false for this observed outcome"""
    needed, cyclic, dangling = oracle(graph, req)
    if impl.startswith(LOOP):
        if not cyclic:
            fails.append((f"{site}:false-loop", f"{site} reports a dependency loop but no cycle is reachable from the request"))
        return needed, cyclic, dangling
    if dangling:
        return needed, cyclic, dangling                 # not a dependency graph proper: only soundness of a loop report is claimed
    if cyclic:
        fails.append((f"{site}:loop-missed", f"{site} does not report the reachable dependency cycle ({impl[:40]})"))
        return needed, cyclic, dangling
    if site.startswith("check_target"):
        if impl != "ok":
            fails.append((f"{site}:crash:{impl[4:]}", f"{site} failed with {impl} on an acyclic graph"))
        return needed, cyclic, dangling
    if not impl.startswith("ok "):
        fails.append((f"{site}:crash:{impl[4:].split()[0]}", f"{site} failed with {impl} on an acyclic graph"))
        return needed, cyclic, dangling
    order = json.loads(impl[3:])
    for v in sorted(needed):
        c = order.count(v)
        if c == 0:
            kind = "requested-target-not-executed" if v in req else "dependency-not-executed"
            fails.append((f"{site}:{kind}", f"needed target {v} was not executed"))
            break
        if c != 1:
            fails.append((f"{site}:not-exactly-once", f"needed target {v} executed {c} times"))
            break
    extra = [v for v in order if v not in needed]
    if extra:
        fails.append((f"{site}:unneeded-target-executed", f"targets {extra} executed but not needed"))
    for i, v in enumerate(order):
        missing = [d for d in graph.get(v, ()) if d not in order[:i]]
        if missing:
            fails.append((f"{site}:dependency-order", f"target {v} executed before its dependencies {missing}"))
            break
    return needed, cyclic, dangling


# --------------------------------------------------------------------------------------------
# one batch of cases: impl, model, comparison, property
# --------------------------------------------------------------------------------------------
IR_SOURCES = ["Drivers/C34.c", "PpciVerif/Model/Proto.c", "PpciVerif/Model/Tasks.c", "PpciVerif/Model/TasksLegacy.c"]
_native = {"exe": None, "tried": False, "why": ""}


def native_exe():
    """The driver compiled to machine code (leanc over the C files `lake build` has just produced for Drivers.C34
    and the three Model modules it imports): same Lean definitions, ~50x faster than `lean --run`, which matters for
    the 1.1 million `all` requests of the thorough tier.  Cached under lean/.lake/build/c34/ by the hash of the C
    sources; None (-> interpreter) when it cannot be built."""
    if _native["tried"]:
        return _native["exe"]
    _native["tried"] = True
    import fcntl
    import hashlib
    import shutil
    from harness import common
    try:
        ir = common.LEAN / ".lake" / "build" / "ir"
        srcs = [ir / f for f in IR_SOURCES]
        h = hashlib.sha1()
        for f in srcs:
            h.update(f.read_bytes())
        out = common.LEAN / ".lake" / "build" / "c34"
        out.mkdir(parents=True, exist_ok=True)
        exe = out / f"c34drv-{h.hexdigest()[:16]}"
        with open(out / ".lock", "w") as lock:
            fcntl.flock(lock, fcntl.LOCK_EX)
            if not exe.exists():
                if not shutil.which("leanc"):
                    raise RuntimeError("leanc not found")
                tmp = out / f".tmp-{os.getpid()}"
                p = subprocess.run(["leanc", "-O2", "-o", str(tmp), *map(str, srcs)], capture_output=True, text=True, timeout=900)
                if p.returncode != 0:
                    raise RuntimeError("leanc failed: " + p.stderr[-300:])
                for old in out.glob("c34drv-*"):
                    old.unlink()
                os.replace(tmp, exe)
        _native["exe"] = str(exe)
    except Exception as e:  # noqa
        _native["why"] = f"{type(e).__name__}: {e}"[:300]
    return _native["exe"]


def driver_interp(lines):
    from harness import common
    return common.Ctx.driver(None, "C34", lines)


def driver(lines):
    exe = native_exe()
    if exe is None:
        return driver_interp(lines)
    from harness import common
    p = subprocess.run([exe], input="".join(l + "\n" for l in lines), capture_output=True, text=True, timeout=1800)
    out = p.stdout.splitlines()
    if p.returncode != 0 or len(out) != len(lines):
        raise common.BrokenCheck(f"native driver C34: rc={p.returncode}, {len(out)} replies for {len(lines)} requests\n" + p.stderr[-1000:])
    return out


def new_summary():
    return {"counts": {}, "disagree": [], "fails": [], "nontrivial": 0, "nontrivial_keys": [], "samples": []}


def bump(s, k, n=1):
    s["counts"][k] = s["counts"].get(k, 0) + n


def untok(t, check=False):
    """reply token of the `all` op -> canonical outcome string"""
    if t == "L":
        return LOOP
    if t == "N":
        return NOTFOUND
    if check:
        return "ok" if t == "o" else "?" + t
    return "ok " + fmt(list(t)) if t.isdigit() else "?" + t


class Batch:
    """collects requests for ONE driver process; impl outcomes are computed while adding"""

    def __init__(self, keep_keys=True):
        self.T = tasks_mod()
        self.s = new_summary()
        self.keep_keys = keep_keys
        self.lines, self.items = [], []

    def add_cases(self, cases, with_check=True):
        """cases: list of dicts {graph:{rank:[deps]}, n, req:[ranks], k, scheme}; consecutive cases that share the
        same (graph, k, scheme) reuse one Project"""
        T = self.T
        last_key, proj, names, rank, g_s = None, None, None, None, None
        for c in cases:
            graph = c["graph"]
            key = (id(graph), c.get("k", 0), c.get("scheme", 0))
            if key != last_key:
                names = names_for(c["n"], c.get("scheme", 0))
                rank = {nm: i for i, nm in enumerate(names)}
                proj = make_project(T, graph, names, c.get("k", 0))
                g_s = gstr(graph)
                last_key = key
                if with_check:
                    for t in sorted(graph):
                        self.lines.append(f"check {g_s} {t}")
                        self.items.append(("check_target", graph, [t], c, check_impl(T, proj, names[t])))
            req = c["req"]
            self.lines.append(f"run {g_s} {fmt(req)}")
            self.items.append(("run", graph, req, c, run_impl(T, proj, [names[r] for r in req], rank)))

    def add_spec(self, spec):
        """spec = (n, self_loops, lo, hi): every graph with mask in [lo,hi) x every non-empty request subset
        (ascending) + check_target of every target; one `all` request per graph"""
        T = self.T
        n, self_loops, lo, hi = spec[:4]
        pairs = pairs_of(n, self_loops)
        subs = subsets(n)
        for mask in range(lo, hi):
            graph = graph_of_mask(n, pairs, mask)
            c = {"graph": graph, "n": n, "k": mask * 2654435761 % 1000003, "scheme": mask % len(NAME_SCHEMES)}
            names = names_for(n, c["scheme"])
            rank = {nm: i for i, nm in enumerate(names)}
            proj = make_project(T, graph, names, c["k"])
            runs = [run_impl(T, proj, [names[r] for r in req], rank) for req in subs]
            checks = [check_impl(T, proj, names[t]) for t in range(n)]
            self.lines.append(f"all {gstr(graph)} {n}")
            self.items.append(("all", graph, subs, c, (runs, checks)))
        bump(self.s, "graphs_enumerated", hi - lo)

    def add_histories(self, hists):
        """hists: dicts {graph, n, ops, k, scheme}: each one is played on ONE fresh Project + TaskRunner"""
        T = self.T
        for h in hists:
            outs, snaps = run_history(T, h["graph"], h["n"], h["ops"], h.get("k", 0), h.get("scheme", 0))
            self.lines.append(f"hist {gstr(h['graph'])} {ops_str(h['ops'])}")
            self.items.append(("hist", h["graph"], h["ops"], h, (outs, snaps)))
        bump(self.s, "histories", len(hists))

    def finish_history(self, line, reply, graph0, ops, h, outs, snaps):
        toks = reply[3:].split(";") if reply.startswith("ok ") else []
        if len(toks) != len(ops):
            toks = ["?" + reply[:30]] * len(ops)
        built = False                                   # has an earlier call of this history walked the graph?
        for i, (op, impl, tk) in enumerate(zip(ops, outs, toks)):
            c = dict(h, op_index=i)
            where = f"{line} #{i}"
            if op[0] == "r":
                self.one("run:history" if built else "run", snaps[i], op[1], c, impl, untok(tk), where)
                built = True
            elif op[0] == "c":
                self.one("check_target:history" if built else "check_target", snaps[i], [op[1]], c, impl, untok(tk, True), where)
                built = True
            else:
                bump(self.s, "eval_edit")
                if impl != tk:
                    bump(self.s, "disagreements")
                    if len(self.s["disagree"]) < 50:
                        self.s["disagree"].append({"what": "edit", "case": case_json(c, snaps[i], []), "request": where,
                                                   "impl": impl, "model": tk})

    def finish(self):
        replies = driver(self.lines) if self.lines else []
        for line, reply, (site, graph, req, c, impl) in zip(self.lines, replies, self.items):
            if site == "hist":
                self.finish_history(line, reply, graph, req, c, *impl)
                continue
            if site != "all":
                self.one(site, graph, req, c, impl, reply, line)
                continue
            runs, checks = impl
            n = c["n"]
            try:
                assert reply.startswith("ok ")
                mr, mc = reply[3:].split("|")
                mr, mc = mr.split(";"), mc.split(";")
                assert len(mr) == len(runs) and len(mc) == len(checks)
            except Exception:  # noqa
                mr, mc = ["?" + reply[:30]] * len(runs), ["?"] * len(checks)
            g_s = line.split()[1]
            for t in range(n):
                self.one("check_target", graph, [t], c, checks[t], untok(mc[t], True), f"check {g_s} {t}")
            for sub, r, m in zip(req, runs, mr):
                self.one("run", graph, sub, c, r, untok(m), f"run {g_s} {fmt(sub)}")
        s, self.s = self.s, new_summary()
        self.lines, self.items = [], []
        return s

    def one(self, site, graph, req, c, impl, model, line):
        s = self.s
        bump(s, "eval_" + site)
        bump(s, "outcome_" + (impl.split()[1] if impl.startswith("err") else "ok"))
        if impl != model:
            if len(s["disagree"]) < 50:
                s["disagree"].append({"what": site, "case": case_json(c, graph, req), "request": line, "impl": impl, "model": model})
            bump(s, "disagreements")
        fails = []
        needed, cyclic, dangling = evaluate(graph, req, impl, fails, site)
        if self.keep_keys and oracle_kahn(graph, req) != (needed, cyclic, dangling):
            raise RuntimeError(f"the two property oracles differ on {g_of(graph)} {req}")
        for sig, what in fails:
            bump(s, "fail_" + sig)
            if sum(1 for f in s["fails"] if f["signature"] == sig) < 5:
                s["fails"].append({"signature": sig, "what": f"{what}: graph {g_of(graph)} request {req} -> {impl}",
                                   "case": case_json(c, graph, req), "impl": impl, "model": model})
        if site == "run":
            bump(s, f"needed_{min(len(needed), 9)}")
            if dangling:
                bump(s, "dangling")
            if is_nontrivial(graph, needed, cyclic):
                s["nontrivial"] += 1
                if self.keep_keys:
                    s["nontrivial_keys"].append(line)
            if len(s["samples"]) < 2 and len(needed) >= 3:
                s["samples"].append({"request": line, "impl": impl, "model": model})


def process(cases, keep_keys=True, with_check=True):
    b = Batch(keep_keys)
    b.add_cases(cases, with_check)
    return b.finish()


def g_of(graph):
    return {k: sorted(v) for k, v in sorted(graph.items())}


def case_json(c, graph, req):
    j = {"graph": {str(k): sorted(v) for k, v in sorted(graph.items())}, "n": c["n"], "req": list(req),
         "k": c.get("k", 0), "scheme": c.get("scheme", 0)}
    if "ops" in c:      # a history: `graph` above is the project at the failing call, the whole history follows
        j["history"] = {"initial_graph": {str(k): sorted(v) for k, v in sorted(c["graph"].items())},
                        "ops": [list(op) for op in c["ops"]], "ops_text": ops_str(c["ops"]), "op_index": c.get("op_index")}
    return j


def case_from_json(j):
    return {"graph": {int(k): list(v) for k, v in j["graph"].items()}, "n": j["n"], "req": list(j["req"]),
            "k": j.get("k", 0), "scheme": j.get("scheme", 0)}


def history_from_json(j):
    h = j["history"]
    return {"graph": {int(k): list(v) for k, v in h["initial_graph"].items()}, "n": j["n"],
            "ops": [tuple(op) for op in h["ops"]], "k": j.get("k", 0), "scheme": j.get("scheme", 0)}


def replay_case(j):
    b = Batch()
    if "history" in j:
        b.add_histories([history_from_json(j)])
    else:
        b.add_cases([case_from_json(j)])
    return b.finish()


# --------------------------------------------------------------------------------------------
# generators
# --------------------------------------------------------------------------------------------
def pairs_of(n, self_loops):
    return [(u, v) for u in range(n) for v in range(n) if self_loops or u != v]


def graph_of_mask(n, pairs, mask):
    g = {u: [] for u in range(n)}
    i = 0
    while mask:
        if mask & 1:
            u, v = pairs[i]
            g[u].append(v)
        mask >>= 1
        i += 1
    return g


def subsets(n):
    return [[i for i in range(n) if m >> i & 1] for m in range(1, 1 << n)]


def exhaustive_chunk(spec):
    b = Batch(keep_keys=spec[4])
    b.add_spec(spec)
    return b.finish()


CORPUS = [
    # (graph, n, request)  — boundary cases, the inputs of the findings, the baseline tests' shapes
    ({0: [1, 2], 1: [3], 2: [3], 3: []}, 4, [0]),                       # diamond: finding 1 (false loop)
    ({0: [1], 1: [], 2: []}, 3, [0, 2]),                                 # chain + unrelated: finding 2 (sort)
    ({0: [1], 1: [], 2: []}, 3, [2, 0]),
    ({0: [2], 1: [2], 2: []}, 3, [0, 1]),                                # two requested targets share a dependency
    ({0: [1, 2, 3], 1: [2, 3], 2: [3], 3: []}, 4, [0]),                 # transitive tournament
    ({0: [1, 2], 1: [3], 2: [3], 3: [4, 5], 4: [6], 5: [6], 6: []}, 7, [0]),   # stacked diamonds
    ({0: [0]}, 1, [0]),                                                  # self loop
    ({0: [1], 1: [0]}, 2, [0]),                                          # test_circular
    ({0: [1], 1: [2], 2: [0]}, 3, [0]),                                  # test_circular_deeper
    ({0: [1], 1: []}, 2, [0]),                                           # test_sort
    ({3: [0, 4], 0: [1], 1: [2], 2: [0], 4: []}, 5, [3]),               # lasso
    ({3: [0, 4], 0: [1], 1: [2], 2: [0], 4: []}, 5, [4]),               # cycle exists but is not reachable
    ({0: [1], 1: [2], 2: [1], 3: []}, 4, [3, 0]),                        # loop found from the second request
    ({0: [1, 2], 1: [3], 2: [3], 3: []}, 4, [2, 1, 2]),                  # duplicates in the request
    ({0: [1, 2], 1: [3], 2: [3], 3: []}, 4, [3, 2, 1, 0]),               # request already in dependency order
    ({0: [1, 2], 1: [3], 2: [3], 3: []}, 4, [0, 1, 2, 3]),               # request in reverse dependency order
    ({0: [], 1: [0], 2: [0], 3: [1, 2]}, 4, [3]),                        # diamond with reversed ranks
    ({0: [1]}, 2, [0]),                                                  # dangling dependency
    ({0: []}, 2, [1]),                                                   # dangling request
    ({0: [2, 1], 1: [0]}, 3, [0]),                                       # loop and dangling name: which comes first
    ({0: [1, 2], 2: [0]}, 3, [0]),
    ({i: [i + 1] for i in range(29)} | {29: []}, 30, [0]),               # long chain
    ({0: list(range(1, 9))} | {i: [] for i in range(1, 9)}, 9, [0]),     # wide fan
    ({i: [j for j in range(i + 1, 8)] for i in range(8)}, 8, [0]),       # dense DAG
]


def corpus_cases():
    cases = []
    d = VERIF / "corpus" / "C34"
    extra = []
    if d.is_dir():
        for f in sorted(d.glob("*.json")):
            extra.append(case_from_json(json.loads(f.read_text())))
    for g, n, req in CORPUS:
        for k, scheme in ((0, 0), (5, 1), (11, 3)):
            cases.append({"graph": g, "n": n, "req": req, "k": k, "scheme": scheme})
    return cases + extra


def random_cases(rng, count, nmin=5, nmax=9):
    cases = []
    for _ in range(count):
        n = rng.randint(nmin, nmax)
        style = rng.random()
        g = {}
        p = rng.choice([0.1, 0.2, 0.3, 0.5])
        for u in range(n):
            if style < 0.55:      # DAG w.r.t. a random topological numbering
                g[u] = [v for v in range(n) if v != u and rng.random() < p]
            else:
                g[u] = [v for v in range(n) if rng.random() < p / 2]
        if style < 0.55:
            order = list(range(n))
            rng.shuffle(order)
            pos = {v: i for i, v in enumerate(order)}
            g = {u: [v for v in ds if pos[v] > pos[u]] for u, ds in g.items()}
            if rng.random() < 0.3:                       # close one back edge
                u, v = rng.sample(range(n), 2)
                g[u] = sorted(set(g[u]) | {v})
        if rng.random() < 0.1:                           # drop a target: dangling names
            g.pop(rng.randrange(n))
        req = [rng.randrange(n) for _ in range(rng.randint(1, 4))]
        if rng.random() < 0.5:
            req = list(dict.fromkeys(req))
        cases.append({"graph": g, "n": n, "req": req, "k": rng.randrange(10 ** 6), "scheme": rng.randrange(4)})
    return cases


def permuted_request_cases(rng, count):
    """small graphs, request lists in every order / with repetitions"""
    cases = []
    for _ in range(count):
        n = rng.randint(2, 5)
        pairs = pairs_of(n, rng.random() < 0.2)
        g = graph_of_mask(n, pairs, rng.getrandbits(len(pairs)) & rng.getrandbits(len(pairs)))
        k, scheme = rng.randrange(10 ** 6), rng.randrange(4)
        base = rng.sample(range(n), rng.randint(1, n))
        for req in itertools.islice(itertools.permutations(base), 6):
            cases.append({"graph": g, "n": n, "req": list(req), "k": k, "scheme": scheme})
        cases.append({"graph": g, "n": n, "req": base + base[::-1], "k": k, "scheme": scheme})
    return cases


# --------------------------------------------------------------------------------------------
# histories: several builds / checks / edits on one Project object
# --------------------------------------------------------------------------------------------
def request_lists(n):
    """every duplicate-free request list over 0..n-1 (all orders)"""
    out = []
    for r in range(1, n + 1):
        out += [list(p) for p in itertools.permutations(range(n), r)]
    return out


CORPUS_HISTORIES = [
    # (initial graph, n, ops)
    ({0: [1], 1: []}, 2, [("r", [1, 0]), ("r", [0])]),                        # second seeded change: 2nd build ran only 0
    ({0: [1], 1: []}, 2, [("r", [1, 0]), ("r", [0, 1])]),                     # … and here 0 before 1
    ({0: [2], 1: [2], 2: []}, 3, [("r", [0, 1]), ("r", [1])]),               # app, tests -> lib
    ({0: [2], 1: [2], 2: []}, 3, [("c", 0), ("r", [0, 1]), ("c", 1), ("r", [1]), ("r", [1, 0])]),
    ({0: [1], 1: []}, 2, [("r", [0]), ("r", [0]), ("r", [0])]),               # the same build three times
    ({0: [1], 1: []}, 2, [("r", [1, 0]), ("d", 1, 0), ("r", [0])]),           # an edit closes a loop between builds
    ({0: [1], 1: [0]}, 2, [("r", [0]), ("r", [1]), ("c", 0)]),                # a loop is reported every time
    ({0: [1], 1: []}, 3, [("r", [1, 0]), ("t", 2, []), ("d", 0, 2), ("r", [0]), ("t", 2, [0]), ("r", [2])]),
    ({0: [1]}, 2, [("r", [0]), ("t", 1, []), ("r", [0])]),                    # dangling name becomes a target
    ({0: [1, 2], 1: [3], 2: [3], 3: []}, 4, [("r", [3, 2, 1, 0]), ("r", [0]), ("r", [1, 2]), ("r", [2, 0])]),
]


def corpus_histories():
    return [{"graph": g, "n": n, "ops": ops, "k": k, "scheme": sc} for g, n, ops in CORPUS_HISTORIES for k, sc in ((0, 0), (7, 2))]


def pair_histories(n, self_loops, lists, masks=None, length=2, rng=None, per_graph=None):
    """for every graph (mask) every sequence of `length` builds with requests from `lists` on one project
    (or `per_graph` random such sequences)"""
    pairs = pairs_of(n, self_loops)
    hists = []
    for mask in (masks if masks is not None else range(1 << len(pairs))):
        g = graph_of_mask(n, pairs, mask)
        k, scheme = mask * 40503 % 9973, mask % len(NAME_SCHEMES)
        if per_graph is None:
            seqs = itertools.product(lists, repeat=length)
        else:
            seqs = ([rng.choice(lists) for _ in range(length)] for _ in range(per_graph))
        for seq in seqs:
            hists.append({"graph": g, "n": n, "ops": [("r", req) for req in seq], "k": k, "scheme": scheme})
    return hists


def edit_between_builds(n, masks, lists):
    """[build A, add one missing dependency, build B] for every missing dependency"""
    pairs = pairs_of(n, False)
    hists = []
    for mask in masks:
        g = graph_of_mask(n, pairs, mask)
        for u, v in pairs_of(n, True):
            if v in g[u]:
                continue
            for a in lists:
                for b in lists:
                    hists.append({"graph": g, "n": n, "ops": [("r", a), ("d", u, v), ("r", b)], "k": mask, "scheme": mask % 4})
    return hists


def random_histories(rng, count):
    """random calls on one project: builds, checks, add_dependency, add_target (new, dangling-fixing or duplicate)"""
    hists = []
    for _ in range(count):
        n = rng.randint(2, 6)
        present = [t for t in range(n) if rng.random() < 0.8] or [0]
        p = rng.choice([0.15, 0.3, 0.5])
        acyclic = rng.random() < 0.7
        g = {t: [d for d in range(n) if d != t and rng.random() < p and (not acyclic or d > t)] for t in present}
        exists = set(present)
        ops = []
        for _ in range(rng.randint(3, 8)):
            x = rng.random()
            if x < 0.6:
                req = [rng.randrange(n) for _ in range(rng.randint(1, 3))]
                ops.append(("r", req if rng.random() < 0.3 else list(dict.fromkeys(req))))
            elif x < 0.7:
                ops.append(("c", rng.randrange(n)))
            elif x < 0.88:
                t = rng.choice(sorted(exists))
                d = rng.randrange(n)
                if acyclic and rng.random() < 0.8 and d <= t:
                    d = min(n - 1, t + 1) if t + 1 < n else t
                if d != t or rng.random() < 0.1:
                    ops.append(("d", t, d))
            else:
                t = rng.randrange(n)
                ops.append(("t", t, [d for d in range(n) if d != t and rng.random() < p and (not acyclic or d > t)]))
                exists.add(t)
        if not any(op[0] == "r" for op in ops):
            ops.append(("r", [present[0]]))
        hists.append({"graph": g, "n": n, "ops": ops, "k": rng.randrange(10 ** 6), "scheme": rng.randrange(4)})
    return hists


def history_chunk(spec):
    kind, n, lo, hi = spec
    b = Batch(keep_keys=False)
    if kind == "pairs-loops":       # graphs with self-loops, all pairs of request lists
        b.add_histories(pair_histories(n, True, request_lists(n), range(lo, hi)))
    elif kind == "triples":         # all triples of request lists
        b.add_histories(pair_histories(n, False, request_lists(n), range(lo, hi), length=3))
    elif kind == "pairs4":          # n=4: all pairs of ascending request subsets
        b.add_histories(pair_histories(4, False, subsets(4), range(lo, hi)))
    elif kind == "edits":
        b.add_histories(edit_between_builds(n, range(lo, hi), subsets(n)))
    return b.finish()


# --------------------------------------------------------------------------------------------
# check
# --------------------------------------------------------------------------------------------
def merge(ctx, s, keep_keys=True):
    for k, v in s["counts"].items():
        if k.startswith("fail_") or k == "disagreements":
            continue
        ctx.count(k, v)
    for d in s["disagree"]:
        ctx.disagree(d["what"], d["case"], d["impl"], d["model"])
    for f in s["fails"]:
        f = dict(f)
        ctx.fail(f.pop("signature"), f.pop("what"), f.pop("case"), **f)
    for key in s["nontrivial_keys"]:
        ctx.nontrivial(key)
    for smp in s["samples"]:
        ctx.sample(smp)
    return s["nontrivial"]


def chunk_specs(n, self_loops, chunk, keep_keys):
    total = 1 << len(pairs_of(n, self_loops))
    return [(n, self_loops, lo, min(lo + chunk, total), keep_keys) for lo in range(0, total, chunk)]


def check(ctx):
    # 1. fixed corpus first, 2. exhaustive small graphs, 3. random larger graphs, permuted / repeated request
    #    lists, dangling names — one batch, one driver process
    b = Batch()
    b.add_cases(corpus_cases())
    if native_exe() is None:
        ctx.note("native driver unavailable (" + _native["why"] + "): the interpreter (`lean --run`) answers every request")
    else:
        # the compiled driver must answer exactly like `lean --run Drivers/C34.lean` (corpus + all graphs on <= 3 targets)
        probe = list(b.lines) + [f"all {gstr(graph_of_mask(3, pairs_of(3, True), m))} 3" for m in range(512)]
        if driver(probe) != driver_interp(probe):
            from harness.common import BrokenCheck
            raise BrokenCheck("compiled driver and `lean --run` driver disagree")
        ctx.count("native_vs_interpreter_requests", len(probe))
        ctx.extra_cov["driver"] = "leanc-compiled Drivers/C34 (cross-checked against `lean --run` on %d requests)" % len(probe)
    for n, loops in ((1, False), (2, False), (3, False), (4, False), (1, True), (2, True), (3, True)):
        b.add_spec((n, loops, 0, 1 << len(pairs_of(n, loops))))
    b.add_cases(random_cases(ctx.rng, 6000 if ctx.thorough else 600))
    b.add_cases(permuted_request_cases(ctx.rng, 1500 if ctx.thorough else 150))
    # 3b. HISTORIES on one Project + TaskRunner object: every pair of request lists (all orders) on every graph
    #     with <= 3 targets, pairs of ascending subsets with self-loops, sampled triples / n=4 / edits in between
    b.add_histories(corpus_histories())
    for n in (1, 2, 3):
        b.add_histories(pair_histories(n, False, request_lists(n)))
        b.add_histories(pair_histories(n, True, subsets(n)))
    rng = ctx.rng
    b.add_histories(pair_histories(3, False, request_lists(3), length=3, rng=rng, per_graph=40))
    b.add_histories(pair_histories(4, False, request_lists(4), masks=[rng.getrandbits(12) for _ in range(300)], rng=rng, per_graph=12))
    b.add_histories(pair_histories(5, False, request_lists(5), masks=[rng.getrandbits(20) & rng.getrandbits(20) for _ in range(200)],
                                   length=3, rng=rng, per_graph=6))
    b.add_histories(edit_between_builds(3, [rng.getrandbits(6) for _ in range(12)], subsets(3)))
    b.add_histories(random_histories(rng, 30000 if ctx.thorough else 3000))
    merge(ctx, b.finish())
    nontriv_big = 0
    if ctx.thorough:
        # exhaustive n=5 (2^20 graphs x 31 requests) and n=4 with self-loops (2^16 x 15), in a process pool
        big = chunk_specs(4, True, 8192, False) + chunk_specs(5, False, 8192, False)
        hist_specs = ([("pairs-loops", 3, lo, lo + 32) for lo in range(0, 512, 32)]          # 512 graphs x 15^2 pairs
                      + [("triples", 3, lo, lo + 4) for lo in range(0, 64, 4)]               # 64 graphs x 15^3 triples
                      + [("pairs4", 4, lo, lo + 256) for lo in range(0, 4096, 256)]          # 4096 graphs x 15^2 pairs
                      + [("edits", 3, lo, lo + 8) for lo in range(0, 64, 8)])                # every single added dependency
        import multiprocessing as mp
        with mp.get_context("fork").Pool(min(12, os.cpu_count() or 2)) as pool:
            for s in pool.imap_unordered(exhaustive_chunk, big, chunksize=1):
                nontriv_big += merge(ctx, s)
            for s in pool.imap_unordered(history_chunk, hist_specs, chunksize=1):
                nontriv_big += merge(ctx, s)
        # 4. the order must not depend on the hash seed (set iteration): re-run a sample in subprocesses
        hashseed_runs(ctx)
    ctx.extra_cov["exhaustive_histories"] = (
        "every ordered pair of duplicate-free request lists (all orders) played on ONE Project+TaskRunner, for every digraph without "
        "self-loops on <=3 targets; every pair of ascending request subsets with self-loops on <=3 targets"
        + ("; thorough: all list pairs with self-loops (n<=3), all triples of lists (n=3), all pairs of ascending subsets on "
           "every 4-target digraph, [build, add any one missing dependency, build] on every 3-target digraph" if ctx.thorough else ""))
    ctx.extra_cov["exhaustive"] = True
    ctx.extra_cov["exhaustive_domain"] = (
        "all labelled digraphs without self-loops on 1..%d targets x all non-empty request subsets; with self-loops on 1..%d targets"
        % ((5, 4) if ctx.thorough else (4, 3)))
    if ctx.thorough:
        ctx.extra_cov["nontrivial_cases_not_keyed"] = nontriv_big
        ctx.note("distinct_nontrivial counts keyed cases only (n<=4 without self-loops, n<=3 with, corpus, random); the n=5 and "
                 "n=4-with-self-loops enumerations contribute a further %d non-trivial (graph, request) pairs" % nontriv_big)


def hashseed_cases(rng):
    cases = corpus_cases()
    for n in (3, 4):
        pairs = pairs_of(n, False)
        masks = range(1 << len(pairs)) if n == 3 else [rng.getrandbits(len(pairs)) for _ in range(400)]
        for mask in masks:
            g = graph_of_mask(n, pairs, mask)
            for req in subsets(n):
                cases.append({"graph": g, "n": n, "req": req, "k": mask % 97, "scheme": mask % 4})
    return cases + random_cases(rng, 300)


def hashseed_runs(ctx):
    cases = hashseed_cases(ctx.rng)
    payload = json.dumps([case_json(c, c["graph"], c["req"]) for c in cases])
    lines = [f"run {gstr(c['graph'])} {fmt(c['req'])}" for c in cases]
    model = driver(lines)
    for seed in ("1", "2", "random"):
        env = dict(os.environ, PYTHONHASHSEED=seed)
        p = subprocess.run([sys.executable, "-m", "harness.c34", "child"], cwd=str(VERIF), env=env, input=payload,
                           capture_output=True, text=True, timeout=600)
        if p.returncode != 0:
            from harness.common import BrokenCheck
            raise BrokenCheck("hash-seed child failed: " + p.stderr[-800:])
        impls = json.loads(p.stdout)
        for c, impl, m in zip(cases, impls, model):
            ctx.count("eval_run_hashseed")
            if impl != m:
                ctx.disagree(f"run under PYTHONHASHSEED={seed}", case_json(c, c["graph"], c["req"]), impl, m)
            fails = []
            evaluate(c["graph"], c["req"], impl, fails, "run")
            for sig, what in fails:
                ctx.fail(sig, f"{what}: graph {g_of(c['graph'])} request {c['req']} -> {impl} (PYTHONHASHSEED={seed})",
                         case_json(c, c["graph"], c["req"]), impl=impl, model=m, hashseed=seed)
    ctx.extra_cov["hashseeds"] = ["0 (in-process)", "1", "2", "random"]


def child_main():
    T = tasks_mod()
    out = []
    for j in json.loads(sys.stdin.read()):
        c = case_from_json(j)
        names = names_for(c["n"], c["scheme"])
        rank = {nm: i for i, nm in enumerate(names)}
        proj = make_project(T, c["graph"], names, c["k"])
        out.append(run_impl(T, proj, [names[r] for r in c["req"]], rank))
    sys.stdout.write(json.dumps(out))


def replay(ctx, rp):
    """re-run the recorded failing case (replays/C34/*.json) on the current code; then the corpus"""
    case = rp.get("case")
    if isinstance(case, dict) and "graph" in case:
        merge(ctx, replay_case(case))
    for d in rp.get("disagreements", []):
        if isinstance(d.get("case"), dict) and "graph" in d["case"]:
            merge(ctx, replay_case(d["case"]))
    b = Batch()
    b.add_cases(corpus_cases())
    b.add_histories(corpus_histories())
    merge(ctx, b.finish())


if __name__ == "__main__":
    sys.path.insert(0, str(VERIF))
    if sys.argv[1:] == ["child"]:
        child_main()
