"""C02 the optimizer preserves IR behaviour (every pass, every level).

check : for every input module (hand corpus, front-end produced, generated + "pessimised") and every
        pipeline (each of the 9 passes alone, api.optimize at levels 0/1/2/s)
        1. the REAL pass runs on a freshly built copy of the module (ppci objects built from the text form);
        2. Spec.IR (reference semantics, through Drivers/C02.lean) executes every entry function on several
           argument vectors BEFORE and AFTER; (return value, final globals, external-call trace) must be equal
           whenever the original run is defined (no UB, no undefined read, supported, terminates)
           -> `ctx.fail("<pipeline>:<class>")` with the module text, entry and arguments (replayable);
        3. for the 7 modelled passes the Lean model pass (`Model.Opt`) runs on the same text and must give an
           alpha-equivalent module (positional renaming) -> `ctx.disagree`;
        4. (validator, when built) every real before/after pair of a covered pass goes through the Lean checker.
"""
import concurrent.futures
import io
import json
import os
import re

from . import common, irgen, irrun, irser
from . import c02_ir as T

PROP = "C02"
LEAN_PROPS = "PpciVerif/Props/C02.lean"
LEAN_TARGETS = ["PpciVerif.Props.C02", "Drivers.C02"]
LEVEL = "proof"
LEVEL_TEXT = (
    "Lean theorems about the reference IR semantics Spec.IR (small-step, explicit frame stack, memory, external-call trace), for ALL "
    "modules, functions, argument vectors, oracles of the external functions, configurations and fuel: (1) the SSA equation lemma "
    "(DESIGN S6) as an invariant of execution: in every activation, every pure instruction x := op(a..) whose definition strictly "
    "dominates the program point satisfies env x = [[op]](env a..) although x and a are re-assigned on every loop iteration "
    "(ssa_equations_invariant; from checked facts: unique definitions, dominance table closed along edges and antisymmetric, uses "
    "dominated); (2) verified validators (shape V) with `check m m' = true -> every defined run of m (no UB, no undefined read) is "
    "reproduced by m' with the same return value, final global memory and external-call trace`: checkAlign (deletion of unused "
    "side-effect-free instructions + insertion of fresh constants: DeleteUnusedInstructionsPass, insertion half of ConstantFolder; no "
    "well-formedness assumption) and checkSubst (operands replaced by operands justified equal by the S6 equations: CSE, merged "
    "constants, folded integer constant expressions, and x+0 / 0+x / x*1 at integer types using (3) the typing invariant `every "
    "integer-typed local holds a value in the range of its type` (typing_invariant, from the checked facts tyCheck): "
    "CommonSubexpressionEliminationPass, RemoveAddZeroPass (integer types), replace_by half of ConstantFolder, and the folding "
    "decision of CJumpPass: a conditional jump on two known integer constants becomes the jump it takes; the integer chain rewrite "
    "(y+-c1)+-c2 -> y+-c3 of ConstantFolder; and, using (4) the load-after-store invariant (load_after_store_invariant: a "
    "memory-window invariant - between `store (int t) v p` and a later `load (int t) p` of the same block with no store / call / "
    "CopyBlob / asm in between the bytes at p encode v - plus env x = env v wherever the load dominates), the forwarding half of "
    "LoadAfterStorePass), and their composition. "
    "Every real output of those passes is fed through the checkers on every run (for CJumpPass: the folded jumps only, not its "
    "pruning of phi inputs and unreachable blocks). For all 9 passes and api.optimize "
    "at levels 0/1/2/s the property itself is evaluated on the real code: Spec.IR executes every entry function before and after on "
    "argument vectors (corpus, front-end produced, generated and pessimised modules) and compares (return, globals, trace); 7 passes "
    "have Lean models (Model.Opt) that must reproduce the real output up to renaming."
)
LEVEL_NOTE = (
    "NOT proved (notes/C02.md): behaviour preservation of RemoveAddZeroPass on pointer/float types (p+0 is NOT p in Spec.IR with "
    "16-bit pointers: ptr_add_zero_of_inRange proves it under the explicit hypothesis that the pointer is in range, Spec.IR does "
    "not guarantee that), pointer-typed constant chains, the pruning step of CJumpPass (phi inputs of the not-taken arm, "
    "unreachable blocks), the store-removal half of LoadAfterStorePass (deadStoreRemoval_full), CleanPass (no CFG-restructuring "
    "validator: cleanPass_full), Mem2RegPromotor (promote_sound_full stated only), "
    "TailCallOptimization and the level pipelines: for these only the always-on failing-input search runs (absence of a failing input "
    "proves nothing). The validators do not cover removal of unused alloc/literal (memory layout changes), pointer/float constant "
    "folding, indirect-callee replacement. Trusted: Lean kernel; axioms propext/Classical.choice/Quot.sound; Spec.IR (validated "
    "against ir2py and native x86-64, notes/IR.md); harness/irser.py + harness/c02_ir.py (text <-> ppci objects); the hand models "
    "Model.Opt are tied by sampled correspondence, not proved equal to the Python passes; floats are executed, not reasoned about."
)
TECHNIQUE = ("Lean 4 proof: forward simulation with stuttering over the small-step semantics (Proofs/Opt/Align), execution invariant for "
             "the SSA equations from checked dominance facts (Proofs/Opt/SSA), lock-step simulation for operand substitution "
             "(Proofs/Opt/Subst); translation validation of every real pass output by the verified checkers; differential "
             "correspondence model pass vs real pass; always-on before/after execution in the reference semantics")
RULE = ("inputs: 27 hand-written corpus modules + 2 mixed-width modules of 24 functions each (wide/narrow stores to one address, all "
        "orders, separators, volatility; on a global and a stack slot) (every known finding, boundary shapes: critical edges, one-input phis, duplicate operand "
        "slots, aliasing stores, memcpy between store and load, constant comparisons at the boundary, signed/unsigned constant "
        "arithmetic, signed zeros, tail calls, promotable slots in loops), 8 C front-end modules, G-IR generated modules (6 quick / 32 "
        "thorough) of which 2/3 are pessimised (x+0, x*1, constant expressions with boundary operands whose value is subtracted again, "
        "constant conditional jumps with a dead arm sharing the successor, values and phis demoted to stack slots, narrower stores of "
        "the low bytes next to wide stores, stack slots copied to globals before every return); 9 C modules incl. union/char* punning; pipelines: each of "
        "the 9 passes alone and api.optimize at 0/1/2/s; 2-3 argument vectors per entry (boundary biased). distinct = distinct "
        "(module, pipeline, entry, arguments); non-trivial = the pipeline changed the module")
TRUSTED = [
    "Spec.IR reference semantics (notes/IR.md) and its S-expression reader Spec.IRParse",
    "harness/irser.py (ppci objects -> text) and harness/c02_ir.py (text -> ppci objects via the public constructors, alpha-normal form, pessimiser, mid-module construction for constant folding)",
    "hand models Model.Opt of the 7 passes (tied by differential run on every check, not proved)",
    "Model.OptCheck.computeDoms is NOT trusted: its result is checked by ssaCheck, and the proofs use only the checked facts",
]
ASSUMPTIONS = [
    "a run is 'defined' iff Spec.IR.exec returns .ok (no UB, no use of an undefined value, nothing unsupported such as inline asm, fuel sufficient); only defined runs are compared / covered by the theorems",
    "api.optimize runs the same pass list for levels 1, 2 and s (checked by reading ppci/api.py); level 0 is the identity",
    "address-dependent programs (pointer values observed as integers) are outside the comparison",
]

FUEL = 60000
WORKERS = int(os.environ.get("C02_WORKERS", "4"))

MODELLED = ["addzero", "constfold", "cse", "cjump", "delunused", "las", "clean"]
SINGLE = MODELLED + ["mem2reg", "tailcall"]
LEVELS = ["O0", "O1", "O2", "Os"]
# pass -> Lean-verified validator that every real output of the pass goes through (Model.OptCheck)
VALIDATED = {"delunused": ["align"], "cse": ["subst"], "addzero": ["subst"], "constfold": ["align", "subst"],
             "cjump": ["subst"],     # cjump: only the folding decision (before -> before with the folded jumps)
             "las": ["subst"]}       # las: the forwarding half (before -> after with the removed stores put back)


def pass_object(name):
    from ppci import opt
    from ppci.opt.cjmp import CJumpPass
    from ppci.opt.tailcall import TailCallOptimization
    return {
        "addzero": opt.RemoveAddZeroPass, "constfold": opt.ConstantFolder,
        "cse": opt.CommonSubexpressionEliminationPass, "cjump": CJumpPass,
        "delunused": opt.DeleteUnusedInstructionsPass, "las": opt.LoadAfterStorePass,
        "clean": opt.CleanPass, "mem2reg": opt.Mem2RegPromotor, "tailcall": TailCallOptimization,
    }[name]()


def run_pipeline(tree, pname):
    """-> (after_text | None, exception name | None)"""
    from ppci import api
    m, _ = T.load_module(tree)
    try:
        if pname in LEVELS:
            api.optimize(m, level=pname[1:])
        else:
            for p in pname.split("+"):
                pass_object(p).run(m)
    except Exception as e:  # noqa
        return None, (raising_pass(e.__traceback__) or pname, type(e).__name__)
    return irser.serialize(m), None


SHORT = {"RemoveAddZeroPass": "addzero", "ConstantFolder": "constfold", "CommonSubexpressionEliminationPass": "cse",
         "CJumpPass": "cjump", "DeleteUnusedInstructionsPass": "delunused", "LoadAfterStorePass": "las",
         "CleanPass": "clean", "Mem2RegPromotor": "mem2reg", "TailCallOptimization": "tailcall"}


def raising_pass(tb):
    """short name of the pass object whose `run` is on the traceback (so that a pipeline failure is attributed
    to the pass that raised, whatever the level)"""
    from ppci.opt.transform import ModulePass
    while tb is not None:
        me = tb.tb_frame.f_locals.get("self")
        if isinstance(me, ModulePass):
            return SHORT.get(type(me).__name__, type(me).__name__)
        tb = tb.tb_next
    return None


# ---- inputs ---------------------------------------------------------------------------------------------

def K(name, funcs, vars_="", externs=""):
    return f"(module {name} (externs{externs}) (vars{vars_}) (funcs {funcs}))"


CORPUS = [
    # CleanPass.remove_empty_blocks on a critical edge: A -> T directly and through the empty block E
    ("clean-critical-edge", K("k1", "(func f global i32 A (params (x i32)) (blocks "
     "(block A (const %z i32 0) (const %c1 i32 11) (const %c2 i32 22) (cjump %x eq %z E T)) "
     "(block E (jump T)) (block T (phi %p i32 (A %c1) (E %c2)) (ret %p))))"),
     {"f": [[0], [1], [-5]]}),
    ("clean-two-empty-arms", K("k1b", "(func f global i32 A (params (x i32)) (blocks "
     "(block A (const %z i32 0) (const %c1 i32 11) (const %c2 i32 22) (cjump %x eq %z E1 E2)) "
     "(block E1 (jump T)) (block E2 (jump T)) (block T (phi %p i32 (E1 %c1) (E2 %c2)) (ret %p))))"),
     {"f": [[0], [1]]}),
    # LoadAfterStore: CopyBlob between the store and the load
    ("las-copyblob-load", K("k2", "(func f global i32 e (params (a i32) (b i32)) (blocks (block e "
     "(alloc %s 8 4) (addrof %ps %s) (alloc %t 8 4) (addrof %pt %t) (store i32 %b %pt) (store i32 %a %ps) "
     "(copyblob %ps %pt 4) (load %r i32 %ps) (ret %r))))"),
     {"f": [[1, 2], [7, -9]]}),
    ("las-copyblob-deadstore", K("k2b", "(func f global i32 e (params (a i32) (b i32)) (blocks (block e "
     "(alloc %s 8 4) (addrof %ps %s) (alloc %t 8 4) (addrof %pt %t) (store i32 %b %pt) (store i32 %a %ps) "
     "(copyblob %pt %ps 4) (store i32 %b %ps) (load %r i32 %pt) (ret %r))))"),
     {"f": [[1, 2], [7, -9]]}),
    # Value.replace_by on a user that holds the value in two operand slots
    ("replace-two-slots", K("k3", "(func f global i32 e (params (x i32)) (blocks (block e "
     "(const %z i32 0) (binop %y i32 add %x %z) (binop %w i32 mul %y %y) (ret %w))))"),
     {"f": [[3], [-4]]}),
    ("replace-two-call-args", K("k4", "(func g local i32 e (params (a i32) (b i32)) (blocks (block e "
     "(binop %r i32 sub %a %b) (ret %r)))) (func f global i32 e (params (x i32)) (blocks (block e "
     "(const %z i32 0) (const %k i32 5) (binop %y i32 add %x %z) (binop %q i32 add %y %k) (fcall %r i32 @g %q %y) (ret %r))))"),
     {"f": [[3], [-4]]}),
    ("cse-two-slots", K("k3b", "(func f global i32 e (params (x i32) (y i32)) (blocks (block e "
     "(binop %a i32 add %x %y) (binop %b i32 add %x %y) (binop %w i32 mul %b %b) (ret %w))))"),
     {"f": [[3, 4], [-4, 9]]}),
    # constant chain on pointers: (p + 4) + 4
    ("constfold-ptr-chain", K("k5", "(func f global i32 e (params) (blocks (block e "
     "(const %c4 ptr 4) (binop %p1 ptr add @gv %c4) (binop %p2 ptr add %p1 %c4) (load %v i32 %p2) (ret %v))))",
     vars_=" (var gv global 16 4 (init (bytes 0100000002000000030000000400000)))".replace("0400000)", "04000000)")),
     {"f": [[]]}),
    # floating point chain (x + 0.1) + 0.2 is not x + 0.30000000000000004
    ("constfold-float-chain", K("k6", "(func f global f64 e (params (x f64)) (blocks (block e "
     "(fconst %c1 f64 4591870180066957722) (fconst %c2 f64 4596373779694328218) "
     "(binop %y f64 add %x %c1) (binop %w f64 add %y %c2) (ret %w))))"),
     {"f": [[2.2], [-0.1], [10.1], [1.0]]}),
    # IEEE signed zeros: x + 0.0 is not x for x = -0.0 ; the constants 0.0 and -0.0 are different values
    ("addzero-negative-zero", K("k12", "(func f global f64 e (params (x f64)) (blocks (block e "
     "(fconst %z f64 0) (binop %y f64 add %x %z) (ret %y)))) (func g global f64 e (params (x f64)) (blocks (block e "
     "(fconst %z f64 0) (binop %y f64 add %z %x) (ret %y))))"),
     {"f": [[-0.0], [0.0], [1.5]], "g": [[-0.0], [2.5]]}),
    ("cse-signed-zero-consts", K("k13", "(func f global f64 e (params (x f64)) (blocks (block e "
     "(fconst %pz f64 0) (fconst %nz f64 9223372036854775808) (binop %a f64 mul %x %pz) (binop %b f64 add %a %nz) (ret %b))))"),
     {"f": [[1.0], [-1.0]]}),
    # an unused result does not make a call dead
    ("delunused-unused-call", K("k14", "(func f global i32 e (params (x i32)) (blocks (block e "
     "(fcall %r i32 @ext %x) (fcall %q i32 @g %x) (ret %x)))) (func g local i32 e (params (a i32)) (blocks (block e "
     "(store i32 %a @gv) (ret %a))))", vars_=" (var gv global 4 4)", externs=" (xfunc ext i32 (i32))"),
     {"f": [[3], [-4]]}),
    # two different SSA addresses of the same slot: the second store must not be skipped
    ("las-aliasing-stores", K("k15", "(func f global i32 e (params (a i32) (b i32)) (blocks (block e "
     "(alloc %s 4 4) (addrof %p1 %s) (addrof %p2 %s) (store i32 %a %p1) (store i32 %b %p2) (load %r i32 %p1) (ret %r))))"),
     {"f": [[1, 2], [7, -9]]}),
    # constant conditions on the boundary of every comparison, signed and unsigned
    ("cjump-boundaries", K("k16", "(func f global i32 e (params (x i32)) (blocks "
     "(block e (const %a i32 5) (const %b i32 5) (const %m i32 -1) (const %u u32 4294967295) (const %w u32 1) "
     "(const %one i32 1) (const %two i32 2) (const %four i32 4) (const %eight i32 8) (cjump %a le %b l1 n1)) "
     "(block n1 (binop %x1 i32 add %x %one) (jump j1)) (block l1 (jump j1)) "
     "(block j1 (phi %y1 i32 (n1 %x1) (l1 %x)) (cjump %a ge %b l2 n2)) "
     "(block n2 (binop %x2 i32 add %y1 %two) (jump j2)) (block l2 (jump j2)) "
     "(block j2 (phi %y2 i32 (n2 %x2) (l2 %y1)) (cjump %m lt %a l3 n3)) "
     "(block n3 (binop %x3 i32 add %y2 %four) (jump j3)) (block l3 (jump j3)) "
     "(block j3 (phi %y3 i32 (n3 %x3) (l3 %y2)) (cjump %u gt %w l4 n4)) "
     "(block n4 (binop %x4 i32 add %y3 %eight) (jump j4)) (block l4 (jump j4)) "
     "(block j4 (phi %y4 i32 (n4 %x4) (l4 %y3)) (cjump %a lt %b n5 l5)) "
     "(block n5 (binop %x5 i32 mul %y4 %eight) (jump j5)) (block l5 (jump j5)) "
     "(block j5 (phi %y5 i32 (n5 %x5) (l5 %y4)) (cjump %a ne %b n6 l6)) "
     "(block n6 (binop %x6 i32 mul %y5 %four) (jump j6)) (block l6 (jump j6)) "
     "(block j6 (phi %y6 i32 (n6 %x6) (l6 %y5)) (ret %y6))))"),
     {"f": [[3], [-4]]}),
    # constant expressions with negative operands of >> and %, shifts at the edge of the width
    ("constfold-signs", K("k17", "(func f global i32 e (params (x i32)) (blocks (block e "
     "(const %m8 i32 -8) (const %c1 i32 1) (const %c31 i32 31) (const %c3 i32 3) (const %m7 i32 -7) (const %min i32 -2147483648) "
     "(binop %s1 i32 shr %m8 %c1) (binop %s2 i32 shr %min %c31) (binop %r1 i32 rem %m7 %c3) (binop %l1 i32 shl %c3 %c31) "
     "(binop %t1 i32 add %x %s1) (binop %t2 i32 add %t1 %s2) (binop %t3 i32 add %t2 %r1) (binop %t4 i32 xor %t3 %l1) (ret %t4)))) "
     "(func g global u8 e (params (x u8)) (blocks (block e (const %a u8 200) (const %b u8 100) (const %c u8 3) "
     "(binop %s u8 add %a %b) (binop %h u8 shr %a %c) (binop %m u8 mul %a %c) (binop %t1 u8 add %x %s) (binop %t2 u8 add %t1 %h) "
     "(binop %t3 u8 xor %t2 %m) (ret %t3))))"),
     {"f": [[3], [-4]], "g": [[1], [255]]}),
    # self tail call
    ("tailcall-sum", K("k7", "(func sum global i32 e (params (n i32) (acc i32)) (blocks "
     "(block e (const %z i32 0) (cjump %n le %z done rec)) (block done (ret %acc)) "
     "(block rec (const %one i32 1) (binop %n1 i32 sub %n %one) (binop %a1 i32 add %acc %n) "
     "(fcall %r i32 @sum %n1 %a1) (ret %r))))"),
     {"sum": [[0, 5], [4, 0], [10, 1]]}),
    # single-predecessor block with a (one input) phi: glue_blocks moves the phi into the predecessor
    ("clean-glue-phi", K("k8", "(func f global i32 A (params (x i32)) (blocks "
     "(block A (const %one i32 1) (binop %y i32 add %x %one) (jump B)) "
     "(block B (phi %p i32 (A %y)) (binop %q i32 mul %p %p) (ret %q))))"),
     {"f": [[3], [-4]]}),
    # constant folding must not touch a dead, undefined operation
    ("constfold-dead-rem0", K("k11", "(func f global i32 e (params (x i32)) (blocks "
     "(block e (const %z i32 0) (const %c7 i32 7) (cjump %z ne %z dead live)) "
     "(block dead (binop %u i32 rem %c7 %z) (ret %u)) (block live (ret %x))))"),
     {"f": [[3]]}),
    # unsigned constant comparison
    ("cjump-unsigned", K("k10", "(func f global i32 e (params (x i32)) (blocks "
     "(block e (const %a u8 200) (const %b u8 100) (const %one i32 1) (cjump %a gt %b yes no)) "
     "(block yes (binop %r i32 add %x %one) (ret %r)) (block no (ret %x))))"),
     {"f": [[3]]}),
    # mem2reg: diamond with stores in both arms, load at the join, loop carried slot
    ("mem2reg-diamond-loop", K("k9", "(func f global i32 e (params (x i32) (n i32)) (blocks "
     "(block e (alloc %s 4 4) (addrof %p %s) (const %z i32 0) (const %one i32 1) (store i32 %x %p) (jump h)) "
     "(block h (phi %i i32 (e %z) (j %i1)) (cjump %i lt %n body out)) "
     "(block body (load %v i32 %p) (binop %odd i32 and %v %one) (cjump %odd eq %z a b)) "
     "(block a (binop %va i32 add %v %i) (store i32 %va %p) (jump j)) "
     "(block b (binop %vb i32 sub %v %one) (store i32 %vb %p) (jump j)) "
     "(block j (binop %i1 i32 add %i %one) (jump h)) "
     "(block out (load %r i32 %p) (ret %r))))"),
     {"f": [[5, 3], [8, 0], [-7, 6]]}),
]

def mixed_width_corpus():
    """wide and narrow accesses to ONE address value: every order, separator and volatility, on a global and on a
    stack slot; the wide value is read back (and the global is compared byte by byte)"""
    ARG = {"i32": [0x11223344, -2], "u32": [4000000000, 7], "i64": [0x1122334455667788, -2], "i16": [0x1234, -3]}
    NARG = {"i8": [5, -128], "u8": [200, 0], "i16": [0x1234, -1], "u16": [65000, 1], "i32": [0x55667788, -7], "u32": [3, 4000000000]}
    out = []
    for target in ("glob", "slot"):
        funcs, fixed, n = [], {}, 0
        P = "@mw" if target == "glob" else "%p"
        pre = "" if target == "glob" else "(alloc %s 8 8) (addrof %p %s) (const %z u64 0) (store u64 %z %p) "
        combos = [("i32", "i8"), ("i64", "i16"), ("u32", "u8"), ("i32", "u16"), ("i64", "u32"), ("i16", "u8")]
        scen = []
        for W, N in combos:
            scen += [(W, N, "WN", "none", "", ""), (W, N, "NW", "none", "", "")]
        W, N = "i32", "i8"
        for sep in ("load", "call", "copy"):
            scen.append((W, N, "WN", sep, "", ""))
        scen += [(W, N, "WN", "none", "v", ""), (W, N, "WN", "none", "", "v"), ("i64", "i8", "WN", "none", "v", "v"),
                 (W, N, "WoN", "none", "", ""), ("i64", "u16", "WoN", "none", "", ""),
                 ("i32", "u32", "WN", "none", "", ""), ("u32", "i32", "NW", "none", "", ""),
                 (W, N, "WNN", "none", "", ""), (W, N, "WlN", "none", "", "")]
        for (W, N, order, sep, v1, v2) in scen:
            name = f"mw{n}_{order}_{W}_{N}_{sep}{v1}{v2}"
            n += 1
            sw = f"({v1}store {W} %a1 {P})"
            sn = f"({v2}store {N} %b {P})"
            sepi = {"none": "", "load": f" (load %t {N} {P})", "call": " (pcall @mwext)",
                    "copy": f" (copyblob @mwh {P} 4)"}[sep]
            if order == "WN":
                body = f"{sw}{sepi} {sn}"
            elif order == "NW":
                body = f"{sn}{sepi} {sw}"
            elif order == "WoN":
                body = f"{sw} (const %o ptr 1) (binop %q ptr add {P} %o) ({v2}store {N} %b %q)"
            elif order == "WNN":
                body = f"{sw} {sn} (store {N} %b {P})"
            else:  # wide store, narrow load, narrow store of the loaded value + b
                body = f"{sw} (load %t {N} {P}) (binop %u {N} add %t %b) (store {N} %u {P})"
            funcs.append(f"(func {name} global {W} e (params (a {W}) (b {N})) (blocks (block e "
                         f"(const %one {W} 1) (binop %a1 {W} add %a %one) {pre}{body} (load %r {W} {P}) (ret %r))))")
            fixed[name] = [[x, y] for x, y in zip(ARG[W], NARG[N])]
        text = K("mw_" + target, " ".join(funcs),
                 vars_=" (var mw global 8 8) (var mwh global 8 8)", externs=" (xproc mwext ())")
        out.append(("mixed-width-" + target, text, fixed))
    return out


C_EXTRA = {
    "punning": ("""
union U { int i; char c; short s; unsigned char b[4]; };
union U gu;
int pun1(int a, int b) { union U u; u.i = a; u.c = b; return u.i; }
int pun2(int a, int b) { union U u; u.c = b; u.i = a; return u.i; }
int pun3(int a, int b) { union U u; u.i = a; u.s = b; return u.i + u.c; }
int pun4(int a, int b) { gu.i = a; gu.c = b; return gu.i + gu.b[1]; }
int pun5(int a, int b) { union U u; u.i = a; u.b[0] = b; u.b[2] = a; return u.i; }
int alias1(int a, int b) { int x = a; char *p = (char*)&x; *p = b; return x; }
int alias2(int a, int b) { int x = a; char *p = (char*)&x; p[1] = b; p[0] = a; return x; }
int alias3(int a, int b) { int x; short *q = (short*)&x; x = a; *q = b; return x; }
""", ["pun1", "pun2", "pun3", "pun4", "pun5", "alias1", "alias2", "alias3"]),
    "structcopy": ("""
struct S { int x; int y; };
int sc(int a, int b) { struct S s; struct S t; t.x = b; t.y = 1; s.y = 2; s.x = a; s = t; return s.x; }
int sc2(int a, int b) { struct S s; struct S t; s.x = a; s.y = b; t = s; s.x = b; return t.x + s.x; }
""", ["sc", "sc2"]),
    "tail": ("""
int tsum(int n, int acc) { if (n <= 0) return acc; return tsum(n - 1, acc + n); }
int gcd(int a, int b) { if (b == 0) return a; return gcd(b, a % b); }
int tdrv(int a) { return tsum(a & 15, 1) + gcd((a & 63) + 1, 12); }
""", ["tsum", "tdrv"]),
    "locals": ("""
int g1; short g2[4];
int loc(int a, int b) { int x = a + 0; int y = b * 1; int z = x + y; int w = x + y; if (a > b) { z = z - w + 1; } else { w = w + 3; } g1 = z; return z * w + (a + 0) * (a + 0); }
int cnt(int n) { int s = 0; int i; for (i = 0; i < (n & 7); i = i + 1) { s = s + i + 2 + 3; g2[i & 3] = s; } return s; }
unsigned char nar(unsigned char a, signed char b) { unsigned char c = a + 200; signed char d = b - 100; if (c > 100) return c - d; return d; }
long long wide(long long a, int b) { long long t = a; if (b & 1) t = t + 1 + 1; else t = t - 1 - 1; return t * 3; }
""", ["loc", "cnt", "nar", "wide"]),
    "ptrs": ("""
int arr2[3][4];
int idx(int a, int b) { arr2[a & 1][b & 3] = a + b; arr2[1][1] = 7; return arr2[a & 1][b & 3] + arr2[1][1]; }
int sel(int a) { int v[4]; int *p = v; p[0] = a; p[1] = a + 1; *(p + 1 + 1) = a + 2; return p[0] + *(p + 1) + *(p + 2); }
""", ["idx", "sel"]),
}


def c_texts():
    from ppci import api, ir
    out = []
    for g in irgen.c_modules("x86_64"):
        out.append(("c:" + g.module.name, irser.serialize(g.module), {e.name for e in g.entries}))
    for name, (src, ents) in C_EXTRA.items():
        m = api.c_to_ir(io.StringIO(src), "x86_64")
        m.name = "cx_" + name
        out.append(("c:" + m.name, irser.serialize(m), set(ents)))
    return out


def gen_texts(ctx, n):
    out = []
    cfgs = [
        dict(),
        dict(copyblob=False, externals=False),
        dict(max_funcs=2, total_stmts=30, int_types=[irgen.ir.i32, irgen.ir.u8, irgen.ir.i64]),
        dict(floats=True),
        dict(max_funcs=1, total_stmts=25, max_depth=2, calls=False),
        dict(allocas=False, globals=False, ptr_params=False, copyblob=False, max_funcs=2, total_stmts=40),
    ]
    for k in range(n):
        kw = cfgs[k % len(cfgs)]
        g = irgen.gen_module(ctx.rng, irgen.GenConfig(**kw), name=f"gen{k}")
        text = irser.serialize(g.module)
        tree = T.parse(text)
        mode = k % 3
        if mode == 1:
            cnt = T.pessimize(ctx.rng, tree)
        elif mode == 2:
            cnt = T.pessimize(ctx.rng, tree, addzero=5, cjump=4, demote=4, demote_phi=2, constexpr=6, punstore=4, expose=2, twin=4)
        else:
            cnt = {}
        for kk, v in cnt.items():
            ctx.count(f"pessimise_{kk}", v)
        out.append((f"gen{k}/{'plain' if not mode else 'pess' + str(mode)}", T.show(tree), None))
    return out


# ---- classification of a difference -------------------------------------------------------------------------

def parts(reply):
    """'ok ret=… globals=… trace=…' -> dict"""
    d = {}
    for w in reply.split(" "):
        if "=" in w and w.split("=", 1)[0] in ("ret", "globals", "trace"):
            d[w.split("=", 1)[0]] = w.split("=", 1)[1]
    return d


def defined(reply):
    return reply.startswith("ok ret=")


def diff_class(before, after):
    if defined(after):
        pb, pa = parts(before), parts(after)
        what = [k for k in ("ret", "globals", "trace") if pb.get(k) != pa.get(k)]
        return "differs:" + "+".join(what)
    w = after.split(" ")
    kind = w[1] if len(w) > 1 else "?"
    why = re.sub(r"[^A-Za-z_→]+", "", re.sub(r"_(for_predecessor|value|block|global|of)_.*", r"_\1", w[2] if len(w) > 2 else ""))
    return f"after-{kind}:{why[:40]}"


# ---- one module group ---------------------------------------------------------------------------------------------

def argvecs(ctx, entries, only, fixed):
    from ppci import ir
    cases = []
    for (name, pts, ret, ok) in entries:
        if not ok or (only is not None and name not in only):
            continue
        e = irgen.Entry(name, pts, ret, True)
        if fixed and name in fixed:
            vecs = fixed[name]
        else:
            vecs = irgen.gen_args(ctx.rng, e, 3 if ctx.thorough else 2)
        for a in vecs:
            cases.append((e, a))
    return cases


def run_line(e, a):
    s = " ".join(irrun.show_arg(t, v) for t, v in zip(e.params, a))
    return f"run {e.name} {FUEL}{' ' if s else ''}{s}"


def process(ctx, tag, text, only, fixed, pipelines):
    """build the driver script of one module: returns (lines, plan) ; plan interprets the replies"""
    tree = T.parse(text)
    try:
        _, entries = T.load_module(tree)
    except T.LoadError as ex:
        ctx.count("input_not_loadable")
        ctx.note(f"{tag}: {ex}")
        return None
    cases = argvecs(ctx, entries, only, fixed)
    runs = [run_line(e, a) for e, a in cases]
    lines = ["config ptr 8", "load " + text, "wf"] + runs
    plan = {"tag": tag, "text": text, "cases": [(e.name, a) for e, a in cases], "nruns": len(runs), "variants": []}
    for p in pipelines:
        after, exc = run_pipeline(tree, p)
        v = {"pipeline": p, "after": after, "exc": exc, "model_at": None, "after_at": None, "check_at": None}
        if p in MODELLED:
            v["model_at"] = len(lines)
            lines.append("load " + text)
            lines.append("pass " + p)
        if after is not None and p in VALIDATED:
            stages = VALIDATED[p]
            if p == "cjump":
                mids = [fold_module(text, after)]
            elif p == "las":
                mids = [forward_module(text, after)]
                if T.show(T.parse(mids[0])) != after:
                    v["las_removed_stores"] = True
            else:
                mids = [after] if len(stages) == 1 else [mid_module(text, after), after]
            v["check_at"] = []
            lines.append("load " + text)
            for kind, mtext in zip(stages, mids):
                lines += ["keep", "load " + mtext, "check " + kind]
                v["check_at"].append(len(lines) - 1)
        if after is not None:
            v["after_at"] = len(lines)
            lines += ["load " + after] + runs
        plan["variants"].append(v)
    return lines, plan


def evaluate(ctx, plan, replies):
    tag, text = plan["tag"], plan["text"]
    n = plan["nruns"]
    if replies[1].startswith("bad-op"):
        raise common.BrokenCheck(f"{tag}: the driver cannot parse the module text")
    if replies[2] != "ok 1":
        ctx.count("input_not_wf")
        ctx.note(f"{tag}: input rejected by Spec.IR wf: {replies[2][:120]}")
        return
    ctx.count("modules")
    before = [irrun.strip_steps(r) for r in replies[3:3 + n]]
    for b in before:
        ctx.count("before_" + (b.split(" ")[1].split("=")[0] if b.startswith("ok ") else "bad"))
    for v in plan["variants"]:
        p = v["pipeline"]
        ctx.count("programs")
        case0 = {"module": text, "pipeline": p, "tag": tag}
        exc = None
        if v["exc"] is not None:
            who, exc = v["exc"]
            ctx.count(f"exception_{p}")
            ctx.fail(f"{who}:exception:{exc}", f"{who} raises {exc} on a well-formed module (pipeline {p})", case0)
        if v["model_at"] is not None:
            mr = replies[v["model_at"] + 1]
            ctx.count("eval_model_vs_pass")
            if exc is not None:
                if mr != "err " + exc:
                    ctx.disagree(f"{p}: exception", case0, "err " + exc, mr[:200])
            elif not mr.startswith("ok "):
                ctx.disagree(f"{p}: model raises", case0, "ok", mr[:200])
            else:
                cm = T.show(T.canon(T.parse(mr[3:])))
                ci = T.show(T.canon(T.parse(v["after"])))
                if cm != ci:
                    ctx.disagree(f"{p}: model output differs from the real pass (alpha-normal forms)", case0,
                                 _first_diff(ci, cm), _first_diff(cm, ci))
        if v["check_at"] is not None:
            crs = [replies[k] for k in v["check_at"]]
            ctx.count("eval_validator")
            if all(cr == "ok 1" for cr in crs):
                ctx.count(f"validated_{p}")
                if v["after"] != text:
                    ctx.count(f"validated_changed_{p}")
            elif outside_validator_class(p, text, v["after"]):
                ctx.count(f"validator_not_applicable_{p}")
            else:
                ctx.count(f"validator_rejected_{p}")
                ctx.disagree(f"{p}: the Lean validator {'+'.join(VALIDATED[p])} rejects the real pass output", case0,
                             "accept", " ".join(crs))
            if v.get("las_removed_stores"):
                ctx.count("las_outputs_with_removed_stores_(removal_half_not_validated)")
        if v["after_at"] is None:
            continue
        at = v["after_at"]
        changed = v["after"] != text
        ctx.count(f"changed_{p}" if changed else f"unchanged_{p}")
        if replies[at].startswith("bad-op"):
            ctx.fail(f"{p}:output-not-parsable", "the output module is not expressible (dangling reference)", case0)
            continue
        after = [irrun.strip_steps(r) for r in replies[at + 1: at + 1 + n]]
        for (fname, args), b, a in zip(plan["cases"], before, after):
            if not defined(b):
                ctx.count("skipped_original_not_defined")
                continue
            ctx.count("eval_behaviour")
            if changed:
                ctx.nontrivial((tag, p, fname, tuple(args)))
            if irrun.same_modulo_undef(b, a):
                continue
            cls = diff_class(b, a)
            ctx.fail(f"{p}:{cls}", f"behaviour of {fname}{tuple(args)} changes: before `{b[:160]}` after `{a[:160]}`",
                     dict(case0, entry=fname, args=[repr(x) for x in args]), before=b, after=a, after_module=v["after"])
    ctx.sample({"module": tag, "pipelines": len(plan["variants"]), "runs": n})


def mid_module(before, after):
    """`before` plus the constants that are new in `after`, inserted where `after` has them (constant folding =
    insertion of constants [validator align] followed by replacement of operands [validator subst])"""
    tb, ta = T.parse(before), T.parse(after)
    for fb, fa in zip(T.funcs_of(tb), T.funcs_of(ta)):
        have = {T.dst_of(i) for b in T.blocks_of(fb) for i in b[2:] if T.dst_of(i)}
        for bb, ba in zip(T.blocks_of(fb), T.blocks_of(fa)):
            out, k = [], 2
            for i in ba[2:]:
                if i[0] in ("const", "fconst") and T.dst_of(i) not in have:
                    out.append(i)
                elif k < len(bb):
                    out.append(bb[k])
                    k += 1
            out += bb[k:]
            bb[2:] = out
    return T.show(tb)


def forward_module(before, after):
    """the output of LoadAfterStore with the stores it removed put back (aligned from the end of each block: of
    two stores to one address the later one survives): the forwarding half, which `checkSubst` covers"""
    tb, ta = T.parse(before), T.parse(after)
    for fb, fa in zip(T.funcs_of(tb), T.funcs_of(ta)):
        for bb, ba in zip(T.blocks_of(fb), T.blocks_of(fa)):
            out, j = [], len(ba) - 1
            for i in reversed(bb[2:]):
                a = ba[j] if j >= 2 else None
                same = a is not None and a[0] == i[0] and (T.dst_of(a) == T.dst_of(i)) and \
                    (i[0] not in ("store", "vstore") or a[1] == i[1])
                if same:
                    out.append(a)
                    j -= 1
                else:
                    out.append(i)
            ba[2:] = list(reversed(out))
    return T.show(ta)


def fold_module(before, after):
    """`before` with the conditional jumps that `after` has folded replaced by the jump taken; everything else
    (phi inputs, unreachable blocks) as in `before`: the part of CJumpPass that the validator covers"""
    tb, ta = T.parse(before), T.parse(after)
    for fb, fa in zip(T.funcs_of(tb), T.funcs_of(ta)):
        aft = {b[1]: b for b in T.blocks_of(fa)}
        for bb in T.blocks_of(fb):
            ba = aft.get(bb[1])
            if ba is not None and len(bb) > 2 and len(ba) > 2 and bb[-1][0] == "cjump" and ba[-1][0] == "jump":
                bb[-1] = ba[-1]
    return T.show(tb)


def _nonint_expr(defs, x, depth=12):
    """the constant expression defining operand x (casts / binops down to constants) involves a non-integer type"""
    if depth == 0 or not x.startswith("%") or x[1:] not in defs:
        return False
    i = defs[x[1:]]
    t = T.dst_type(i)
    if not isinstance(t, str) or t not in T.INT_TYPES:
        return True
    if i[0] == "cast":
        return _nonint_expr(defs, i[3], depth - 1)
    if i[0] == "binop":
        return _nonint_expr(defs, i[4], depth - 1) or _nonint_expr(defs, i[5], depth - 1)
    return False


def outside_validator_class(p, before, after):
    """rewrites the validator of pass `p` does not claim to cover (stated in LEVEL_NOTE)"""
    if p == "delunused":
        # removal of an unused stack slot / literal changes the memory layout: not covered by `checkAlign`
        kinds = lambda t: sorted(i[0] for f in T.funcs_of(T.parse(t)) for b in T.blocks_of(f) for i in b[2:]
                                 if i[0] in ("alloc", "literal"))
        return kinds(before) != kinds(after)
    if p == "addzero":
        # not covered: pointer arithmetic `p + 0`, `i * 1` at type ptr (pointer values are not range-checked; with a
        # 16-bit pointer configuration `@g + 0` really differs from `@g` in Spec.IR) and float `x * 1.0`
        tb, ta = T.parse(before), T.parse(after)
        for fb, fa in zip(T.funcs_of(tb), T.funcs_of(ta)):
            defs = T.def_table(fb)
            for bb, ba in zip(T.blocks_of(fb), T.blocks_of(fa)):
                for i, j in zip(bb[2:], ba[2:]):
                    if i == j:
                        continue
                    for (c, k), (c2, k2) in zip(T.operand_slots(i), T.operand_slots(j)):
                        x = c[k]
                        while x != c2[k2]:
                            d = defs.get(x[1:]) if x.startswith("%") else None
                            if d is None or d[2] is None or d[2][0] != "binop":
                                break
                            if d[2][2] not in T.INT_TYPES:
                                return True
                            # follow the copy: the operand that is not the constant 0 / 1
                            a, b = d[2][4], d[2][5]
                            da = defs.get(a[1:]) if a.startswith("%") else None
                            isc = lambda q: q is not None and q[2] is not None and q[2][0] == "const"
                            x = b if (isc(da) and d[2][3] == "add" and da[2][3] == "0") else a
        return False
    if p == "las":
        # not covered: forwarding of non-integer (pointer / float) values
        tb, ta = T.parse(before), T.parse(after)
        for fb in T.funcs_of(tb):
            defs = T.def_table(fb)
        for fb, fa in zip(T.funcs_of(tb), T.funcs_of(ta)):
            defs = T.def_table(fb)
            used_after = {c[j] for b in T.blocks_of(fa) for i in b[2:] for c, j in T.operand_slots(i)}
            for b in T.blocks_of(fb):
                for i in b[2:]:
                    if i[0] == "load" and i[2] not in T.INT_TYPES and i[1] not in used_after:
                        if any(c[j] == i[1] for bb in T.blocks_of(fb) for ii in bb[2:] for c, j in T.operand_slots(ii)):
                            return True
        return False
    if p == "cjump":
        # not covered: comparisons of float / pointer constants (the rule `cjFold` knows integers only)
        tb, ta = T.parse(before), T.parse(after)
        for fb, fa in zip(T.funcs_of(tb), T.funcs_of(ta)):
            defs = T.def_table(fb)
            aft = {b[1]: b for b in T.blocks_of(fa)}
            for bb in T.blocks_of(fb):
                ba = aft.get(bb[1])
                if ba is not None and len(bb) > 2 and len(ba) > 2 and bb[-1][0] == "cjump" and ba[-1][0] == "jump":
                    for o in (bb[-1][1], bb[-1][3]):
                        d = defs.get(o[1:]) if o.startswith("%") else None
                        if d is None or d[2] is None or d[2][0] != "const" or d[2][2] not in T.INT_TYPES:
                            return True
        return False
    if p == "constfold":
        # not covered by `checkSubst`: the chain rewrite (y+c1)+c2 -> y+c3 (an operand becomes a value that
        # existed before), pointer / float constants, casts from non-integers
        tb, ta = T.parse(before), T.parse(after)
        for fb, fa in zip(T.funcs_of(tb), T.funcs_of(ta)):
            old = {T.dst_of(i): i for b in T.blocks_of(fb) for i in b[2:] if T.dst_of(i)}
            pars = {q[0] for q in T.params_of(fb)}
            for b in T.blocks_of(fa):
                for i in b[2:]:
                    d = T.dst_of(i)
                    if d is not None and d not in old:
                        if i[0] != "const" or i[2] not in T.INT_TYPES:
                            return True
                    elif d is not None and i != old[d]:
                        for (c, j), (c0, j0) in zip(T.operand_slots(i), T.operand_slots(old[d])):
                            if c[j] != c0[j0] and (c[j][1:] in old or c[j][1:] in pars or not c[j].startswith("%")):
                                return True
                            if c[j] != c0[j0] and _nonint_expr(old, c0[j0]):
                                return True     # folded expression over float / pointer constants (e.g. (i64) 2.7)
        return False
    return False


def _first_diff(a, b):
    i = 0
    while i < min(len(a), len(b)) and a[i] == b[i]:
        i += 1
    return a[max(0, i - 60): i + 100]


def drive(ctx, scripts):
    """run the scripts on up to WORKERS driver processes (start-up dominates: few, long sessions)"""
    scripts = [x for x in scripts if x is not None]
    if not scripts:
        return
    k = max(1, min(WORKERS, len(scripts)))
    bins = [[] for _ in range(k)]
    load = [0] * k
    for item in sorted(scripts, key=lambda it: -len(it[0])):
        j = load.index(min(load))
        bins[j].append(item)
        load[j] += len(item[0])

    def one(items):
        lines = [l for it in items for l in it[0]]
        replies = ctx.driver("C02", lines)
        out, at = [], 0
        for ls, plan in items:
            out.append((plan, replies[at:at + len(ls)]))
            at += len(ls)
        return out
    with concurrent.futures.ThreadPoolExecutor(max_workers=k) as ex:
        for res in ex.map(one, [b for b in bins if b]):
            for plan, replies in res:
                evaluate(ctx, plan, replies)


def check(ctx):
    # api.optimize runs the same pass list for the levels 1, 2 and s: all of them on the corpus, in the thorough
    # tier on everything; the quick tier runs -O2 only on the larger inputs
    every = SINGLE + LEVELS
    some = every if ctx.thorough else SINGLE + ["O2"]
    inputs = [(f"corpus:{n}", t, None, fx, every) for n, t, fx in CORPUS]
    inputs += [(f"corpus:{n}", t, None, fx, ["las"] + LEVELS) for n, t, fx in mixed_width_corpus()]
    inputs += [(tag, text, only, None, some) for tag, text, only in c_texts()]
    ngen = 32 if ctx.thorough else 6
    inputs += [(tag, text, None, None, some) for tag, text, _ in gen_texts(ctx, ngen)]
    scripts = []
    for tag, text, only, fixed, pipelines in inputs:
        r = process(ctx, tag, text, only, fixed, pipelines)
        if r is not None:
            scripts.append(r)
    drive(ctx, scripts)


def replay(ctx, rp):
    case = rp.get("case", rp)
    r = process(ctx, case.get("tag", "replay"), case["module"], None, None, [case["pipeline"]])
    if r:
        drive(ctx, [r])
