"""Shared machinery for every property check (see DESIGN.md section 2).

A property module `harness/cNN.py` defines

    PROP        = "C20"
    TITLE       = "..."
    LEAN_PROPS  = "PpciVerif/Props/C20.lean"        # property theorems (obligations)
    LEAN_TARGETS= ["PpciVerif.Props.C20", "Drivers.C20"]
    LEVEL       = "proof" | "translation_validation"
    TRUSTED     = [...]                              # property-specific trusted base
    def regen(ctx)   (optional)  regenerate lean/PpciVerif/Gen/* from /repo
    def check(ctx)               correspondence + property evaluation on the real code

`check` reports through the context:

    ctx.disagree(what, case, impl, model)   model and implementation differ
    ctx.fail(signature, what, case, ...)    the PROPERTY fails on the real code at a concrete input
    ctx.count(key) / ctx.sample(obj) / ctx.nontrivial(key)

Verdict protocol (DESIGN 2.4):
  * concrete failing inputs: listed open in known_findings.json (by signature)
    -> KNOWN-FINDING line; otherwise VIOLATION with a replay file, exit 1
  * proof/translation/correspondence broken but no failing input found
    -> VIOLATION ... no-failing-input-found, exit 1
  * tooling trouble (audit hit, missing tool, crash of the harness) -> exit 2
"""
import collections
import fcntl
import hashlib
import json
import os
import random
import re
import subprocess
import sys
import time
import traceback
from pathlib import Path

VERIF = Path(__file__).resolve().parent.parent
REPO = Path(os.environ.get("PPCI_REPO", "/repo"))
LEAN = VERIF / "lean"
# runs against a scratch tree (PPCI_REPO set: mutation / seeded-change evaluation) must not overwrite the
# committed evidence, which has to come from runs against /repo itself
EVIDENCE = VERIF / ("evidence" if REPO == Path("/repo") else "evidence-scratch")
REPLAYS = VERIF / "replays"
KNOWN = VERIF / "known_findings.json"

ALLOWED_AXIOMS = {"propext", "Classical.choice", "Quot.sound"}
FORBIDDEN = re.compile(
    r"\b(sorry|admit|native_decide|bv_decide|implemented_by)\b|\bunsafe\s|^\s*axiom\s|maxHeartbeats\s+0\b",
    re.M,
)

BASE_TRUSTED = [
    "Lean 4.33.0 kernel (thorough tier: re-checked with leanchecker)",
    "axioms allowed in property theorems: propext, Classical.choice, Quot.sound (audited with #print axioms on every run)",
    "Mathlib v4.33.0 modules imported singly in proof files",
    "the correspondence harness (generators, canonicalisers, CPython 3.12) that ties the hand-written model to /repo",
]

if str(REPO) not in sys.path:
    sys.path.insert(0, str(REPO))


def strip_lean_comments(src: str) -> str:
    out = []
    i, n, depth = 0, len(src), 0
    while i < n:
        if src.startswith("/-", i):
            depth += 1
            i += 2
        elif depth and src.startswith("-/", i):
            depth -= 1
            i += 2
        elif depth:
            if src[i] == "\n":
                out.append("\n")
            i += 1
        elif src.startswith("--", i):
            while i < n and src[i] != "\n":
                i += 1
        elif src[i] == '"':
            j = i + 1
            while j < n and src[j] != '"':
                j += 2 if src[j] == "\\" else 1
            out.append('""')
            i = j + 1
        else:
            out.append(src[i])
            i += 1
    return "".join(out)


def module_path(mod: str) -> Path:
    return LEAN / (mod.replace(".", "/") + ".lean")


def import_closure(mods):
    seen, todo = set(), list(mods)
    while todo:
        m = todo.pop()
        if m in seen:
            continue
        p = module_path(m)
        if not p.exists():
            continue
        seen.add(m)
        for line in p.read_text().splitlines():
            mm = re.match(r"\s*(?:public\s+)?import\s+(\S+)", line)
            if mm and (mm.group(1).startswith("PpciVerif") or mm.group(1).startswith("Drivers")):
                todo.append(mm.group(1))
    return sorted(seen)


def theorems_of(path: Path):
    """Names (fully qualified) of the `theorem`s declared in a Lean file."""
    src = strip_lean_comments(path.read_text())
    ns, names = [], []
    for line in src.splitlines():
        m = re.match(r"\s*namespace\s+(\S+)", line)
        if m:
            ns.append(m.group(1))
            continue
        m = re.match(r"\s*end\s+(\S+)", line)
        if m and ns and ns[-1] == m.group(1):
            ns.pop()
            continue
        m = re.match(r"\s*(?:@\[[^\]]*\]\s*)?(?:private\s+|protected\s+)?theorem\s+([^\s:({\[]+)", line)
        if m:
            names.append(".".join(ns + [m.group(1)]))
    return names


def props_files(mod):
    """Property-theorem files of a module: LEAN_PROPS plus optional LEAN_PROPS_EXTRA (e.g. translation-tie theorems)."""
    return [mod.LEAN_PROPS] + list(getattr(mod, "LEAN_PROPS_EXTRA", []))


def all_theorems(mod):
    out = []
    for f in props_files(mod):
        if (LEAN / f).exists():
            out += theorems_of(LEAN / f)
    return out


class Ctx:
    def __init__(self, mod, tier, seed):
        self.mod = mod
        self.prop = mod.PROP
        self.tier = tier
        self.seed = seed
        self.rng = random.Random(seed)
        self.t0 = time.time()
        self.counts = collections.Counter()
        self.samples = []
        self.nontriv = set()
        self.disagreements = []
        self.failures = []
        self.broken = []          # proof / translation obligations that no longer check
        self.notes = []
        self.build_ok = None
        self.theorems = []
        self.axioms = {}
        self.extra_cov = {}
        self.thorough = tier == "thorough"

    # ---- reporting API used by property modules -------------------------
    def count(self, key, n=1):
        self.counts[key] += n

    def sample(self, obj, limit=8):
        if len(self.samples) < limit:
            self.samples.append(obj)

    def nontrivial(self, key):
        self.nontriv.add(key if isinstance(key, (str, int, tuple)) else json.dumps(key, sort_keys=True, default=str))

    def disagree(self, what, case, impl, model):
        self.disagreements.append({"what": what, "case": case, "impl": impl, "model": model})

    def fail(self, signature, what, case, **detail):
        """The property itself fails on the real implementation at `case`."""
        self.failures.append({"signature": signature, "what": what, "case": case, **detail})

    def note(self, s):
        self.notes.append(s)

    # ---- Lean -----------------------------------------------------------
    def lake_build(self, targets):
        lock = open(LEAN / ".build.lock", "w")
        fcntl.flock(lock, fcntl.LOCK_EX)
        try:
            p = subprocess.run(["lake", "build", *targets], cwd=LEAN, capture_output=True, text=True)
        finally:
            fcntl.flock(lock, fcntl.LOCK_UN)
            lock.close()
        log = p.stdout + p.stderr
        return p.returncode == 0, log

    def driver(self, name, lines, timeout=1800):
        """Feed request lines to Drivers/<name>.lean, return the reply lines."""
        data = "".join(l + "\n" for l in lines)
        p = subprocess.run(
            ["lake", "env", "lean", "--run", f"Drivers/{name}.lean"],
            cwd=LEAN, input=data, capture_output=True, text=True, timeout=timeout,
        )
        out = p.stdout.splitlines()
        if p.returncode != 0 or len(out) != len(lines):
            raise BrokenCheck(
                f"driver {name}: rc={p.returncode}, {len(out)} replies for {len(lines)} requests\n"
                + p.stderr[-2000:] + "\n" + "\n".join(out[-5:])
            )
        return out

    def lean_run(self, relpath, timeout=3600):
        p = subprocess.run(["lake", "env", "lean", relpath], cwd=LEAN, capture_output=True, text=True, timeout=timeout)
        return p.returncode, p.stdout + p.stderr

    # ---- known findings ---------------------------------------------------
    def known_findings(self, status="open"):
        if not KNOWN.exists():
            return []
        data = json.loads(KNOWN.read_text())
        return [f for f in data.get("findings", []) if f.get("property") == self.prop and f.get("status") == status]


class BrokenCheck(Exception):
    pass


def broken_theorems(log: str):
    """Extract 'file:line' of errors and try to name the enclosing theorem."""
    out = []
    for m in re.finditer(r"error: (\S+\.lean):(\d+):(\d+): (.*)", log):
        f, line, _col, msg = m.group(1), int(m.group(2)), m.group(3), m.group(4)
        name = None
        p = LEAN / f
        if p.exists():
            src = p.read_text().splitlines()
            for i in range(min(line, len(src)) - 1, -1, -1):
                mm = re.match(r"\s*(?:private\s+)?(?:theorem|lemma|def|example|instance)\s*([^\s:({\[]*)", src[i])
                if mm:
                    name = mm.group(1) or "example"
                    break
        out.append({"file": f, "line": line, "decl": name, "msg": msg[:300]})
    return out


def audit(ctx: Ctx):
    mods = import_closure(ctx.mod.LEAN_TARGETS)
    hits = []
    for m in mods:
        src = strip_lean_comments(module_path(m).read_text())
        for mm in FORBIDDEN.finditer(src):
            hits.append(f"{m}: forbidden token {mm.group(0).strip()!r}")
    ctx.theorems = all_theorems(ctx.mod)
    if not ctx.theorems:
        hits.append("no theorems found in " + ctx.mod.LEAN_PROPS)
    adir = LEAN / ".audit"
    adir.mkdir(exist_ok=True)
    imports = "".join("import " + pf[:-5].replace("/", ".") + "\n" for pf in props_files(ctx.mod))
    f = adir / f"{ctx.prop}_{os.getpid()}.lean"     # per process: concurrent runs of one property must not race
    f.write_text(imports + "".join(f"#print axioms {t}\n" for t in ctx.theorems))
    try:
        rc, out = ctx.lean_run(f".audit/{f.name}")
    finally:
        f.unlink(missing_ok=True)
    if rc != 0:
        hits.append("axiom audit failed to run: " + out[-500:])
    flat = re.sub(r"\s+", " ", out)
    for t in ctx.theorems:
        m = re.search(r"'" + re.escape(t) + r"' depends on axioms: \[([^\]]*)\]", flat)
        if m:
            ax = {a.strip() for a in m.group(1).split(",") if a.strip()}
        elif re.search(r"'" + re.escape(t) + r"' does not depend on any axioms", flat):
            ax = set()
        else:
            hits.append(f"no axiom report for {t}")
            continue
        ctx.axioms[t] = sorted(ax)
        if not ax <= ALLOWED_AXIOMS:
            hits.append(f"{t} depends on {sorted(ax - ALLOWED_AXIOMS)}")
    return hits


def leanchecker(ctx: Ctx):
    mods = [m for m in import_closure(ctx.mod.LEAN_TARGETS) if m.startswith("PpciVerif")]
    p = subprocess.run(["lake", "env", "leanchecker", *mods], cwd=LEAN, capture_output=True, text=True)
    return p.returncode == 0, (p.stdout + p.stderr)[-1500:]


def write_replay(ctx: Ctx, kind, payload):
    d = REPLAYS / ctx.prop
    d.mkdir(parents=True, exist_ok=True)
    body = {
        "property": ctx.prop, "kind": kind, "seed": ctx.seed, "tier": ctx.tier,
        "repo_head": git_head(), "command": f"./vcheck {ctx.prop} --tier {ctx.tier}",
        **payload,
    }
    txt = json.dumps(body, indent=1, sort_keys=True, default=str)
    h = hashlib.sha1(json.dumps(payload, sort_keys=True, default=str).encode()).hexdigest()[:12]
    p = d / f"{kind}-{h}.json"
    p.write_text(txt)
    return p


def git_head():
    try:
        return subprocess.run(["git", "-C", str(REPO), "rev-parse", "HEAD"], capture_output=True, text=True).stdout.strip()
    except Exception:
        return "?"


def write_evidence(ctx: Ctx, violations, obligations, discharged):
    EVIDENCE.mkdir(exist_ok=True)
    mod = ctx.mod
    level = getattr(mod, "LEVEL", "proof")
    cov = {
        "obligations": obligations,
        "discharged": discharged,
        "checker_cmd": "cd /verif/lean && lake build " + " ".join(mod.LEAN_TARGETS)
        + "  # then `#print axioms` audit of every theorem in " + mod.LEAN_PROPS
        + ("; lake env leanchecker <modules>" if ctx.thorough else ""),
        "trusted_base": BASE_TRUSTED + list(getattr(mod, "TRUSTED", [])),
        "theorems": ctx.theorems,
        "axioms": ctx.axioms,
        "evaluations": int(sum(v for k, v in ctx.counts.items() if k.startswith("eval"))),
        "distinct_nontrivial": len(ctx.nontriv),
        "rule": getattr(mod, "RULE", ""),
        "samples": ctx.samples or ["(no sample recorded)"],
        "histogram": dict(ctx.counts),
        "disagreements_checked": len(ctx.disagreements),
        "programs": int(ctx.counts.get("programs", 0)),
        "broken_obligations": ctx.broken,
        "notes": ctx.notes,
        "exhaustive": bool(ctx.extra_cov.get("exhaustive", False)),
    }
    cov.update({k: v for k, v in ctx.extra_cov.items() if k != "exhaustive"})
    ev = {
        "property_id": ctx.prop,
        "tier": ctx.tier,
        "seed": ctx.seed,
        "level": level,
        "coverage": cov,
        "assumptions": list(getattr(mod, "ASSUMPTIONS", [])),
        "wall_s": round(time.time() - ctx.t0, 2),
        "violations": violations,
    }
    (EVIDENCE / f"{ctx.prop}.json").write_text(json.dumps(ev, indent=1, default=str))


def run(mod, tier, seed, replay=None):
    ctx = Ctx(mod, tier, seed)
    # Watchdog: a check must never hang (e.g. code under test that no longer terminates).  Property modules
    # budget their own executions and report non-termination as a failing input; this is the last resort:
    # after the limit the run ends as a broken check (exit 2), never as a verdict.
    import signal
    limit = int(os.environ.get("VERIF_TIMEOUT", "1500" if tier == "quick" else "5400"))

    def _on_alarm(signum, frame):
        raise BrokenCheck(f"watchdog: check exceeded {limit} s (VERIF_TIMEOUT)")

    try:
        signal.signal(signal.SIGALRM, _on_alarm)
        signal.alarm(limit)
    except (ValueError, AttributeError):
        pass
    violations = 0
    obligations = discharged = 0
    rc = 0
    try:
        # 1. regenerate translated tables from the current /repo
        if hasattr(mod, "regen"):
            try:
                mod.regen(ctx)
            except BrokenCheck:
                raise
            except Exception as e:  # translator refuses the new source
                ctx.broken.append({"kind": "translation", "msg": f"{type(e).__name__}: {e}"[:400]})
        # 2. prove
        ok, log = ctx.lake_build(mod.LEAN_TARGETS)
        ctx.build_ok = ok
        ctx.theorems = all_theorems(mod)
        obligations = len(ctx.theorems)
        if not ok:
            bt = broken_theorems(log)
            for b in bt:
                ctx.broken.append({"kind": "proof", **b})
            if not bt:
                raise BrokenCheck("lake build failed without a Lean error:\n" + log[-1500:])
            bad = {b["decl"] for b in bt}
            discharged = max(0, obligations - len(bad))
        else:
            # 3. audit
            hits = audit(ctx)
            if hits:
                raise BrokenCheck("audit: " + "; ".join(hits))
            discharged = obligations
            if ctx.thorough and not os.environ.get("VERIF_NO_LEANCHECKER"):
                okc, outc = leanchecker(ctx)
                ctx.extra_cov["leanchecker"] = "ok" if okc else outc
                if not okc:
                    raise BrokenCheck("leanchecker rejected the compiled modules: " + outc)
        # 4. correspondence + property evaluation on the real code
        if replay:
            mod.replay(ctx, json.loads(Path(replay).read_text()))
        elif ok or getattr(mod, "CHECK_WITHOUT_BUILD", False):
            mod.check(ctx)
        else:
            # A proof obligation no longer builds.  That is not yet a violation: search for a concrete
            # failing input.  If the driver (model + spec, no proofs) still builds, the ordinary check
            # -- which evaluates the property on the real code for every input -- is that search.
            drivers = [t for t in mod.LEAN_TARGETS if t.startswith("Drivers.")]
            ok_drv = bool(drivers) and ctx.lake_build(drivers)[0]
            if hasattr(mod, "search"):
                mod.search(ctx)
            if ok_drv and not ctx.failures:
                try:
                    mod.check(ctx)
                except BrokenCheck as e:
                    ctx.note("check after broken build could not run: " + str(e)[:300])
        # 5. verdict
        open_k = {f["signature"]: f for f in ctx.known_findings("open")}
        seen_known = set()
        new = collections.OrderedDict()
        for f in ctx.failures:
            sig = f["signature"]
            if sig in open_k:
                seen_known.add(sig)
            else:
                new.setdefault(sig, f)
        for sig in open_k:
            if sig in seen_known:
                print(f"KNOWN-FINDING: property={ctx.prop} {open_k[sig]['what']}")
            else:
                ctx.note(f"open known finding {sig!r} was not reproduced in this run")
        for sig, f in new.items():
            p = write_replay(ctx, "failing-input", f)
            print(f"VIOLATION property={ctx.prop} replay={p}")
            violations += 1
        if not new and (ctx.broken or ctx.disagreements):
            # model/proof no longer tied to the code and no concrete failing input was found
            payload = {"broken_obligations": ctx.broken, "disagreements": ctx.disagreements[:20],
                       "known_failures_seen": sorted(seen_known)}
            p = write_replay(ctx, "proof-broken" if ctx.broken else "correspondence-broken", payload)
            print(f"VIOLATION property={ctx.prop} replay={p} no-failing-input-found")
            violations += 1
        elif new and (ctx.broken or ctx.disagreements):
            ctx.note(f"{len(ctx.broken)} broken obligations, {len(ctx.disagreements)} disagreements (see replay)")
        rc = 1 if violations else 0
    except BrokenCheck as e:
        print(f"BROKEN-CHECK property={ctx.prop}: {e}", file=sys.stderr)
        ctx.note("broken check: " + str(e)[:500])
        rc = 2
    except subprocess.TimeoutExpired as e:
        print(f"BROKEN-CHECK property={ctx.prop}: timeout {e}", file=sys.stderr)
        rc = 2
    except Exception:
        traceback.print_exc()
        ctx.note("harness crashed: " + traceback.format_exc()[-800:])
        rc = 2
    try:
        write_evidence(ctx, violations, max(obligations, 0), discharged)
    except Exception:
        traceback.print_exc()
        rc = rc or 2
    dt = time.time() - ctx.t0
    print(f"[{ctx.prop}] tier={tier} seed={seed} theorems={discharged}/{obligations} "
          f"evals={sum(v for k, v in ctx.counts.items() if k.startswith('eval'))} "
          f"disagreements={len(ctx.disagreements)} failures={len(ctx.failures)} rc={rc} {dt:.1f}s")
    return rc
