"""Structural serialiser  ppci.ir.Module  ->  S-expression of Spec.IR (DESIGN S4).

The module is walked object by object (blocks, instructions, operands by object
identity); none of ppci's own writers (irutils.writer / io.to_json, which are
under test in C15/C16) is used.  The grammar is documented in notes/IR.md and in
lean/PpciVerif/Spec/IRParse.lean.

    from harness import irser
    text = irser.serialize(module)            # one line, no newline
    ser  = irser.Serializer(module); text = ser.text
    ser.block_names[func_name][block_obj], ser.value_names[func_name][value_obj]

Names: every local value / block gets a name that is unique inside its function
(its ppci name when that is already unique and printable, otherwise the ppci name
with a `$k` suffix), so that two distinct objects never share a name even when a
pass forgot `make_unique_name`.  A use of a value that is defined nowhere in the
function (dangling reference) is serialised as `%!dangling!<name>`; Spec.IR's
well-formedness check then fails with `uses-dominated`.
"""
import re
import struct

from ppci import ir

_OK = re.compile(r"^[A-Za-z0-9_.$:<>\[\]+\-*/=,;#'\"|&^~!?]+$")

BINOPS = {"+": "add", "-": "sub", "*": "mul", "/": "div", "%": "rem", "|": "or", "&": "and",
          "^": "xor", "<<": "shl", ">>": "shr", "rol": "rol", "ror": "ror"}
UNOPS = {"-": "neg", "~": "not"}
CONDS = {"==": "eq", "<": "lt", ">": "gt", ">=": "ge", "<=": "le", "!=": "ne"}


def atom(name):
    """printable atom for an arbitrary ppci name (injective)"""
    name = str(name)
    if name and _OK.match(name) and not name.startswith(("%", "@")):
        return name
    return "~" + name.encode("utf8").hex()


def hexs(data):
    data = bytes(data)
    return data.hex() if data else "-"


def ty(t):
    if isinstance(t, ir.BlobDataTyp):
        return f"(blob {t.size} {t.alignment})"
    if isinstance(t, ir.PointerTyp):
        return "ptr"
    if isinstance(t, ir.BasicTyp):
        return t.name
    raise ValueError(f"unknown ir type {t!r}")


def float_bits(x):
    return struct.unpack("<Q", struct.pack("<d", float(x)))[0]


class Serializer:
    def __init__(self, module):
        self.module = module
        self.block_names = {}
        self.value_names = {}
        self.text = self._module(module)

    # ---- naming -----------------------------------------------------------
    def _uniq(self, used, name):
        base = atom(name)
        n, k = base, 0
        while n in used:
            n = f"{base}${k}"
            k += 1
        used.add(n)
        return n

    def _name_function(self, f):
        used_b, bmap = set(), {}
        for b in f.blocks:
            bmap[b] = self._uniq(used_b, b.name)
        used_v, vmap = set(), {}
        for p in f.arguments:
            vmap[p] = self._uniq(used_v, p.name)
        for b in f.blocks:
            for i in b.instructions:
                if isinstance(i, ir.Value) and i not in vmap:
                    vmap[i] = self._uniq(used_v, i.name)
        self.block_names[f.name] = bmap
        self.value_names[f.name] = vmap
        return bmap, vmap

    # ---- pieces -----------------------------------------------------------
    def _opnd(self, v, vmap):
        if isinstance(v, ir.GlobalValue):
            return "@" + atom(v.name)
        if v in vmap:
            return "%" + vmap[v]
        return "%!dangling!" + atom(getattr(v, "name", "?"))

    def _blk(self, b, bmap):
        if b in bmap:
            return bmap[b]
        return "!dangling!" + atom(getattr(b, "name", "?"))

    def _instr(self, i, bmap, vmap):
        o = lambda v: self._opnd(v, vmap)  # noqa: E731
        d = lambda: "%" + vmap[i]  # noqa: E731
        if isinstance(i, ir.Const):
            if isinstance(i.value, float):
                return f"(fconst {d()} {ty(i.ty)} {float_bits(i.value)})"
            return f"(const {d()} {ty(i.ty)} {int(i.value)})"
        if isinstance(i, ir.Undefined):
            return f"(undef {d()} {ty(i.ty)})"
        if isinstance(i, ir.LiteralData):
            return f"(literal {d()} {hexs(i.data)})"
        if isinstance(i, ir.Alloc):
            return f"(alloc {d()} {i.amount} {i.alignment})"
        if isinstance(i, ir.AddressOf):
            return f"(addrof {d()} {o(i.src)})"
        if isinstance(i, ir.Binop):
            return f"(binop {d()} {ty(i.ty)} {BINOPS[i.operation]} {o(i.a)} {o(i.b)})"
        if isinstance(i, ir.Unop):
            return f"(unop {d()} {ty(i.ty)} {UNOPS[i.operation]} {o(i.a)})"
        if isinstance(i, ir.Cast):
            return f"(cast {d()} {ty(i.ty)} {o(i.src)})"
        if isinstance(i, ir.Load):
            return f"({'vload' if i.volatile else 'load'} {d()} {ty(i.ty)} {o(i.address)})"
        if isinstance(i, ir.Store):
            return f"({'vstore' if i.volatile else 'store'} {ty(i.value.ty)} {o(i.value)} {o(i.address)})"
        if isinstance(i, ir.CopyBlob):
            return f"(copyblob {o(i.dst)} {o(i.src)} {i.amount})"
        if isinstance(i, ir.Phi):
            ins = " ".join(f"({self._blk(b, bmap)} {o(v)})" for b, v in i.inputs.items())
            return f"(phi {d()} {ty(i.ty)}{' ' if ins else ''}{ins})"
        if isinstance(i, ir.FunctionCall):
            args = "".join(" " + o(a) for a in i.arguments)
            return f"(fcall {d()} {ty(i.ty)} {o(i.callee)}{args})"
        if isinstance(i, ir.ProcedureCall):
            args = "".join(" " + o(a) for a in i.arguments)
            return f"(pcall {o(i.callee)}{args})"
        if isinstance(i, ir.InlineAsm):
            ins = " ".join(o(v) for v in i.input_values)
            outs = " ".join(o(v) for v in i.output_values)
            cl = " ".join(atom(c) for c in (i.clobbers or []))
            return f"(asm {hexs(str(i.template).encode('utf8'))} ({ins}) ({outs}) ({cl}))"
        if isinstance(i, ir.CJump):
            return (f"(cjump {o(i.a)} {CONDS[i.cond]} {o(i.b)} "
                    f"{self._blk(i.lab_yes, bmap)} {self._blk(i.lab_no, bmap)})")
        if isinstance(i, ir.Jump):
            return f"(jump {self._blk(i.target, bmap)})"
        if isinstance(i, ir.Return):
            return f"(ret {o(i.result)})"
        if isinstance(i, ir.Exit):
            return "(exit)"
        raise ValueError(f"unknown instruction kind {type(i).__name__}")

    def _function(self, f):
        bmap, vmap = self._name_function(f)
        rt = ty(f.return_ty) if isinstance(f, ir.Function) else "void"
        params = "".join(f" ({vmap[p]} {ty(p.ty)})" for p in f.arguments)
        blocks = []
        for b in f.blocks:
            ins = "".join(" " + self._instr(i, bmap, vmap) for i in b.instructions)
            blocks.append(f" (block {bmap[b]}{ins})")
        entry = self._blk(f.entry, bmap) if f.entry is not None else "!none!"
        return (f"(func {atom(f.name)} {f.binding} {rt} {entry} (params{params}) "
                f"(blocks{''.join(blocks)}))")

    def _variable(self, v):
        s = f"(var {atom(v.name)} {v.binding} {v.amount} {v.alignment}"
        if v.value is not None:
            parts = []
            for part in v.value:
                if isinstance(part, (bytes, bytearray)):
                    parts.append(f" (bytes {hexs(part)})")
                elif isinstance(part, tuple) and len(part) == 2 and part[0] is ir.ptr:
                    parts.append(f" (ref {atom(part[1])})")
                else:
                    raise ValueError(f"unknown initialiser part {part!r}")
            s += f" (init{''.join(parts)})"
        return s + ")"

    def _external(self, e):
        if isinstance(e, ir.ExternalFunction):
            return f"(xfunc {atom(e.name)} {ty(e.return_ty)} ({' '.join(ty(t) for t in e.argument_types)}))"
        if isinstance(e, ir.ExternalProcedure):
            return f"(xproc {atom(e.name)} ({' '.join(ty(t) for t in e.argument_types)}))"
        return f"(xvar {atom(e.name)})"

    def _module(self, m):
        ex = "".join(" " + self._external(e) for e in m.externals)
        vs = "".join(" " + self._variable(v) for v in m.variables)
        fs = "".join(" " + self._function(f) for f in m.functions)
        return f"(module {atom(m.name)} (externs{ex}) (vars{vs}) (funcs{fs}))"


def serialize(module):
    return Serializer(module).text
