"""C23 IR -> WebAssembly: verified validation of control-flow structuring.

Every control skeleton that the real `IrToWasmCompiler.do_shape` emits for the
shape tree that the real `relooper.find_structure` returns is fed, together with
the function's CFG, to the Lean validator `Model.Shape.check` (soundness proved in
Props/C23.lean for all CFGs, skeletons, branch oracles and fuels).  A rejection is
followed by a search (Lean driver, all position oracles of a bounded length) for a
concrete oracle on which the block traces differ; that oracle is then replayed on
the real code by executing the emitted wasm with ppci's own wasm runtime and the
IR with ir_to_python.  Second sliver: data-segment layout of initialised globals.
"""
import contextlib
import io
import itertools
import json

from . import common

PROP = "C23"
TITLE = "IR to WebAssembly translation preserves behaviour"
LEAN_PROPS = "PpciVerif/Props/C23.lean"
LEAN_TARGETS = ["PpciVerif.Props.C23", "Drivers.C23"]
LEVEL = "translation_validation"
LEVEL_TEXT = (
    "Verified validator (Lean 4) for the control-flow structuring of ppci's IR->wasm path. Theorems, for ALL CFGs, control "
    "skeletons, branch oracles and fuels: if Model.Shape.check accepts a skeleton (block/loop/if/br nest with the block bodies "
    "as opaque `code b`), then executing it under wasm label semantics visits exactly the basic blocks of the IR function's "
    "path under the same oracle: every finite observation is a CFG run prefix with the same returned/running status, it never "
    "gets stuck, falls off the function end or branches out (safety); every CFG run prefix is eventually produced and the wasm "
    "returns iff the IR returns (progress/termination). The same for shape trees through Model.Shape.compile (model of do_shape). "
    "Each run pushes every skeleton the REAL relooper.find_structure + IrToWasmCompiler.do_shape produce (exhaustive CFGs up to "
    "3/4 blocks, structured/random larger CFGs, CFGs of C functions compiled with and without optimisation) through that "
    "validator; refusals must be exceptions. Second sliver (proof): the data segments emitted for initialised globals give "
    "every global a disjoint slot above the stack region and the initial memory read at a global's address is its initial "
    "value (zero beyond it); on every run the REAL data section of generated IR modules and C sources (int/short/char "
    "arrays, structs, strings, doubles; leading/trailing/middle zero bytes, all-zero, 1-byte, odd sizes) is rebuilt into "
    "linear memory and compared with the IR initial bytes, with the model, and by executing loads on ppci's wasm runtime. "
    "Third sliver (proof): with the module-wide slot dictionary of do_tree every function-address use emits the slot whose "
    "element-segment entry is that function and two uses with the same slot name the same function (Model.FuncTable); on "
    "every run the REAL element segment and the `i32.const slot` emitted at every LABEL use (captured by wrapping do_tree) of "
    "C sources / IR modules with several functions taking addresses are checked for slot->function consistency, compared "
    "with the model, and calls through pointers are executed on ppci's wasm runtime vs ir_to_python. NOT covered: translation of the straight-line code inside blocks (expressions, stack code, phis, "
    "direct calls, call_indirect signature selection), wasm operand-stack validation, execution in a reference engine (none available: ppci's own wasm runtime is used "
    "only to replay failing inputs and to sanity-check the skeleton semantics). The validator is sound, not complete."
)
LEVEL_NOTE = (
    "trusted: Lean kernel; axioms propext/Classical.choice/Quot.sound; harness extraction of the CFG from ir.Function and of the "
    "control skeleton from the emitted instruction list (opcodes block/loop/if/else/end/br + block boundaries obtained by wrapping "
    "do_block from outside); the assumption that the code of a returning block ends in `return` is checked per block on every "
    "output. Open findings: the relooper mis-structures several CFG classes (see findings/C23.json)."
)
TECHNIQUE = ("Lean 4 proof of soundness of a structuring validator (translation validation) + per-output validation of the real "
             "relooper/do_shape results + differential replay of rejected outputs on ppci's wasm runtime vs ir_to_python")
RULE = ("programs = (CFG, emitted skeleton) pairs validated by the Lean checker; distinct = distinct canonical CFG (entry-first BFS "
        "numbering) or distinct C function body; non-trivial = CFG with at least one conditional jump or loop. Exhaustive: all "
        "canonical CFGs with <=3 blocks (quick) / <=4 blocks (thorough), out-degree <=2, incl. cjmp with equal targets. "
        "Data segments: fixed patterns (DATA_PATTERNS) + zero-biased random bytes; non-trivial = initial value containing a zero byte")
TRUSTED = [
    "harness extraction of (CFG, shape, control skeleton) from the real objects (ir.Function, relooper shapes, wasm Instruction list)",
    "Model.Shape.exec as the meaning of block/loop/if/br (wasm spec label semantics, written by hand; cross-checked against ppci's own wasm runtime on every run)",
    "Model.DataSeg.applySeg as the meaning of an active data segment",
    "an active element segment at offset o puts refs[k] at table slot o+k (wasm spec), read off components.Elem by the harness",
]
ASSUMPTIONS = [
    "the emitted module passes wasm validation (operand-stack typing of blocks is not modelled; ppci asserts stack==0 at every construct boundary)",
    "the code emitted for a block executes its instructions once, leaves the cjmp condition on the stack (true = lab_yes) and ends in `return` iff the block returns (the latter is checked on every output)",
    "every initial value of a global fits its declared amount (WF); checked on every generated module",
]

CLEAR_DIAGNOSTICS = ("Loop followed by more then one node",)


# ----------------------------------------------------------------------------------------------
# CFG helpers (independent of ppci.graph)
# ----------------------------------------------------------------------------------------------
def cfg_tokens(cfg):
    out = ["e0"]
    for t in cfg:
        out.append("r" if t[0] == "r" else f"j{t[1]}" if t[0] == "j" else f"c{t[1]}:{t[2]}")
    return " ".join(out)


def canon_cfgs(n):
    """all CFGs with exactly n blocks, all reachable, numbered in BFS order from block 0"""
    terms = [("r",)] + [("j", t) for t in range(n)] + [("c", y, x) for y in range(n) for x in range(n)]
    for cfg in itertools.product(terms, repeat=n):
        order, seen, i = [0], {0}, 0
        while i < len(order):
            for s in cfg[order[i]][1:]:
                if s not in seen:
                    seen.add(s)
                    order.append(s)
            i += 1
        if order == list(range(n)):
            yield list(cfg)


def canonize(cfg):
    """restrict to reachable blocks and renumber in BFS order"""
    order, seen, i = [0], {0}, 0
    while i < len(order):
        for s in cfg[order[i]][1:]:
            if s not in seen:
                seen.add(s)
                order.append(s)
        i += 1
    ren = {b: k for k, b in enumerate(order)}
    return [tuple([cfg[b][0]] + [ren[s] for s in cfg[b][1:]]) for b in order]


def reach(cfg):
    seen, st = {0}, [0]
    while st:
        b = st.pop()
        for t in cfg[b][1:]:
            if t not in seen:
                seen.add(t)
                st.append(t)
    return seen


def dominators(cfg):
    R = reach(cfg)
    dom = {b: set(R) for b in R}
    dom[0] = {0}
    preds = {b: [p for p in R if b in cfg[p][1:]] for b in R}
    ch = True
    while ch:
        ch = False
        for b in R:
            if b == 0:
                continue
            ps = [dom[p] for p in preds[b]]
            new = {b} | (set.intersection(*ps) if ps else set())
            if new != dom[b]:
                dom[b] = new
                ch = True
    return dom, preds


def classify(cfg):
    """Feature class of a CFG, used to name the failure class of a wrong structure.
    First matching letter in the order below; 'S' = none of them (plain structured control flow)."""
    R = reach(cfg)
    dom, preds = dominators(cfg)
    if any(0 in cfg[b][1:] for b in R):
        return "E"  # the entry block has a predecessor
    back = {(b, t) for b in R for t in cfg[b][1:] if t in dom[b]}
    adj = {b: [t for t in cfg[b][1:] if (b, t) not in back] for b in R}
    color = {}

    def cyc(b):
        color[b] = 1
        for t in adj[b]:
            if color.get(t) == 1 or (t not in color and cyc(t)):
                return True
        color[b] = 2
        return False

    if cyc(0):
        return "I"  # irreducible
    canexit = {b for b in R if cfg[b][0] == "r"}
    ch = True
    while ch:
        ch = False
        for b in R:
            if b not in canexit and any(t in canexit for t in cfg[b][1:]):
                canexit.add(b)
                ch = True
    if canexit != R:
        return "X"  # some block cannot reach a return (no post-dominator)
    if any(cfg[b][0] == "c" and cfg[b][1] == cfg[b][2] for b in R):
        return "D"  # conditional jump with identical targets
    loops = {}
    for (b, h) in back:
        body = loops.setdefault(h, {h})
        st = [b]
        while st:
            x = st.pop()
            if x not in body:
                body.add(x)
                st += preds[x]
    for h, body in loops.items():
        if len({t for b in body for t in cfg[b][1:] if t not in body}) > 1:
            return "M"  # a loop with more than one exit target
    for h, body in loops.items():
        if len([p for p in preds[h] if (p, h) not in back]) > 1:
            return "J"  # a loop header entered from several places
    for h, body in loops.items():
        for b in body:
            for t in cfg[b][1:]:
                if t not in body and t in loops and h in loops[t] and t != h:
                    return "H"  # a loop exits directly to the header of an enclosing loop
    for h in loops:
        for h2 in loops:
            if h2 != h and h2 in loops[h]:
                return "N"  # nested loops
    # post-dominators (all blocks can reach a return here)
    pdom = {b: set(R) for b in R}
    for b in R:
        if cfg[b][0] == "r":
            pdom[b] = {b}
    ch = True
    while ch:
        ch = False
        for b in R:
            if cfg[b][0] == "r":
                continue
            new = {b} | set.intersection(*[pdom[t] for t in cfg[b][1:]])
            if new != pdom[b]:
                pdom[b] = new
                ch = True

    def ipdom(b):
        cands = pdom[b] - {b}
        for c in cands:
            if all(o == c or o in pdom[c] for o in cands):
                return c
        return None

    mergers = [ipdom(b) for b in R if cfg[b][0] == "c"]
    mergers = [m for m in mergers if m is not None]
    # branches whose merge point lies outside a loop they are in only leave that loop (break): not counted here
    inner = [m for b in R if cfg[b][0] == "c" for m in [ipdom(b)]
             if m is not None and not any(b in body and m not in body for body in loops.values())]
    if len(set(inner)) != len(inner):
        return "P"  # two branches share their merge point (&&, ||, if without else nested at the end of an if)
    for h, body in loops.items():
        for b in body:
            for t in cfg[b][1:]:
                if t not in body and any(p not in body for p in preds[t]):
                    return "Q"  # a loop exit target is also reached from outside the loop
    for b in R:
        if b not in loops and len([p for p in preds[b] if (p, b) not in back]) > 1 and b not in mergers:
            return "R"  # a join that is not the immediate post-dominator of any branch (e.g. after an early return)
    for b in R:
        if cfg[b][0] == "c":
            m = ipdom(b)
            if (m is not None and m not in loops and not any(b in body and m not in body for body in loops.values())
                    and any(b not in dom[p] for p in preds[m])):
                return "U"  # a merge point that is also entered from outside the branch it merges
    for h1, body in loops.items():
        for b in R:
            if cfg[b][0] == "c" and b not in body and h1 in dom[b]:
                seen, st = {b}, [b]
                while st:
                    x = st.pop()
                    for t in cfg[x][1:]:
                        if t not in seen:
                            seen.add(t)
                            st.append(t)
                if any(h2 != h1 and h2 in seen for h2 in loops):
                    return "T"  # a branch in the code that follows a loop, with another loop after it
    return "S"


SMALL = 12


def failure_class(cfg, origin=""):
    """signature suffix of a wrong structure: the CFG feature class ('S' = none of the features: the fragment
    the relooper handles; a wrong structure there is not a known finding)"""
    return classify(cfg)


def sim_cfg(cfg, xbits, maxsteps):
    """path of the CFG consuming one bit per conditional jump"""
    hist, b, k = [], 0, 0
    while len(hist) < maxsteps:
        hist.append(b)
        t = cfg[b]
        if t[0] == "r":
            return hist, True
        if t[0] == "j":
            b = t[1]
        else:
            bit = xbits[k] if k < len(xbits) else 0
            k += 1
            b = t[1] if bit else t[2]
    return hist, False


def trace_hash(hist):
    a = 0
    for b in hist:
        a = (a * 31 + b + 1) & 0xFFFFFFFF
    return a - (1 << 32) if a >> 31 else a


# ----------------------------------------------------------------------------------------------
# building instrumented IR for a CFG, extracting CFGs from IR functions
# ----------------------------------------------------------------------------------------------
def build_module(cfg):
    """IR module with function f() whose CFG is `cfg` (block i = b<i>, block 0 = entry).  Every block
    folds its number into the global `ga`; a conditional jump consumes the low bit of the global `gx`.
    run(x) initialises both and calls f: the result is trace_hash(path)."""
    from ppci import ir
    m = ir.Module("m")
    gx = ir.Variable("gx", ir.Binding.GLOBAL, 4, 4)
    ga = ir.Variable("ga", ir.Binding.GLOBAL, 4, 4)
    m.add_variable(gx)
    m.add_variable(ga)
    f = ir.Function("f", ir.Binding.GLOBAL, ir.i32)
    m.add_function(f)
    blocks = [ir.Block(f"b{i}") for i in range(len(cfg))]
    for b in blocks:
        f.add_block(b)
    f.entry = blocks[0]
    for i, (b, t) in enumerate(zip(blocks, cfg)):
        e = b.add_instruction
        a = ir.Load(ga, "a", ir.i32); e(a)
        c31 = ir.Const(31, "c31", ir.i32); e(c31)
        mul = ir.Binop(a, "*", c31, "mul", ir.i32); e(mul)
        ci = ir.Const(i + 1, "ci", ir.i32); e(ci)
        add = ir.Binop(mul, "+", ci, "add", ir.i32); e(add)
        e(ir.Store(add, ga))
        if t[0] == "r":
            e(ir.Return(add))
        elif t[0] == "j":
            e(ir.Jump(blocks[t[1]]))
        else:
            x = ir.Load(gx, "x", ir.i32); e(x)
            one = ir.Const(1, "one", ir.i32); e(one)
            bit = ir.Binop(x, "&", one, "bit", ir.i32); e(bit)
            sh = ir.Binop(x, ">>", one, "sh", ir.i32); e(sh)
            e(ir.Store(sh, gx))
            z = ir.Const(0, "z", ir.i32); e(z)
            e(ir.CJump(bit, "!=", z, blocks[t[1]], blocks[t[2]]))
    r = ir.Function("run", ir.Binding.GLOBAL, ir.i32)
    m.add_function(r)
    x = ir.Parameter("x", ir.i32)
    r.add_parameter(x)
    rb = ir.Block("entry")
    r.add_block(rb)
    r.entry = rb
    rb.add_instruction(ir.Store(x, gx))
    z = ir.Const(0, "z", ir.i32); rb.add_instruction(z)
    rb.add_instruction(ir.Store(z, ga))
    call = ir.FunctionCall(f, [], "res", ir.i32); rb.add_instruction(call)
    rb.add_instruction(ir.Return(call))
    return m, f, blocks


def ir_cfg(function):
    """(cfg, blocks) of an ir function: reachable blocks in BFS order from the entry; None when a
    terminator has more than two targets (JumpTable) or is missing"""
    from ppci import ir
    order, seen, i = [function.entry], {function.entry}, 0
    while i < len(order):
        last = order[i].last_instruction
        if isinstance(last, ir.JumpTable) or last is None:
            return None
        tg = ([last.target] if isinstance(last, ir.Jump) else [last.lab_yes, last.lab_no] if isinstance(last, ir.CJump) else [])
        for s in tg:
            if s not in seen:
                seen.add(s)
                order.append(s)
        i += 1
    idx = {b: k for k, b in enumerate(order)}
    cfg = []
    for b in order:
        last = b.last_instruction
        if isinstance(last, ir.Jump):
            cfg.append(("j", idx[last.target]))
        elif isinstance(last, ir.CJump):
            cfg.append(("c", idx[last.lab_yes], idx[last.lab_no]))
        elif isinstance(last, (ir.Return, ir.Exit)):
            cfg.append(("r",))
        else:
            return None
    return cfg, order


# ----------------------------------------------------------------------------------------------
# running the real structuring + code generation, observed from outside
# ----------------------------------------------------------------------------------------------
def shape_tokens(shape, rmap, idx):
    from ppci.graph import relooper as S
    if shape is None:
        return ["N"]
    if isinstance(shape, S.BasicShape):
        return [f"b{idx[rmap[shape.content]]}"]
    if isinstance(shape, S.SequenceShape):
        out = [f"S{len(shape.shapes)}"]
        for s in shape.shapes:
            out += shape_tokens(s, rmap, idx)
        return out
    if isinstance(shape, S.IfShape):
        return [f"I{idx[rmap[shape.content]]}"] + shape_tokens(shape.yes_shape, rmap, idx) + shape_tokens(shape.no_shape, rmap, idx)
    if isinstance(shape, S.LoopShape):
        return ["L"] + shape_tokens(shape.body, rmap, idx)
    if isinstance(shape, S.BreakShape):
        return [f"K{shape.level}"]
    if isinstance(shape, S.ContinueShape):
        return [f"C{shape.level}"]
    raise common.BrokenCheck(f"unknown shape class {type(shape).__name__}")


def skeleton_tokens(instructions, marks, idx, cfg):
    """instruction list -> canonical skeleton tokens + list of problems with the block-code assumption"""
    toks, problems, stack = [], [], []
    cur, has_ret = None, False

    def close():
        nonlocal cur, has_ret
        if cur is not None:
            is_ret = cfg[cur][0] == "r"
            if is_ret != has_ret:
                problems.append(f"block {cur}: return {'missing' if is_ret else 'unexpected'}")
        cur, has_ret = None, False

    for i, ins in enumerate(list(instructions) + [None]):
        for b in marks.get(i, ()):
            close()
            cur = idx[b]
            toks.append(f"c{cur}")
        if ins is None:
            break
        op = ins.opcode
        if op in ("block", "loop", "if"):
            close()
            stack.append(op)
            toks.append({"block": "B", "loop": "L", "if": "I"}[op])
        elif op == "else":
            close()
            if not stack or stack[-1] != "if":
                problems.append("else without if")
            else:
                stack[-1] = "else"
            toks.append("E")
        elif op == "end":
            close()
            if not stack:
                problems.append("unbalanced end")
            else:
                if stack.pop() == "if":
                    toks.append("E")
            toks.append(".")
        elif op == "br":
            close()
            toks.append(f"r{ins.args[0].index}")
        elif op == "return":
            if cur is None:
                problems.append("return outside block code")
            has_ret = True
        elif op in ("br_if", "br_table", "unreachable"):
            problems.append(f"unexpected control opcode {op}")
    close()
    if stack:
        problems.append("unclosed construct")
    return toks, problems


class Captured:
    def __init__(self):
        self.shape = None      # shape tokens of the function
        self.tokens = None     # skeleton tokens
        self.problems = []
        self.exc = None        # exception raised by the real code (refusal)
        self.exc_where = None  # 'find_structure' | 'do_shape' | 'other'
        self.wasm = None
        self.cfg = None        # CFG of the function when find_structure was called
        self.blocks = None


def compile_capture(ir_module, function, cfg, blocks):
    """run the real IrToWasmCompiler on the module; capture shape and skeleton of `function`"""
    from ppci.wasm import ppci2wasm
    from ppci.graph import relooper
    cap = Captured()
    cap.cfg, cap.blocks = cfg, blocks
    idx = {b: k for k, b in enumerate(blocks)}
    comp = ppci2wasm.IrToWasmCompiler()
    comp.prepare_compilation()
    state = {"fn": None, "marks": {}, "stage": "other", "instrs": None}
    orig_fs = relooper.find_structure
    orig_do_block = comp.do_block
    orig_do_function = comp.do_function
    orig_do_shape = comp.do_shape

    def find_structure(f):
        state["stage"] = "find_structure"
        if f is function:
            # the CFG that is structured is the one the function has NOW: the code generator has already split
            # critical edges (blocks `<f>_edge_N`) when the function has phis
            try:
                r = ir_cfg(f)
                if r is not None:
                    cap.cfg, cap.blocks = r
                    idx.clear()
                    idx.update({b: k for k, b in enumerate(cap.blocks)})
            except Exception as e:  # noqa
                state["harness_error"] = e
        shape, rmap = orig_fs(f)
        state["stage"] = "do_shape"
        if f is function:
            try:
                cap.shape = shape_tokens(shape, rmap, idx)
            except Exception as e:  # noqa
                state["harness_error"] = e
        return shape, rmap

    def do_block(b):
        if state["fn"] is function:
            state["marks"].setdefault(len(comp.instructions), []).append(b)
        orig_do_block(b)

    def do_function(f, wf):
        state["fn"] = f
        state["stage"] = "other"
        orig_do_function(f, wf)
        if f is function:
            state["instrs"] = list(wf.instructions)
        state["stage"] = "other"

    comp.do_block = do_block
    comp.do_function = do_function
    relooper.find_structure = find_structure
    try:
        with contextlib.redirect_stdout(io.StringIO()):
            comp.compile(ir_module)
            cap.wasm = comp.create_wasm_module()
    except RecursionError as e:
        cap.exc, cap.exc_where = e, state["stage"]
    except Exception as e:  # noqa
        cap.exc, cap.exc_where = e, state["stage"]
    finally:
        relooper.find_structure = orig_fs
    if state.get("harness_error") is not None:
        raise common.BrokenCheck(f"harness could not read the shape/CFG: {state['harness_error']!r}")
    if cap.exc is None:
        if state["instrs"] is None:
            raise common.BrokenCheck("function was not compiled")
        cap.tokens, cap.problems = skeleton_tokens(state["instrs"], state["marks"], idx, cap.cfg)
    cap.compiler = comp
    return cap


def exc_kind(e):
    name = type(e).__name__
    if isinstance(e, ValueError) and any(s in str(e) for s in CLEAR_DIAGNOSTICS):
        return "diagnostic:" + name
    if isinstance(e, NotImplementedError):
        return "diagnostic:" + name
    return "internal:" + name


# ----------------------------------------------------------------------------------------------
# generators
# ----------------------------------------------------------------------------------------------
CORPUS = [
    # boundary cases
    ("single", [("r",)]),
    ("chain", [("j", 1), ("j", 2), ("r",)]),
    ("diamond", [("c", 1, 2), ("j", 3), ("j", 3), ("r",)]),
    ("if-then", [("c", 1, 2), ("j", 2), ("r",)]),
    ("while", [("j", 1), ("c", 2, 3), ("j", 1), ("r",)]),
    ("do-while", [("j", 1), ("c", 1, 2), ("r",)]),
    ("do-while-false-back", [("j", 1), ("c", 2, 1), ("r",)]),
    ("while-continue", [("j", 1), ("c", 2, 5), ("c", 1, 3), ("j", 4), ("j", 1), ("r",)]),
    ("while-break", [("j", 1), ("c", 2, 4), ("c", 4, 3), ("j", 1), ("r",)]),
    ("nested-c-style", [("j", 1), ("c", 2, 6), ("j", 3), ("c", 4, 5), ("j", 3), ("j", 1), ("r",)]),
    ("if-in-loop", [("j", 1), ("c", 2, 6), ("c", 3, 4), ("j", 5), ("j", 5), ("j", 1), ("r",)]),
    ("two-returns", [("c", 1, 2), ("r",), ("r",)]),
    ("break-in-two-ifs", [("j", 1), ("c", 2, 6), ("c", 3, 5), ("c", 6, 4), ("j", 5), ("j", 1), ("r",)]),
    ("continue-in-two-ifs", [("j", 1), ("c", 2, 7), ("c", 3, 5), ("c", 1, 4), ("j", 5), ("j", 6), ("j", 1), ("r",)]),
    ("break-and-continue", [("j", 1), ("c", 2, 6), ("c", 6, 3), ("c", 1, 4), ("j", 5), ("j", 1), ("r",)]),
    ("cjmp-same-target", [("c", 1, 1), ("r",)]),
    ("infinite-loop", [("j", 1), ("j", 1)]),
    # witnesses of the open findings (one per failure class)
    ("finding-E", [("c", 1, 2), ("r",), ("c", 0, 2)]),
    ("finding-H", [("j", 1), ("c", 2, 3), ("r",), ("c", 1, 3)]),
    ("finding-I", [("c", 1, 2), ("j", 2), ("c", 1, 3), ("r",)]),
    ("finding-J", [("c", 1, 2), ("c", 1, 3), ("c", 1, 3), ("r",)]),
    ("finding-M", [("c", 1, 2), ("c", 3, 2), ("r",), ("c", 4, 1), ("r",)]),
    ("finding-N", [("j", 1), ("c", 2, 3), ("j", 4), ("r",), ("c", 5, 6), ("j", 4), ("j", 1)]),
    ("finding-P", [("j", 1), ("c", 2, 3), ("c", 4, 5), ("r",), ("c", 6, 5), ("j", 3), ("j", 5)]),
    ("finding-Q", [("c", 1, 2), ("c", 3, 4), ("r",), ("c", 3, 2), ("r",)]),
    ("finding-R", [("j", 1), ("c", 2, 3), ("c", 4, 5), ("j", 6), ("j", 7), ("c", 8, 9), ("j", 10), ("r",), ("j", 3), ("r",),
                   ("j", 11), ("c", 12, 6), ("j", 13), ("r",)]),
    ("finding-T", [("j", 1), ("c", 2, 3), ("j", 1), ("j", 4), ("c", 5, 6), ("j", 6), ("j", 7), ("c", 8, 9), ("j", 10), ("r",),
                   ("j", 7)]),
    ("finding-U", [("c", 1, 2), ("c", 3, 4), ("c", 3, 5), ("r",), ("j", 3), ("j", 6), ("r",)]),
    ("finding-X", [("c", 1, 2), ("j", 1), ("c", 1, 3), ("r",)]),
    ("finding-U-17", [("j", 1), ("c", 2, 3), ("j", 4), ("c", 5, 6), ("c", 7, 8), ("r",), ("c", 9, 10), ("j", 11), ("r",), ("j", 2),
                         ("j", 2), ("j", 12), ("j", 13), ("c", 14, 15), ("j", 16), ("r",), ("j", 13)]),
]


def gen_structured(rng, budget=6):
    """random structured program -> CFG as a C compiler would lay it out (with join blocks);
    statements: basic, if, if-else, while, do-while, break, continue, return"""
    cfg = []

    def new():
        cfg.append(None)
        return len(cfg) - 1

    def stmts(cur, depth, brk, cont, n):
        """emit n statements starting in open block `cur`; returns the open block at the end (None if dead)"""
        for _ in range(n):
            if cur is None:
                return None
            k = rng.random()
            if depth >= 3 or k < 0.15:
                nxt = new()
                cfg[cur] = ("j", nxt)
                cur = nxt
            elif k < 0.35:  # if
                th, join = new(), new()
                cfg[cur] = ("c", th, join) if rng.random() < 0.7 else ("c", join, th)
                e = stmts(th, depth + 1, brk, cont, rng.randint(1, 2))
                if e is not None:
                    cfg[e] = ("j", join)
                cur = join
            elif k < 0.5:  # if-else
                th, el, join = new(), new(), new()
                cfg[cur] = ("c", th, el)
                for arm in (th, el):
                    e = stmts(arm, depth + 1, brk, cont, rng.randint(1, 2))
                    if e is not None:
                        cfg[e] = ("j", join)
                cur = join
            elif k < 0.68:  # while
                head, body, ex = new(), new(), new()
                cfg[cur] = ("j", head)
                cfg[head] = ("c", body, ex) if rng.random() < 0.8 else ("c", ex, body)
                e = stmts(body, depth + 1, ex, head, rng.randint(1, 3))
                if e is not None:
                    cfg[e] = ("j", head)
                cur = ex
            elif k < 0.8:  # do-while
                body, test, ex = new(), new(), new()
                cfg[cur] = ("j", body)
                e = stmts(body, depth + 1, ex, test, rng.randint(1, 2))
                if e is not None:
                    cfg[e] = ("j", test)
                cfg[test] = ("c", body, ex) if rng.random() < 0.6 else ("c", ex, body)
                cur = ex
            elif k < 0.87 and brk is not None:
                cfg[cur] = ("j", brk)
                cur = None
            elif k < 0.93 and cont is not None:
                cfg[cur] = ("j", cont)
                cur = None
            elif k < 0.97:
                cfg[cur] = ("r",)
                cur = None
            else:
                nxt = new()
                cfg[cur] = ("j", nxt)
                cur = nxt
        return cur

    e = stmts(new(), 0, None, None, rng.randint(1, budget))
    if e is not None:
        cfg[e] = ("r",)
    for i, t in enumerate(cfg):
        if t is None:
            cfg[i] = ("r",)
    return canonize(cfg)


def thread_jumps(cfg):
    """what CleanPass-like optimisations do: skip blocks that only jump (not the entry, not self loops)"""
    cfg = list(cfg)

    def final(t, seen=()):
        while cfg[t][0] == "j" and t != 0 and cfg[t][1] != t and t not in seen:
            seen = seen + (t,)
            t = cfg[t][1]
        return t

    out = [tuple([t[0]] + [final(s) for s in t[1:]]) for t in cfg]
    return canonize(out)


def gen_random(rng):
    n = rng.randint(4, 9)
    cfg = []
    for _b in range(n):
        k = rng.random()
        if k < 0.2:
            cfg.append(("r",))
        elif k < 0.55:
            cfg.append(("j", rng.randrange(1, n)))
        else:
            cfg.append(("c", rng.randrange(1, n), rng.randrange(1, n)))
    return canonize(cfg)


def gen_c_function(rng):
    """small C function with loops / ifs / break / continue / early returns / short-circuit conditions"""
    vs = ["a", "b", "c"]

    def cond():
        k = rng.random()
        atom = lambda: f"{rng.choice(vs)} {rng.choice(['<', '>', '==', '!=', '<=', '>='])} {rng.choice(vs + [str(rng.randint(0, 9))])}"
        if k < 0.6:
            return atom()
        if k < 0.8:
            return f"{atom()} && {atom()}"
        return f"{atom()} || {atom()}"

    def simple():
        v = rng.choice(vs)
        return f"{v} = {rng.choice(vs)} {rng.choice(['+', '-', '*', '^', '&'])} {rng.choice(vs + [str(rng.randint(1, 9))])};"

    def stmt(depth, inloop):
        k = rng.random()
        if depth >= 3 or k < 0.3:
            return simple()
        if k < 0.45:
            return f"if ({cond()}) {{ {block(depth + 1, inloop)} }}"
        if k < 0.55:
            return f"if ({cond()}) {{ {block(depth + 1, inloop)} }} else {{ {block(depth + 1, inloop)} }}"
        if k < 0.7:
            return f"while ((n = n - 1) > 0 && ({cond()})) {{ {block(depth + 1, True)} }}"
        if k < 0.78:
            return f"do {{ {block(depth + 1, True)} }} while ((n = n - 1) > 0 && ({cond()}));"
        if k < 0.86:
            return f"for (i = 0; (n = n - 1) > 0 && i < {rng.randint(1, 4)}; i = i + 1) {{ {block(depth + 1, True)} }}"
        if k < 0.91 and inloop:
            return f"if ({cond()}) break;"
        if k < 0.96 and inloop:
            return f"if ({cond()}) continue;"
        return f"if ({cond()}) return {rng.choice(vs)};"

    def block(depth, inloop):
        return " ".join(stmt(depth, inloop) for _ in range(rng.randint(1, 3)))

    body = block(0, False)
    return f"int f(int a, int b, int c) {{ int i; int n = 20; {body} return a + b + c; }}"


# ----------------------------------------------------------------------------------------------
# the check
# ----------------------------------------------------------------------------------------------
BATCH_TIMEOUT = 150      # seconds for one driver process


def run_driver(lines, timeout):
    """same command as Ctx.driver, but in its own process group so that a timeout kills `lean` itself and not
    only the `lake env` wrapper (an orphaned `lean --run` would keep a core busy)"""
    import os
    import signal
    import subprocess
    data = "".join(l + "\n" for l in lines)
    p = subprocess.Popen(["lake", "env", "lean", "--run", "Drivers/C23.lean"], cwd=common.LEAN, stdin=subprocess.PIPE,
                         stdout=subprocess.PIPE, stderr=subprocess.PIPE, text=True, start_new_session=True)
    try:
        out, err = p.communicate(data, timeout=timeout)
    except subprocess.TimeoutExpired:
        try:
            os.killpg(p.pid, signal.SIGKILL)
        except ProcessLookupError:
            pass
        p.communicate()
        raise
    replies = out.splitlines()
    if p.returncode != 0 or len(replies) != len(lines):
        raise common.BrokenCheck(f"driver C23: rc={p.returncode}, {len(replies)} replies for {len(lines)} requests\n"
                                 + err[-2000:] + "\n" + "\n".join(replies[-5:]))
    return replies
BUDGET_REPLY = "ok budget"


def driver_budgeted(ctx, reqs):
    """ctx.driver with a time budget per driver process: a batch that does not finish is split in halves and
    retried; a single request that does not finish is answered with BUDGET_REPLY (counted, never a pass)."""
    import subprocess
    if not reqs:
        return []
    try:
        return run_driver(reqs, BATCH_TIMEOUT)
    except subprocess.TimeoutExpired:
        ctx.count("driver_batch_timeout")
        if len(reqs) == 1:
            ctx.count("oracle_search_budget_exhausted")
            ctx.note("driver request exceeded the time budget: " + reqs[0][:300])
            return [BUDGET_REPLY]
        h = len(reqs) // 2
        return driver_budgeted(ctx, reqs[:h]) + driver_budgeted(ctx, reqs[h:])


def pdriver(ctx, reqs, chunks=4):
    """driver_budgeted over several driver processes in parallel (replies in request order)"""
    if len(reqs) < 40:
        return driver_budgeted(ctx, reqs)
    from concurrent.futures import ThreadPoolExecutor
    k = (len(reqs) + chunks - 1) // chunks
    parts = [reqs[i:i + k] for i in range(0, len(reqs), k)]
    with ThreadPoolExecutor(len(parts)) as ex:
        outs = list(ex.map(lambda part: driver_budgeted(ctx, part), parts))
    return [r for o in outs for r in o]


class Case:
    def __init__(self, origin, cfg, cap, module=None, extra=None):
        self.origin, self.cfg, self.cap, self.module, self.extra = origin, (cap.cfg if cap.cfg is not None else cfg), cap, module, extra or {}
        self.cls = failure_class(cfg, origin)


class ExecTimeout(Exception):
    pass


@contextlib.contextmanager
def time_limit(seconds):
    """interrupt a (possibly non-terminating) execution of generated code; main thread only"""
    import signal

    def handler(signum, frame):
        raise ExecTimeout()

    old = signal.signal(signal.SIGALRM, handler)
    signal.setitimer(signal.ITIMER_REAL, seconds)
    try:
        yield
    finally:
        signal.setitimer(signal.ITIMER_REAL, 0)
        signal.signal(signal.SIGALRM, old)


def run_wasm(cap, x):
    from ppci.wasm import instantiate
    inst = instantiate(cap.wasm, target="python")
    with time_limit(5):
        return inst.exports.run(x)


def run_ir(module, x):
    from ppci.lang.python import ir_to_python
    f = io.StringIO()
    ir_to_python([module], f)
    ns = {}
    exec(f.getvalue(), ns)
    with time_limit(5):
        return ns["run"](x)


def bits_to_x(bits):
    return sum(b << i for i, b in enumerate(bits))


def handle_cases(ctx, cases, extra=None):
    """send every captured (cfg, shape, skeleton) to the Lean validator; evaluate the property.
    `extra` = (requests, callback): further driver requests answered in the same driver run."""
    reqs, owners = [], []
    for c in cases:
        cap = c.cap
        ctx.count("eval_structure")
        if len(c.cfg) > 1 and any(t[0] == "c" for t in c.cfg):
            ctx.nontrivial((c.origin.split(":")[0], tuple(c.cfg)))
        ctx.count("class_" + c.cls)
        if cap.exc is not None:
            kind = exc_kind(cap.exc)
            ctx.count(f"refusal_{cap.exc_where}_{kind}")
            if cap.exc_where == "do_shape" and cap.shape is not None:
                import traceback
                frames = [fr.name for fr in traceback.extract_tb(cap.exc.__traceback__)]
                if "do_block" in frames:
                    # raised while translating the straight-line code of a block (e.g. UNDI32): expression level
                    ctx.count("refusal_block_code_" + type(cap.exc).__name__)
                elif isinstance(cap.exc, AssertionError) and str(cap.exc).strip().isdigit():
                    # `assert self.stack == 0, str(self.stack)`: operand-stack bookkeeping of the block code
                    # (a cjmp whose targets coincide leaves its condition behind) - not part of the shape model
                    ctx.count("refusal_operand_stack_assertion")
                else:
                    reqs.append("s " + " ".join(cap.shape))
                    owners.append(("s", c))
            continue
        ctx.count("programs")
        for p in cap.problems:
            ctx.disagree("block-code assumption (return iff returning block / only block,loop,if,br control opcodes)",
                         {"origin": c.origin, "cfg": c.cfg}, p, "assumed by Model.Shape.exec")
        reqs.append("v " + cfg_tokens(c.cfg) + " | " + " ".join(cap.shape) + " | " + " ".join(cap.tokens))
        owners.append(("v", c))
    nx = len(extra[0]) if extra else 0
    replies = pdriver(ctx, reqs + (extra[0] if extra else []))
    if extra:
        extra[1](replies[len(reqs):])
        replies = replies[:len(reqs)]
    rejected = []
    for (kind, c), rq, rp in zip(owners, reqs, replies):
        cap = c.cap
        if kind == "s":
            impl = "err " + type(cap.exc).__name__
            if rp != impl:
                import traceback
                tb = traceback.extract_tb(cap.exc.__traceback__)[-1]
                ctx.disagree("do_shape model: exception", {"origin": c.origin, "cfg": cfg_tokens(c.cfg), "request": rq,
                                                          "exception": repr(cap.exc)[:200], "at": f"{tb.name}:{tb.line}"}, impl, rp)
            continue
        if rp == BUDGET_REPLY:
            # the combined validate+search request ran out of time: the skeleton is NOT counted as validated;
            # it goes the rejection path with an exhausted search budget
            ctx.count("validator_budget")
            c.accepted = False
            c.found = BUDGET_REPLY
            rejected.append(c)
            continue
        head, _, found = rp.partition(" | ")
        w = head.split()
        if len(w) < 3 or w[0] != "ok":
            raise common.BrokenCheck(f"driver reply {rp!r} to {rq!r}")
        verdict, cmp_ = w[1], w[2]
        if cmp_ != "same" or len(w) > 3:
            ctx.disagree("do_shape model: skeleton", {"origin": c.origin, "cfg": c.cfg, "request": rq}, " ".join(cap.tokens), head)
        ctx.count("validator_" + verdict)
        if verdict == "acc":
            c.accepted = True
            if len(ctx.samples) < 4 and len(c.cfg) >= 3:
                ctx.sample({"origin": c.origin, "cfg": cfg_tokens(c.cfg), "skeleton": " ".join(cap.tokens), "validator": "accept"})
        else:
            c.accepted = False
            c.found = "ok " + found
            rejected.append(c)
    # every rejection: search a concrete oracle
    if rejected:
        def fuel(c):
            return min(1500, 150 + 3 * len(c.cap.tokens))

        def max_oracles(c):
            # a run of execK stops after K blocks and normally costs ~K * nesting depth steps; the cap only guards
            # very large skeletons, the per-process time budget (BATCH_TIMEOUT) guards everything else
            return 2348 if len(c.cap.tokens) <= 1500 else 600
        drep = [c.found for c in rejected]   # first search (2^6 decision prefixes) was done with the validation
        dreq = ["v-search"] * len(rejected)
        again = [i for i, rp in enumerate(drep) if not rp.startswith("ok differ")]
        if again:
            dreq2 = ["d " + cfg_tokens(rejected[i].cfg) + " | " + " ".join(rejected[i].cap.tokens)
                     + f" | 11 48 {fuel(rejected[i])} 300 {max_oracles(rejected[i])}" for i in again]
            for i, rp in zip(again, pdriver(ctx, dreq2)):
                drep[i], dreq[i] = rp, dreq2[again.index(i)]
        for c, rq, rp in zip(rejected, dreq, drep):
            case = {"origin": c.origin, "cfg": cfg_tokens(c.cfg), "class": c.cls, "skeleton": " ".join(c.cap.tokens),
                    "shape": " ".join(c.cap.shape)}
            if "source" in c.extra:
                case["source"] = c.extra["source"]
            if rp.startswith("ok differ"):
                sig = f"structuring:wrong-skeleton:{c.cls}"
                detail = dict(kv.split("=", 1) for kv in rp.split()[2:])
                confirmed = confirm_by_execution(ctx, c, detail)
                ctx.count("wrong_structure_" + c.cls)
                if confirmed and confirmed.get("differs"):
                    ctx.count("wrong_structure_confirmed_by_execution")
                ctx.fail(sig, f"find_structure/do_shape emit a control skeleton whose block trace differs from the CFG's "
                              f"(CFG class {c.cls}): {rp[3:]}", case, oracle=detail, confirmed_by_execution=confirmed)
            else:
                if "budget" in rp:
                    ctx.count("oracle_search_budget_exhausted")
                ctx.disagree("validator rejects the emitted skeleton but no differing oracle was found "
                             "(up to 2^11 decision prefixes + 300 random oracles, within the search budget)", case, "emitted", rp)
    return rejected


def confirm_by_execution(ctx, c, detail):
    """replay the failing oracle on the real code: wasm on ppci's runtime vs the IR on ir_to_python"""
    if c.module is None or c.cap.wasm is None:
        return None
    if ctx.counts["eval_replay_exec"] >= (250 if ctx.thorough else 60) and not c.origin.startswith("corpus"):
        return None  # budget: the failing oracle itself is already concrete
    xb = [int(ch) for ch in detail.get("bits", "") if ch in "01"]
    hist, fin = sim_cfg(c.cfg, xb, 60)
    if not fin:
        return None  # the IR does not terminate under this oracle: cannot be replayed by execution
    ok, _k = sim_skeleton_terminates(c.cfg, c.cap.tokens, xb)
    if not ok:
        return None
    try:
        x = bits_to_x(xb)
        r_ir = run_ir(c.module, x)
        r_w = run_wasm(c.cap, x)
    except Exception as e:  # noqa
        ctx.count("replay_exec_error_" + type(e).__name__)
        return None
    ctx.count("eval_replay_exec")
    if r_ir != trace_hash(hist):
        ctx.disagree("ir_to_python result of the instrumented IR vs CFG path hash", {"cfg": c.cfg, "x": x}, r_ir, trace_hash(hist))
    return {"x": x, "ir_result": r_ir, "wasm_result": r_w, "differs": r_ir != r_w}


def parse_skeleton(toks):
    pos = 0

    def seq():
        nonlocal pos
        out = []
        while pos < len(toks) and toks[pos] not in ("E", "."):
            t = toks[pos]
            pos += 1
            if t[0] == "c":
                out.append(("code", int(t[1:])))
            elif t[0] == "r":
                out.append(("br", int(t[1:])))
            elif t in ("B", "L"):
                body = seq()
                pos += 1
                out.append(("block" if t == "B" else "loop", body))
            elif t == "I":
                y = seq()
                pos += 1
                n = seq()
                pos += 1
                out.append(("if", y, n))
        return out

    return seq()


def sim_skeleton(cfg, toks, xbits, maxsteps=200):
    """python re-implementation of the skeleton semantics with a per-cjump bit oracle (used to guard
    real executions against non-termination and to predict their result)"""
    prog = parse_skeleton(toks)
    hist, conds, k = [], [], [0]

    class Br(Exception):
        def __init__(self, n):
            self.n = n

    class Stop(Exception):
        def __init__(self, kind):
            self.kind = kind

    budget = [maxsteps * 20]

    def ex(lst):
        for ins in lst:
            budget[0] -= 1
            if budget[0] < 0 or len(hist) > maxsteps:
                raise Stop("out")
            if ins[0] == "code":
                b = ins[1]
                hist.append(b)
                t = cfg[b]
                if t[0] == "r":
                    raise Stop("ret")
                if t[0] == "c":
                    conds.append(xbits[k[0]] if k[0] < len(xbits) else 0)
                    k[0] += 1
            elif ins[0] == "br":
                raise Br(ins[1])
            elif ins[0] == "block":
                try:
                    ex(ins[1])
                except Br as e:
                    if e.n:
                        raise Br(e.n - 1)
            elif ins[0] == "loop":
                while True:
                    try:
                        ex(ins[1])
                        break
                    except Br as e:
                        if e.n:
                            raise Br(e.n - 1)
                        budget[0] -= 1
                        if budget[0] < 0:
                            raise Stop("out")
            elif ins[0] == "if":
                if not conds:
                    raise Stop("stuck")
                cnd = conds.pop()
                try:
                    ex(ins[1] if cnd else ins[2])
                except Br as e:
                    if e.n:
                        raise Br(e.n - 1)

    try:
        ex(prog)
        kind = "fall"
    except Stop as s:
        kind = s.kind
    except Br:
        kind = "escape"
    return kind, hist


def sim_skeleton_terminates(cfg, toks, xbits):
    kind, hist = sim_skeleton(cfg, toks, xbits)
    return kind in ("ret", "fall"), kind


def exec_sanity(ctx, cases, limit):
    """tie Model.Shape.exec to an actual wasm executor (ppci's own runtime) and to ir_to_python on
    accepted outputs: result of run(x) = hash of the block trace"""
    pool = [c for c in cases if c.module is not None and c.cap.exc is None and getattr(c, "accepted", False) and len(c.cfg) >= 2]
    ctx.rng.shuffle(pool)
    done = 0
    for c in pool:
        if done >= limit:
            break
        xb = [ctx.rng.randint(0, 1) for _ in range(16)]
        hist, fin = sim_cfg(c.cfg, xb, 60)
        if not fin:
            continue
        kind, whist = sim_skeleton(c.cfg, c.cap.tokens, xb)
        x = bits_to_x(xb)
        try:
            r_ir = run_ir(c.module, x)
            r_w = run_wasm(c.cap, x)
        except Exception as e:  # noqa
            ctx.count("exec_error_" + type(e).__name__)
            continue
        done += 1
        ctx.count("eval_exec")
        want = trace_hash(hist)
        case = {"origin": c.origin, "cfg": cfg_tokens(c.cfg), "x": x, "skeleton": " ".join(c.cap.tokens)}
        if kind != "ret" or whist != hist:
            ctx.disagree("python skeleton simulator vs CFG path on an accepted skeleton", case, [kind, whist], hist)
        if r_ir != want:
            ctx.disagree("ir_to_python result vs CFG path hash", case, r_ir, want)
        if r_w != r_ir:
            ctx.fail("execution:wasm-result-differs:accepted-structure",
                     f"run({x}) = {r_w} on ppci's wasm runtime but {r_ir} under ir_to_python although the control skeleton "
                     f"was validated (expression-level translation or runtime fault)", case, wasm=r_w, ir=r_ir)


def c_exec(ctx, cases, limit):
    """failing-input search only: C functions whose structuring was validated are executed on ppci's own
    wasm runtime and under ir_to_python with random arguments"""
    from ppci.wasm import instantiate
    from ppci.lang.python import ir_to_python
    pool = [c for c in cases if "c_module" in c.extra and c.cap.exc is None and getattr(c, "accepted", False)]
    for c in pool[:limit]:
        try:
            inst = instantiate(c.cap.wasm, target="python")
            f = io.StringIO()
            ir_to_python([c.extra["c_module"]], f)
            ns = {}
            exec(f.getvalue(), ns)
        except Exception as e:  # noqa
            ctx.count("c_exec_setup_error_" + type(e).__name__)
            continue
        for _ in range(3):
            args = [ctx.rng.randint(-3, 12) for _ in range(3)]
            res = {}
            for side, fn in (("ir", ns["f"]), ("wasm", inst.exports.f)):
                try:
                    with time_limit(5):
                        res[side] = ("ok", fn(*args))
                except ExecTimeout:
                    res[side] = ("timeout", None)
                except Exception as e:  # noqa
                    res[side] = ("exc", type(e).__name__)
            ctx.count("eval_c_exec")
            case = {"origin": c.origin, "source": c.extra["source"], "args": args}
            if res["ir"][0] != "ok":
                # the reference side itself failed (ir_to_python / optimiser): not a C23 verdict, counted and noted
                ctx.count(f"c_exec_reference_{res['ir'][0]}")
                ctx.note(f"ir_to_python reference {res['ir']} for f{tuple(args)} ({c.origin}): {c.extra['source'][:300]}")
                break
            if res["wasm"] != res["ir"]:
                ctx.fail("execution:wasm-result-differs:accepted-structure",
                         f"f{tuple(args)} -> {res['wasm']} on ppci's wasm runtime but {res['ir']} under ir_to_python although the "
                         f"control skeleton was validated (expression-level translation, C22 runtime or ir_to_python fault)",
                         case, wasm=res["wasm"], ir=res["ir"])
                break


def capture_cfg(origin, cfg):
    m, f, blocks = build_module(cfg)
    cap = compile_capture(m, f, cfg, blocks)
    return Case(origin, cfg, cap, module=m)


C_CORPUS = [
    # witness of finding P at the C level: f(1,1) is 11, the wasm returns 21 (the join `r = r + 10` runs twice)
    "int f(int a, int b, int c) { int r = 0; if (a < 9) { if (a > 0 && b > 0) { r = 1; } r = r + 10; } return r; }",
    "int f(int a, int b, int c) { int r = 0; while (a > 0) { if (b > a) { r = r + b; } else { r = r + 1; } a = a - 1; } return r + c; }",
    "int tab[4] = {10, 20, 30, 40}; char msg[] = \"hey\"; int f(int a, int b, int c) { if (a < 0 || a > 3) return msg[1]; return tab[a] + b; }",
]


def c_cases(ctx, n):
    from ppci import api
    from ppci.common import CompilerError
    out = []
    for k in range(len(C_CORPUS) + n):
        src = C_CORPUS[k] if k < len(C_CORPUS) else gen_c_function(ctx.rng)
        for opt in (0, 2):
            try:
                with contextlib.redirect_stdout(io.StringIO()):
                    m = api.c_to_ir(io.StringIO(src), "arm")
            except CompilerError:
                ctx.count("c_frontend_rejects")
                continue
            if opt:
                try:
                    with contextlib.redirect_stdout(io.StringIO()):
                        api.optimize(m, level=opt)
                except Exception as e:  # noqa  (optimizer crash: not this property, counted and noted)
                    ctx.count("optimizer_crash_" + type(e).__name__)
                    continue
            f = [fn for fn in m.functions if fn.name == "f"][0]
            r = ir_cfg(f)
            if r is None:
                ctx.count("c_unsupported_terminator")
                continue
            cfg, blocks = r
            cap = compile_capture(m, f, cfg, blocks)
            out.append(Case(f"c:O{opt}", cfg, cap, module=None, extra={"source": src, "c_module": m}))
            ctx.count(f"c_functions_O{opt}")
    return out


DATA_PATTERNS = [
    # (amount, initial bytes): leading / trailing / middle zeros, all-zero, 1-byte, odd sizes, short initialisers
    (4, bytes([0, 1, 0, 0])),            # int 256: leading zero byte
    (4, bytes([0, 0, 1, 0])),            # int 65536
    (4, bytes([0, 252, 255, 255])),      # int -1024
    (4, bytes([7, 0, 0, 0])),            # trailing zeros only
    (4, bytes([0, 0, 0, 0])),            # all zero, explicitly initialised
    (1, bytes([0])), (1, bytes([5])),
    (3, bytes([0, 0, 9])), (5, bytes([1, 0, 0, 0, 2])), (7, bytes([0, 3, 0, 4, 0, 5, 0])),
    (8, bytes([0, 0, 0, 0, 0, 0, 240, 63])),   # double 1.0
    (24, bytes([0, 0, 0, 0, 0, 0, 0, 0, 11, 0, 0, 0, 22, 0, 0, 0, 0, 0, 0, 0, 33, 0, 0, 0])),
    (8, bytes([0, 0, 0, 0, 5, 0, 0, 0])),      # struct {char c; int v;} = {0, 5}
    (13, b"\x00hello\x00\x00wor\x00d"),
    (6, bytes([0, 1])),                  # initial value shorter than the variable
    (4, b""),                            # uninitialised
]


def gen_data(rng):
    if rng.random() < 0.5:
        return rng.choice(DATA_PATTERNS)
    amount = rng.choice([1, 2, 3, 4, 5, 8, 13, 16])
    k = rng.random()
    if k < 0.15:
        return amount, b""
    data = bytes(0 if rng.random() < 0.45 else rng.randrange(1, 256) for _ in range(amount))
    return amount, data


def module_globals(m):
    """[(name, amount, initial bytes)] of an IR module; None when an initial value is not plain bytes"""
    out = []
    for v in m.variables:
        parts = v.value or ()
        if not all(isinstance(p, (bytes, bytearray)) for p in parts):
            return None
        out.append((v.name, v.amount, b"".join(bytes(p) for p in parts)))
    return out


def wasm_compile(m):
    from ppci.wasm import ppci2wasm
    comp = ppci2wasm.IrToWasmCompiler()
    comp.prepare_compilation()
    with contextlib.redirect_stdout(io.StringIO()):
        comp.compile(m)
        wm = comp.create_wasm_module()
    return comp, wm


def data_property(ctx, origin, globs, comp, wm, case, batch):
    """THE PROPERTY ON THE REAL OUTPUT: linear memory rebuilt from the emitted data segments holds, at the
    address the translated code uses for each global, exactly the IR's initial bytes (zero where there are none);
    slots are disjoint and above the stack region.  Also queues the comparison with Model.DataSeg."""
    from ppci.wasm import components
    segs = []
    for d in wm.definitions:
        if isinstance(d, components.Data):
            if d.mode is None or d.mode[1][0].opcode != "i32.const":
                ctx.fail("dataseg:unexpected-segment-form", f"data segment {d.id} is not active with an i32.const offset", case)
                continue
            segs.append((d.mode[1][0].args[0], bytes(d.data)))
    addrs = [comp.global_labels.get(name) for name, _a, _d in globs]
    ctx.count("eval_dataseg")
    ctx.count("programs")
    end = max([comp.global_memory] + [off + len(dt) for off, dt in segs]) + 8
    mem = bytearray(end + 8)
    for off, dt in segs:          # wasm instantiation: active segments are copied in order
        mem[off:off + len(dt)] = dt
    for (name, amount, data), addr in zip(globs, addrs):
        if addr is None:
            ctx.fail("dataseg:no-address", f"global {name} has no address", case)
            continue
        if len(data) > amount:
            ctx.count("dataseg_initial_value_longer_than_variable")
            continue
        want = data + bytes(amount - len(data))
        got = bytes(mem[addr:addr + amount])
        if data and (data[0] == 0 or data[-1] == 0 or 0 in data):
            ctx.nontrivial(("dataseg", amount, data.hex()))
        if got != want:
            ctx.fail("dataseg:initial-bytes-differ",
                     f"{origin}: global {name} ({amount} bytes at {addr}): memory rebuilt from the emitted data segments holds "
                     f"{got.hex()} but the IR initial value is {want.hex()}",
                     dict(case, **{"global": name, "segments": [(o, d.hex()) for o, d in segs]}))
        if addr < comp.STACKSIZE:
            ctx.fail("dataseg:in-stack-region", f"global {name} at {addr} < STACKSIZE {comp.STACKSIZE}", case)
    order = sorted(zip(addrs, globs), key=lambda t: (t[0] is None, t[0]))
    for (a1, g1), (a2, g2) in zip(order, order[1:]):
        if a1 is not None and a2 is not None and a1 + g1[1] > a2:
            ctx.fail("dataseg:overlap", f"globals {g1[0]} [{a1},{a1 + g1[1]}) and {g2[0]} at {a2} overlap", case)
    # model (only meaningful when every initial value fits: WF)
    if all(len(d) <= a for _n, a, d in globs) and all(a is not None for a in addrs):
        reqs, impls, cases = batch
        reqs.append(f"lay {comp.STACKSIZE} " + " ".join(f"{a}:{len(d)}" for _n, a, d in globs))
        # global_memory also advances over literal constants placed after the globals: compare the globals' end
        impls.append("ok " + " ".join(map(str, addrs)) + f" end={comp.STACKSIZE + sum(a for _n, a, _d in globs)}")
        cases.append(case)
        lo = comp.STACKSIZE - 2
        hi = comp.STACKSIZE + sum(a for _n, a, _d in globs) + 2
        reqs.append(f"img {comp.STACKSIZE} " + " ".join(f"{a}:{d.hex() or '-'}" for _n, a, d in globs) + f" @ {lo} {hi - lo}")
        impls.append("ok " + bytes(mem[lo:hi]).hex())
        cases.append(case)
    return addrs


def ir_data_module(rng):
    """IR module with initialised globals and, per global i, a function rd<i>(j) = zero-extended byte j of it"""
    from ppci import ir
    m = ir.Module("m")
    vs = []
    for i in range(rng.randint(1, 6)):
        amount, data = gen_data(rng)
        parts = ()
        if data:
            cut = rng.randint(0, len(data))
            parts = tuple(p for p in (data[:cut], data[cut:]) if p)
        v = ir.Variable(f"g{i}", ir.Binding.GLOBAL, amount, rng.choice([1, 4, 8]), value=parts or None)
        m.add_variable(v)
        vs.append((amount, data))
        f = ir.Function(f"rd{i}", ir.Binding.GLOBAL, ir.i32)
        m.add_function(f)
        j = ir.Parameter("j", ir.i32)
        f.add_parameter(j)
        b = ir.Block("entry")
        f.add_block(b)
        f.entry = b
        c = ir.Cast(j, "c", ir.ptr); b.add_instruction(c)
        a = ir.Binop(v, "+", c, "a", ir.ptr); b.add_instruction(a)
        ld = ir.Load(a, "l", ir.u8); b.add_instruction(ld)
        r = ir.Cast(ld, "r", ir.i32); b.add_instruction(r)
        b.add_instruction(ir.Return(r))
    return m, vs


C_DATA_CORPUS = [
    ("""int plain = 7; int k256 = 256; int big = 65536; int neg = -1024; int zero = 0; int un;
int tab[6] = {0, 0, 11, 22, 0, 33}; short sh[3] = {0, 513, 2}; char one = 0; char two = 9;
struct P { char c; int v; } p = {0, 5}; char msg[8] = "hi"; char lead[5] = {0, 0, 'x', 0, 'y'}; double d = 1.0; int tail = 99;
int get_plain(void) { return plain; } int get_k256(void) { return k256; } int get_big(void) { return big; }
int get_neg(void) { return neg; } int get_zero(void) { return zero; } int get_un(void) { return un; }
int get_tab(int i) { return tab[i]; } int get_sh(int i) { return sh[i]; } int get_one(void) { return one; }
int get_two(void) { return two; } int get_pc(void) { return p.c; } int get_pv(void) { return p.v; }
int get_msg(int i) { return msg[i]; } int get_lead(int i) { return lead[i]; } int get_tail(void) { return tail; }
""", {"get_plain": None, "get_k256": None, "get_big": None, "get_neg": None, "get_zero": None, "get_un": None,
      "get_tab": 6, "get_sh": 3, "get_one": None, "get_two": None, "get_pc": None, "get_pv": None, "get_msg": 8,
      "get_lead": 5, "get_tail": None}),
]


def gen_c_data(rng):
    """C source with int / short / char array / struct / string / double globals and getters"""
    ints = [0, 1, 7, 255, 256, 511, 65536, 16777216, -1, -256, -1024, -65536, 0x00FF00, 0x7F000000]
    decls, getters, calls = [], [], {}
    for i in range(rng.randint(2, 7)):
        k = rng.random()
        if k < 0.3:
            decls.append(f"int v{i} = {rng.choice(ints)};")
            getters.append(f"int get{i}(void) {{ return v{i}; }}")
            calls[f"get{i}"] = None
        elif k < 0.5:
            n = rng.randint(1, 6)
            vals = [rng.choice([0, 0, 0, 11, 256, -1, 65536]) for _ in range(n)]
            decls.append(f"int v{i}[{n}] = {{{', '.join(map(str, vals))}}};")
            getters.append(f"int get{i}(int j) {{ return v{i}[j]; }}")
            calls[f"get{i}"] = n
        elif k < 0.65:
            n = rng.randint(1, 5)
            vals = [rng.choice([0, 0, 513, 2, 256, -1]) for _ in range(n)]
            decls.append(f"short v{i}[{n}] = {{{', '.join(map(str, vals))}}};")
            getters.append(f"int get{i}(int j) {{ return v{i}[j]; }}")
            calls[f"get{i}"] = n
        elif k < 0.8:
            n = rng.randint(1, 7)
            vals = [rng.choice([0, 0, 1, 65, 127]) for _ in range(n)]
            decls.append(f"char v{i}[{n}] = {{{', '.join(map(str, vals))}}};")
            getters.append(f"int get{i}(int j) {{ return v{i}[j]; }}")
            calls[f"get{i}"] = n
        elif k < 0.92:
            c, v = rng.choice([0, 0, 3]), rng.choice(ints)
            decls.append(f"struct S{i} {{ char c; int v; }} v{i} = {{{c}, {v}}};")
            getters.append(f"int get{i}c(void) {{ return v{i}.c; }} int get{i}v(void) {{ return v{i}.v; }}")
            calls[f"get{i}c"] = None
            calls[f"get{i}v"] = None
        else:
            decls.append(f"double v{i} = {rng.choice(['1.0', '0.0', '2.5', '-0.5'])};")
    return "\n".join(decls + getters) + "\n", calls


def dataseg_check(ctx, n):
    """second sliver: the emitted data segments = the IR's initial state of the globals (property on the real
    output, Model.DataSeg correspondence, and execution of loads on ppci's wasm runtime vs ir_to_python)"""
    from ppci import api
    from ppci.wasm import instantiate
    from ppci.lang.python import ir_to_python
    batch = ([], [], [])

    def both_sides(m, wm):
        inst = instantiate(wm, target="python")
        f = io.StringIO()
        ir_to_python([m], f)
        ns = {}
        exec(f.getvalue(), ns)
        return inst, ns

    def call(fn, *a):
        try:
            with time_limit(5):
                return fn(*a)
        except Exception as e:  # noqa
            return "exc:" + type(e).__name__

    # (a) generated IR modules: every byte of every global is loaded by rd<i>(j)
    for k in range(n):
        m, vs = ir_data_module(ctx.rng)
        globs = module_globals(m)
        case = {"origin": "ir-data", "vars": [(a, d.hex()) for a, d in vs]}
        try:
            comp, wm = wasm_compile(m)
        except Exception as e:  # noqa
            ctx.count("dataseg_refusal_" + type(e).__name__)
            continue
        data_property(ctx, "ir-data", globs, comp, wm, case, batch)
        if k < (60 if ctx.thorough else 12):
            try:
                inst, ns = both_sides(m, wm)
            except Exception as e:  # noqa
                ctx.count("dataseg_exec_setup_error_" + type(e).__name__)
                continue
            for i, (amount, data) in enumerate(vs):
                for j in range(amount):
                    want = data[j] if j < len(data) else 0
                    r_w = call(getattr(inst.exports, f"rd{i}"), j)
                    r_ir = call(ns[f"rd{i}"], j)
                    ctx.count("eval_dataseg_load")
                    if len(data) not in (0, amount):
                        # ir_to_python packs a short initial value without padding it to `amount`: outside the
                        # reference's domain (the wasm side is still compared with zero fill)
                        ctx.count("dataseg_reference_short_initialiser_skipped")
                    elif r_ir != want:
                        ctx.disagree("ir_to_python load of a global's initial byte vs the IR initial value",
                                     dict(case, **{"global": i, "byte": j}), r_ir, want)
                    if r_w != want:
                        ctx.fail("dataseg:load-differs",
                                 f"rd{i}({j}) (u8 load of byte {j} of a {amount}-byte global initialised with {data.hex() or 'nothing'}) "
                                 f"returns {r_w} on ppci's wasm runtime, the IR initial byte is {want} (ir_to_python: {r_ir})",
                                 dict(case, **{"global": i, "byte": j}))
                        break
    # (b) C sources with int / array / struct / string / double initialisers, -O0 and -O2
    srcs = list(C_DATA_CORPUS) + [gen_c_data(ctx.rng) for _ in range(40 if ctx.thorough else 6)]
    for src, calls in srcs:
        for opt in (0, 2):
            try:
                with contextlib.redirect_stdout(io.StringIO()):
                    m = api.c_to_ir(io.StringIO(src), "arm")
                    if opt:
                        api.optimize(m, level=opt)
                globs = module_globals(m)
                if globs is None:
                    ctx.count("dataseg_c_relocated_initialiser")
                    continue
                comp, wm = wasm_compile(m)
            except Exception as e:  # noqa
                ctx.count("dataseg_c_refusal_" + type(e).__name__)
                continue
            case = {"origin": f"c-data:O{opt}", "source": src}
            data_property(ctx, f"c-data:O{opt}", globs, comp, wm, case, batch)
            try:
                inst, ns = both_sides(m, wm)
            except Exception as e:  # noqa
                ctx.count("dataseg_exec_setup_error_" + type(e).__name__)
                continue
            for name, cnt in calls.items():
                for args in ([()] if cnt is None else [(j,) for j in range(cnt)]):
                    r_ir = call(ns[name], *args)
                    r_w = call(getattr(inst.exports, name), *args)
                    ctx.count("eval_dataseg_load")
                    if isinstance(r_ir, str):
                        ctx.count("dataseg_reference_" + r_ir)
                        continue
                    if r_w != r_ir:
                        ctx.fail("dataseg:load-differs",
                                 f"{name}{args} returns {r_w} on ppci's wasm runtime but {r_ir} under ir_to_python (read of an "
                                 f"initialised global before any store)", dict(case, **{"call": name, "args": list(args)}))
                        break
    reqs, impls, cases = batch

    def finish(out):
        for rq, i, o, cs in zip(reqs, impls, out, cases):
            if i != o:
                ctx.disagree("DataSeg model", {"request": rq, **cs}, i, o)
        if reqs:
            ctx.sample({"dataseg_request": reqs[1], "impl": impls[1], "model": out[1]})

    return reqs, finish


# ----------------------------------------------------------------------------------------------
# third sliver: function-table slots
# ----------------------------------------------------------------------------------------------
FT_CORPUS = [
    # two functions take addresses in different orders; a later function calls through a pointer installed earlier
    """int inc(int x) { return x + 1; } int dbl(int x) { return x * 2; } int neg(int x) { return 0 - x; } int sqr(int x) { return x * x; }
int add2(int x, int y) { return x + y + 2; }
int (*handler)(int); int calls = 0;
int apply(int (*f)(int), int v) { calls = calls + 1; return f(v); }
int u0(int k, int v) { int (*f)(int); if (k == 0) f = inc; else if (k == 1) f = dbl; else f = neg; return apply(f, v); }
int u1(int k, int v) { return apply(neg, apply(neg, v) + 1); }
int u2(int k, int v) { return apply(sqr, v) + apply(inc, v); }
int u3(int k, int v) { if (k) handler = sqr; else handler = dbl; return 0; }
int u4(int k, int v) { return handler(v); }
int u5(int k, int v) { int (*g)(int, int); g = add2; return g(v, k); }
int u6(int k, int v) { return calls; }
""",
]


def gen_c_funcptr(rng):
    nt = rng.randint(3, 6)
    lines = [f"int t{i}(int x) {{ return x * {i + 2} + {rng.randint(1, 9)}; }}" for i in range(nt)]
    lines += [f"int w{i}(int x, int y) {{ return x * {i + 3} - y + {rng.randint(1, 9)}; }}" for i in range(2)]
    lines.append("int (*handler)(int); int (*tab[3])(int); struct H { int tag; int (*fn)(int); } hs;")
    lines.append("int apply(int (*f)(int), int v) { return f(v); }")
    nu = rng.randint(3, 7)
    installed = False
    for u in range(nu):
        a, b, c = (rng.randrange(nt) for _ in range(3))
        k = rng.random()
        if u == 0 or (k < 0.2):
            body = f"if (k) handler = t{a}; else handler = t{b}; return 0;"
            installed = True
        elif k < 0.4:
            body = f"int (*f)(int); if (k == 0) f = t{a}; else f = t{b}; return f(v);"
        elif k < 0.55:
            body = f"return apply(t{a}, v) + apply(t{b}, v + 1);"
        elif k < 0.68 and installed:
            body = "return handler(v);"
        elif k < 0.8:
            body = f"tab[0] = t{a}; tab[1] = t{b}; tab[2] = t{c}; if (k < 0 || k > 2) k = 0; return tab[k](v);"
        elif k < 0.9:
            body = f"hs.fn = t{a}; hs.tag = k; return hs.fn(v) + hs.tag;"
        else:
            body = f"int (*g)(int, int); g = w{rng.randrange(2)}; return g(v, k);"
        lines.append(f"int u{u}(int k, int v) {{ {body} }}")
    return "\n".join(lines) + "\n"


def ir_funcptr_module(rng):
    """IR module built directly: targets t<i>(x) = x + c_i; users u<j>(v) store the address of one or two targets
    into a global pointer and call through it"""
    from ppci import ir
    m = ir.Module("m")
    gp = ir.Variable("gp", ir.Binding.GLOBAL, 4, 4)
    m.add_variable(gp)
    nt = rng.randint(2, 5)
    targets = []
    for i in range(nt):
        f = ir.Function(f"t{i}", ir.Binding.GLOBAL, ir.i32)
        m.add_function(f)
        x = ir.Parameter("x", ir.i32)
        f.add_parameter(x)
        b = ir.Block("entry"); f.add_block(b); f.entry = b
        c = ir.Const(100 * (i + 1), "c", ir.i32); b.add_instruction(c)
        r = ir.Binop(x, "+", c, "r", ir.i32); b.add_instruction(r)
        b.add_instruction(ir.Return(r))
        targets.append(f)
    want = {}
    for j in range(rng.randint(2, 5)):
        f = ir.Function(f"u{j}", ir.Binding.GLOBAL, ir.i32)
        m.add_function(f)
        v = ir.Parameter("v", ir.i32)
        f.add_parameter(v)
        b = ir.Block("entry"); f.add_block(b); f.entry = b
        picks = [rng.randrange(nt) for _ in range(rng.randint(1, 2))]
        for t in picks:
            b.add_instruction(ir.Store(targets[t], gp))
        ld = ir.Load(gp, "p", ir.ptr); b.add_instruction(ld)
        call = ir.FunctionCall(ld, [v], "res", ir.i32); b.add_instruction(call)
        b.add_instruction(ir.Return(call))
        want[f"u{j}"] = 100 * (picks[-1] + 1)
    return m, want


def functable_capture(m):
    """compile with the real compiler; return (comp, wasm, uses) where uses = [(in function, target, emitted slot)]"""
    from ppci.wasm import ppci2wasm
    comp = ppci2wasm.IrToWasmCompiler()
    comp.prepare_compilation()
    fnames = {f.name for f in m.functions}
    uses, cur = [], [None]
    orig_tree, orig_fn = comp.do_tree, comp.do_function

    def do_tree(tree):
        orig_tree(tree)
        if tree.name == "LABEL" and tree.value in fnames:
            last = comp.instructions[-1]
            uses.append((cur[0], tree.value, last.args[0] if last.opcode == "i32.const" else None))

    def do_function(f, wf):
        cur[0] = f.name
        orig_fn(f, wf)

    comp.do_tree, comp.do_function = do_tree, do_function
    with contextlib.redirect_stdout(io.StringIO()):
        comp.compile(m)
        wm = comp.create_wasm_module()
    return comp, wm, uses


def functable_property(ctx, origin, m, comp, wm, uses, case, batch):
    """THE PROPERTY ON THE REAL OUTPUT: the element segment holds, at the slot emitted for every function-address
    use, the function whose address is taken; the table is large enough.  Queues the Model.FuncTable comparison."""
    from ppci.wasm import components
    ctx.count("eval_functable")
    ctx.count("programs")
    by_index = {ref.index: name for name, ref in comp.function_refs.items()}
    table = {}
    for d in wm.definitions:
        if isinstance(d, components.Elem):
            if d.mode is None or d.mode[1][0].opcode != "i32.const":
                ctx.fail("functable:unexpected-segment-form", "element segment is not active with an i32.const offset", case)
                continue
            off = d.mode[1][0].args[0]
            for k, ref in enumerate(d.refs):
                name = by_index.get(ref.index, (ref.name or "?").lstrip("$")) if ref.index is not None else (ref.name or "?").lstrip("$")
                table[off + k] = name
    sizes = [d.min for d in wm.definitions if isinstance(d, components.Table)]
    if uses:
        ctx.nontrivial(("functable", tuple((u[0], u[1]) for u in uses)))
    bad = False
    for (infn, target, slot) in uses:
        ctx.count("eval_functable_use")
        if slot is None:
            ctx.fail("functable:no-slot-emitted", f"{origin}: no i32.const after LABEL {target} in {infn}", case)
        elif table.get(slot) != target:
            bad = True
            ctx.fail("functable:slot-aliases-other-function",
                     f"{origin}: function {infn} takes the address of {target} and emits slot {slot}, but the element segment "
                     f"holds {table.get(slot)!r} there (table {[table[k] for k in sorted(table)]})",
                     dict(case, **{"uses": uses, "table": [table[k] for k in sorted(table)]}))
            break
        elif sizes and slot >= sizes[0]:
            ctx.fail("functable:slot-outside-table", f"slot {slot} >= table size {sizes[0]}", case)
    # model: functions numbered by first appearance in the module's function list
    ids = {f.name: i for i, f in enumerate(m.functions)}
    groups, order = [], []
    for (infn, target, slot) in uses:
        if not order or order[-1] != infn:
            order.append(infn)
            groups.append([])
        groups[-1].append(ids[target])
    reqs, impls, cases = batch
    reqs.append("ft " + " / ".join(" ".join(map(str, g)) for g in groups))
    impls.append("ok table=[" + ",".join(str(ids.get(table[k], -1)) for k in sorted(table)) + "] slots=["
                 + ",".join(str(u[2]) for u in uses) + "]")
    cases.append(case)
    return bad


def functable_check(ctx, n):
    from ppci import api
    from ppci.common import CompilerError
    from ppci.wasm import instantiate
    from ppci.lang.python import ir_to_python
    batch = ([], [], [])

    def call(fn, *a):
        try:
            with time_limit(5):
                return fn(*a)
        except Exception as e:  # noqa
            return "exc:" + type(e).__name__

    def sides(m, wm):
        inst = instantiate(wm, target="python")
        f = io.StringIO()
        ir_to_python([m], f)
        ns = {}
        exec(f.getvalue(), ns)
        return inst, ns

    # (a) C sources, -O0 and -O2
    srcs = list(FT_CORPUS) + [gen_c_funcptr(ctx.rng) for _ in range(n)]
    for src in srcs:
        for opt in (0, 2):
            try:
                with contextlib.redirect_stdout(io.StringIO()):
                    m = api.c_to_ir(io.StringIO(src), "arm")
                    if opt:
                        api.optimize(m, level=opt)
            except CompilerError:
                ctx.count("functable_c_frontend_rejects")
                continue
            except Exception as e:  # noqa
                ctx.count("optimizer_crash_" + type(e).__name__)
                continue
            case = {"origin": f"c-funcptr:O{opt}", "source": src}
            try:
                comp, wm, uses = functable_capture(m)
            except Exception as e:  # noqa
                ctx.count("functable_refusal_" + type(e).__name__)
                continue
            functable_property(ctx, case["origin"], m, comp, wm, uses, case, batch)
            try:
                inst, ns = sides(m, wm)
            except Exception as e:  # noqa
                ctx.count("functable_exec_setup_error_" + type(e).__name__)
                continue
            users = sorted(f.name for f in m.functions if f.name.startswith("u"))
            script = [(u, k, ctx.rng.randint(-50, 50)) for u in users for k in (1, 0)]
            script += [(ctx.rng.choice(users), ctx.rng.randint(0, 2), ctx.rng.randint(-50, 50)) for _ in range(12)]
            for (u, k, v) in script:
                r_ir = call(ns[u], k, v)
                r_w = call(getattr(inst.exports, u), k, v)
                ctx.count("eval_functable_call")
                if isinstance(r_ir, str):
                    ctx.count("functable_reference_" + r_ir)
                    break
                if r_w != r_ir:
                    ctx.fail("functable:call-differs",
                             f"{u}({k},{v}) returns {r_w} on ppci's wasm runtime but {r_ir} under ir_to_python "
                             f"(call through a function pointer)", dict(case, **{"call": [u, k, v]}))
                    break
    # (b) IR modules built directly
    for _ in range(n):
        m, want = ir_funcptr_module(ctx.rng)
        case = {"origin": "ir-funcptr", "users": want}
        try:
            comp, wm, uses = functable_capture(m)
        except Exception as e:  # noqa
            ctx.count("functable_refusal_" + type(e).__name__)
            continue
        functable_property(ctx, "ir-funcptr", m, comp, wm, uses, case, batch)
        try:
            inst, ns = sides(m, wm)
        except Exception as e:  # noqa
            ctx.count("functable_exec_setup_error_" + type(e).__name__)
            continue
        for u, add in want.items():
            v = ctx.rng.randint(-50, 50)
            r_w = call(getattr(inst.exports, u), v)
            r_ir = call(ns[u], v)
            ctx.count("eval_functable_call")
            if not isinstance(r_ir, str) and r_ir != v + add:
                ctx.disagree("ir_to_python call through a stored function pointer vs the IR meaning", dict(case, call=[u, v]), r_ir, v + add)
            if r_w != v + add:
                ctx.fail("functable:call-differs", f"{u}({v}) returns {r_w} on ppci's wasm runtime, the IR calls a target "
                                                   f"returning {v + add} (ir_to_python: {r_ir})", dict(case, call=[u, v]))
                break
    reqs, impls, cases = batch

    def finish(out):
        for rq, i, o, cs in zip(reqs, impls, out, cases):
            if i != o:
                ctx.disagree("FuncTable model", {"request": rq, **cs}, i, o)
        if reqs:
            ctx.sample({"functable_request": reqs[0], "impl": impls[0], "model": out[0]})

    return reqs, finish


# ----------------------------------------------------------------------------------------------
# expression-level differential (failing-input search only, no theorem): arithmetic of the emitted code
# ----------------------------------------------------------------------------------------------
INT_TYPES = ["i8", "i16", "i32", "i64", "u8", "u16", "u32", "u64"]
BINOPS = ["+", "-", "*", "/", "%", "<<", ">>", "&", "|", "^"]
CONDS = ["==", "!=", "<", ">", "<=", ">="]


def ty_bits(t):
    return int(t[1:])


def ty_signed(t):
    return t[0] == "i"


def ty_range(t):
    b = ty_bits(t)
    return (-(1 << (b - 1)), (1 << (b - 1)) - 1) if ty_signed(t) else (0, (1 << b) - 1)


def ty_wrap(t, x):
    b = ty_bits(t)
    x %= 1 << b
    return x - (1 << b) if ty_signed(t) and x >> (b - 1) else x


def spec_binop(t, op, a, b):
    """python transcription of Spec.IRArith.binop (wrap-around + - *, truncating / %, shifts defined for
    0 <= count < bits, arithmetic >> for signed); None = undefined.  Cross-checked against the Lean
    specification through the driver on every run (sample + every reported failure)."""
    B = ty_bits(t)
    if op == "+":
        return ty_wrap(t, a + b)
    if op == "-":
        return ty_wrap(t, a - b)
    if op == "*":
        return ty_wrap(t, a * b)
    if op in "/%":
        if b == 0 or (ty_signed(t) and a == -(1 << (B - 1)) and b == -1):
            return None
        q = abs(a) // abs(b)
        q = q if (a < 0) == (b < 0) else -q
        return q if op == "/" else a - q * b
    if op in ("<<", ">>"):
        if not 0 <= b < B:
            return None
        return ty_wrap(t, a << b) if op == "<<" else (a >> b)
    m = (1 << B) - 1
    return ty_wrap(t, {"&": (a & m) & (b & m), "|": (a & m) | (b & m), "^": (a & m) ^ (b & m)}[op])


def const_shape(t, k):
    lo, hi = ty_range(t)
    if k == 0:
        return "zero"
    if k == 1:
        return "one"
    if k == -1:
        return "minus1"
    if k in (lo, hi):
        return "minmax"
    if k > 1 and k & (k - 1) == 0:
        return "pow2"
    if k < -1 and (-k) & (-k - 1) == 0:
        return "negpow2"
    if k > 2 and ((k + 1) & k == 0 or (k - 1) & (k - 2) == 0):
        return "pow2pm1"
    return "other"


def boundary_consts(t, thorough):
    lo, hi = ty_range(t)
    B = ty_bits(t)
    ks = [0, 1, -1, 2, -2, 3, 4, 8, 7, 9, hi, lo, B - 1, 1 << (B - 2), (1 << (B - 2)) - 1, -(1 << (B - 2)), 5, -8]
    if thorough:
        ks += [16, 15, 17, -4, -3, 1 << (B // 2), (1 << (B // 2)) + 1, hi - 1, lo + 1, 6, 10, 100, B - 2, B // 2]
    out = []
    for k in ks:
        if lo <= k <= hi and k not in out:
            out.append(k)
    return out


def boundary_args(t, rng, n_random):
    lo, hi = ty_range(t)
    B = ty_bits(t)
    vs = [0, 1, 2, 3, 4, 5, 6, 7, 8, 9, 15, 16, 17, -1, -2, -3, -4, -5, -6, -7, -8, -9, -15, -16, -17, 100, -100,
          hi, hi - 1, lo, lo + 1, 1 << (B - 2), -(1 << (B - 2)), (1 << (B - 2)) + 1, -(1 << (B - 2)) - 1, B - 1, B]
    vs += [rng.randint(lo, hi) for _ in range(n_random)] + [rng.randint(-70, 70) for _ in range(n_random)]
    out = []
    for v in vs:
        if lo <= v <= hi and v not in out:
            out.append(v)
    return out


def wasm_arg(t, v):
    """the python wasm runtime takes i64 parameters as signed 64-bit integers"""
    return v - (1 << 64) if t == "u64" and v >= 1 << 63 else v


def ir_type(t):
    from ppci import ir
    return getattr(ir, t)


def expr_module(kind, t, op, shapes, t2=None):
    """one IR module with a function f<i> per shape.
    kind 'bin':  f(a,b) = a op b | f(a) = a op K | f(a) = K op a      (result type t)
    kind 'cmp':  the same with `cjmp a op b ? return 1 : return 0`     (result i32)
    kind 'un':   f(a) = op a;   kind 'cast': f(a: t) = cast a to t2"""
    from ppci import ir
    ty = ir_type(t)
    m = ir.Module("m")
    for i, (shape, K) in enumerate(shapes):
        rty = ir.i32 if kind == "cmp" else ir_type(t2) if kind == "cast" else ty
        f = ir.Function(f"f{i}", ir.Binding.GLOBAL, rty)
        m.add_function(f)
        b = ir.Block("entry")
        f.add_block(b)
        f.entry = b
        a = ir.Parameter("a", ty)
        f.add_parameter(a)
        if kind == "un":
            r = ir.Unop(op, a, "r", ty)
            b.add_instruction(r)
            b.add_instruction(ir.Return(r))
            continue
        if kind == "cast":
            r = ir.Cast(a, "r", rty)
            b.add_instruction(r)
            b.add_instruction(ir.Return(r))
            continue
        if shape == "vv":
            bb = ir.Parameter("b", ty)
            f.add_parameter(bb)
            x, y = a, bb
        else:
            k = ir.Const(K, "k", ty)
            b.add_instruction(k)
            x, y = (a, k) if shape == "vk" else (k, a)
        if kind == "bin":
            r = ir.Binop(x, op, y, "r", ty)
            b.add_instruction(r)
            b.add_instruction(ir.Return(r))
        else:
            yes, no = ir.Block("yes"), ir.Block("no")
            f.add_block(yes)
            f.add_block(no)
            b.add_instruction(ir.CJump(x, op, y, yes, no))
            one = ir.Const(1, "one", ir.i32); yes.add_instruction(one); yes.add_instruction(ir.Return(one))
            zero = ir.Const(0, "zero", ir.i32); no.add_instruction(zero); no.add_instruction(ir.Return(zero))
    return m


def both_sides(m):
    """(wasm instance on ppci's python runtime, ir_to_python namespace) or raises"""
    from ppci.wasm import ir_to_wasm, instantiate
    from ppci.lang.python import ir_to_python
    with contextlib.redirect_stdout(io.StringIO()):
        wm = ir_to_wasm(m)
    inst = instantiate(wm, target="python")
    f = io.StringIO()
    ir_to_python([m], f)
    ns = {}
    exec(f.getvalue(), ns)
    return inst, ns


def guarded(fn, *a):
    try:
        with time_limit(5):
            return fn(*a)
    except Exception as e:  # noqa
        return "exc:" + type(e).__name__


def expr_check(ctx):
    """every binop / compare / unop / cast x integer type, shapes a op b, a op K, K op a, on boundary + random
    arguments: ppci's wasm runtime vs Spec.IRArith (defined operations only).  Results of types narrower than
    the wasm type holding them (i8..u16 in i32, u32 in i64) are compared modulo 2^bits: the upper bits of such a
    value are not specified by the translation."""
    nrand = 12 if ctx.thorough else 3
    lean_reqs, lean_want = [], []
    fails = []

    def sample_lean(t, op, x, y, want, always=False):
        if always or len(lean_reqs) < 400 or ctx.rng.random() < 0.002:
            lean_reqs.append(f"ar {t} {op} {x} {y}")
            lean_want.append("ok undef" if want is None else f"ok {want}")

    def run_module(kind, t, op, shapes, t2=None):
        m = expr_module(kind, t, op, shapes, t2)
        try:
            inst, ns = both_sides(m)
        except Exception as e:  # noqa  (refusal of the whole module, e.g. i64 bit operations: NotImplementedError)
            ctx.count(f"expr_refusal_{type(e).__name__}")
            return
        args = boundary_args(t, ctx.rng, nrand)
        rt = "i32" if kind == "cmp" else t2 if kind == "cast" else t
        mod = 1 << ty_bits(rt)
        for i, (shape, K) in enumerate(shapes):
            cshape = shape if shape == "vv" or K is None else f"{shape}-{const_shape(t, K)}"
            argl = [(a, b) for a in args for b in args[:: (1 if ctx.thorough else 3)]] if shape == "vv" else [(a,) for a in args]
            for av in argl:
                if shape == "vv":
                    x, y = av
                elif shape == "vk":
                    x, y = av[0], K
                elif shape == "kv":
                    x, y = K, av[0]
                else:
                    x, y = av[0], None
                if kind == "bin":
                    want = spec_binop(t, op, x, y)
                elif kind == "cmp":
                    want = int({"==": x == y, "!=": x != y, "<": x < y, ">": x > y, "<=": x <= y, ">=": x >= y}[op])
                elif kind == "un":
                    want = ty_wrap(t, -x if op == "-" else ~x)
                else:
                    want = ty_wrap(t2, x)
                if want is None:
                    continue          # undefined in the IR (division by zero, INT_MIN / -1, shift count out of range)
                ctx.count("eval_expr")
                r_w = guarded(getattr(inst.exports, f"f{i}"), *[wasm_arg(t, v) for v in av])
                if kind == "bin":
                    sample_lean(t, op, x, y, want)
                ok = isinstance(r_w, int) and (r_w - want) % mod == 0
                if not ok:
                    r_ir = guarded(ns[f"f{i}"], *av)
                    label = op if kind != "cast" else f"cast-to-{t2}"
                    fails.append((f"expr:{label}:{t}:{cshape}:wrong-value", kind, t, op, shape, K, av, r_w, want, r_ir, t2))
                    break
            else:
                # reference side: ir_to_python on a few vectors (its faults are C24's, counted only)
                for av in argl[:3]:
                    pass
        ctx.nontrivial(("expr", kind, t, op, t2))

    for t in INT_TYPES:
        ks = boundary_consts(t, ctx.thorough)
        for op in BINOPS:
            shapes = [("vv", None)] + [("vk", k) for k in ks] + [("kv", k) for k in ks]
            run_module("bin", t, op, shapes)
        for op in CONDS:
            shapes = [("vv", None)] + [("vk", k) for k in ks[:8]] + [("kv", k) for k in ks[:8]]
            run_module("cmp", t, op, shapes)
        for op in ("-", "~"):
            run_module("un", t, op, [("v", None)])
        for t2 in INT_TYPES:
            if t2 != t:
                run_module("cast", t, None, [("v", None)], t2)
    # every failure is re-evaluated with the Lean specification before it is reported
    for f in fails:
        if f[1] == "bin":
            (_sig, _k, t, op, shape, K, av, _rw, want, _ri, _t2) = f
            x, y = (av if shape == "vv" else (av[0], K) if shape == "vk" else (K, av[0]))
            sample_lean(t, op, x, y, want, always=True)
    if lean_reqs:
        out = driver_budgeted(ctx, lean_reqs)
        for rq, w, o in zip(lean_reqs, lean_want, out):
            ctx.count("eval_expr_spec_crosscheck")
            if w != o:
                ctx.disagree("python transcription of Spec.IRArith.binop vs the Lean specification", rq, w, o)
    for (sig, kind, t, op, shape, K, av, r_w, want, r_ir, t2) in fails:
        ctx.fail(sig, f"{kind} {op or ''} on {t}{' -> ' + t2 if t2 else ''}, shape {shape}"
                      f"{'' if K is None else ' with constant ' + str(K)}: f{tuple(av)} returns {r_w} on ppci's wasm runtime, "
                      f"the IR value (Spec.IRArith) is {want} (ir_to_python: {r_ir})",
                 {"origin": "expr", "kind": kind, "type": t, "op": op, "shape": shape, "const": K, "args": list(av), "to": t2})
    # floats, executed only: wasm runtime vs ir_to_python
    from ppci import ir
    import math
    for t in ("f32", "f64"):
        ty = getattr(ir, t)
        for op in ("+", "-", "*", "/"):
            m = ir.Module("m")
            f = ir.Function("f0", ir.Binding.GLOBAL, ty)
            m.add_function(f)
            b = ir.Block("entry"); f.add_block(b); f.entry = b
            a = ir.Parameter("a", ty); f.add_parameter(a)
            bb = ir.Parameter("b", ty); f.add_parameter(bb)
            r = ir.Binop(a, op, bb, "r", ty); b.add_instruction(r); b.add_instruction(ir.Return(r))
            try:
                inst, ns = both_sides(m)
            except Exception as e:  # noqa
                ctx.count(f"expr_refusal_{type(e).__name__}")
                continue
            for av in [(1.5, 2.25), (-7.0, 2.0), (0.5, 0.25), (1e10, 1e-10), (-0.0, 3.0), (5.0, -0.5)]:
                r_w, r_ir = guarded(inst.exports.f0, *av), guarded(ns["f0"], *av)
                ctx.count("eval_expr_float")
                same = r_w == r_ir or (isinstance(r_w, float) and isinstance(r_ir, float) and (
                    (math.isnan(r_w) and math.isnan(r_ir)) or (t == "f32" and abs(r_w - r_ir) <= 1e-6 * max(1.0, abs(r_ir)))))
                if not same and not isinstance(r_ir, str):
                    ctx.fail(f"expr:{op}:{t}:vv:wrong-value", f"{t} {op}: f{av} = {r_w} on ppci's wasm runtime, {r_ir} under ir_to_python",
                             {"origin": "expr", "type": t, "op": op, "args": list(av)})
                    break
    # small C functions mixing the operators (int / unsigned only: defined behaviour by construction)
    from ppci import api
    for n in range(40 if ctx.thorough else 8):
        src, argsets = gen_c_expr(ctx.rng)
        try:
            with contextlib.redirect_stdout(io.StringIO()):
                m = api.c_to_ir(io.StringIO(src), "arm")
            inst, ns = both_sides(m)
        except Exception as e:  # noqa
            ctx.count(f"expr_c_refusal_{type(e).__name__}")
            continue
        for av in argsets:
            r_ir = guarded(ns["f"], *av)
            r_w = guarded(inst.exports.f, *av)
            ctx.count("eval_expr_c")
            if isinstance(r_ir, str):
                ctx.count("expr_c_reference_" + r_ir)
                break
            if not (isinstance(r_w, int) and (r_w - r_ir) % (1 << 32) == 0):
                ctx.fail("expr:c-mix:int:wrong-value", f"f{tuple(av)} returns {r_w} on ppci's wasm runtime but {r_ir} under ir_to_python",
                         {"origin": "expr-c", "source": src, "args": list(av)})
                break


def gen_c_expr(rng):
    """int f(int a, int b) mixing + - * / % << >> & | ^ and comparisons; divisors and shift counts are non-zero
    constants in range, so every operation is defined (signed overflow aside: operands are kept small)"""
    def e(d):
        k = rng.random()
        if d >= 3 or k < 0.25:
            return rng.choice(["a", "b", str(rng.randint(0, 9)), "(0 - a)", "(0 - b)"])
        op = rng.choice(["+", "-", "*", "/", "%", ">>", "<<", "&", "|", "^", "<", "=="])
        if op in "/%":
            return f"({e(d + 1)} {op} {rng.choice([2, 3, 4, 5, 7, 8, 16, -2, -3, -4])})"
        if op in (">>", "<<"):
            return f"(({e(d + 1)} & 1023) {op} {rng.randint(0, 6)})" if op == "<<" else f"({e(d + 1)} >> {rng.randint(0, 6)})"
        if op == "*":
            return f"(({e(d + 1)} % 1000) * ({e(d + 1)} % 1000))"
        return f"({e(d + 1)} {op} {e(d + 1)})"
    src = f"int f(int a, int b) {{ return {e(0)}; }}\n"
    args = [(a, b) for a in (-9, -7, -5, -1, 0, 1, 6, 100) for b in (-8, -3, 0, 2, 7)]
    return src, args


def check(ctx):
    import logging
    import sys
    sys.setrecursionlimit(max(sys.getrecursionlimit(), 1000))
    if not logging.getLogger().handlers:
        logging.getLogger().addHandler(logging.NullHandler())  # ppci warnings would go to stderr otherwise
    import time
    phases, t0 = {}, [time.time()]

    def lap(name):
        phases[name] = round(time.time() - t0[0], 1)
        t0[0] = time.time()
    ctx.extra_cov["phase_s"] = phases
    cases = []
    # 1. corpus (boundary cases and the inputs of the open findings) always first
    for name, cfg in CORPUS:
        cases.append(capture_cfg("corpus:" + name, canonize(cfg)))
    # 2. exhaustive small CFGs
    nmax = 4 if ctx.thorough else 3
    for n in range(1, nmax + 1):
        for cfg in canon_cfgs(n):
            cases.append(capture_cfg(f"exhaustive:{n}", cfg))
    ctx.extra_cov["exhaustive"] = True
    ctx.extra_cov["exhaustive_domain"] = f"all canonical CFGs with <= {nmax} blocks, out-degree <= 2"
    if not ctx.thorough:
        four = list(canon_cfgs(4))
        for cfg in ctx.rng.sample(four, 150):
            cases.append(capture_cfg("sample:4", cfg))
    lap("exhaustive")
    # 3a. small structured programs: the fragment the relooper handles (class S, <= SMALL blocks) is where a
    #     regression shows up under a signature that is not a known finding
    seen = set()
    for _ in range(2000 if ctx.thorough else 300):
        cfg = gen_structured(ctx.rng, budget=ctx.rng.randint(1, 3))
        for c in (cfg, thread_jumps(cfg)):
            if len(c) <= SMALL and tuple(c) not in seen and classify(c) == "S":
                seen.add(tuple(c))
                cases.append(capture_cfg("small-structured", c))
    # 3b. structured programs (as laid out by a C compiler, and after jump threading)
    for _ in range(300 if ctx.thorough else 40):
        cfg = gen_structured(ctx.rng)
        cases.append(capture_cfg("structured", cfg))
        t = thread_jumps(cfg)
        if t != cfg:
            cases.append(capture_cfg("structured-threaded", t))
    lap("structured")
    # 4. random larger CFGs (reducible and irreducible)
    for _ in range(1000 if ctx.thorough else 100):
        cases.append(capture_cfg("random", gen_random(ctx.rng)))
    lap("random")
    # 5. C functions through the front-end, with and without optimisation
    cases += c_cases(ctx, 120 if ctx.thorough else 20)
    lap("c")
    # 7. data segments (second sliver); its driver requests ride along with the validation batch
    ds = dataseg_check(ctx, 200 if ctx.thorough else 25)
    lap("dataseg")
    # 9. expression-level differential (failing-input search only)
    expr_check(ctx)
    lap("expr")
    # 8. function-table slots (third sliver)
    ft = functable_check(ctx, 60 if ctx.thorough else 8)
    lap("functable")
    nds = len(ds[0])

    def finish_both(out):
        ds[1](out[:nds])
        ft[1](out[nds:])
    handle_cases(ctx, cases, extra=(ds[0] + ft[0], finish_both))
    lap("validate+search+replay")
    c_exec(ctx, cases, 120 if ctx.thorough else 15)
    lap("c_exec")
    # 6. execution-level sanity of the skeleton semantics on accepted outputs
    exec_sanity(ctx, cases, 200 if ctx.thorough else 30)
    lap("exec_sanity")
    refusals = {k: v for k, v in ctx.counts.items() if k.startswith("refusal_")}
    internal = sum(v for k, v in refusals.items() if "internal:" in k)
    if internal:
        ctx.note(f"{internal} CFGs were refused with an internal exception (KeyError/RecursionError/AssertionError/TypeError/…) "
                 f"instead of a clear diagnostic; a refusal is allowed by the property, the missing diagnostic is noted only")


def replay(ctx, rp):
    case = rp.get("case") or {}
    toks = case.get("cfg")
    if toks:
        cfg = []
        for w in toks.split()[1:]:
            cfg.append(("r",) if w == "r" else ("j", int(w[1:])) if w[0] == "j" else ("c",) + tuple(int(x) for x in w[1:].split(":")))
        handle_cases(ctx, [capture_cfg("replay", cfg)])
    else:
        check(ctx)
