"""Shared by harness/c08.py and harness/c07.py: building real ppci RISC-V instruction instances
for the classes modelled in lean/PpciVerif/Model/RVEnc.lean, tokenising what they print, and the
operand generators (valid = architecturally in range, the domain of the theorems)."""
import re
import subprocess

CLASSES = None


def modules():
    from ppci.arch.riscv import instructions as I, rvc_instructions as C, registers as R
    return I, C, R


# model class name -> (module tag, python attribute)
RVC_NAMES = {"CSub", "CXor", "COr", "CAnd", "CSlli", "CSrli", "CSrai", "CAndi", "CAddi", "CNop", "CEbreak", "CMovr",
             "CBl", "CJal", "CB", "CJ", "CJr", "CJalr", "CBeqz", "CBnez", "CLw", "CSw", "CLwsp", "CAddi4spn",
             "CAddi16sp", "CSwsp", "CLi", "CLui"}


def pyclass(name):
    I, C, R = modules()
    return getattr(C if name in RVC_NAMES else I, name)


_csr_cache = {}


def csr_reg(n):
    I, C, R = modules()
    for r in R.RiscvCsrRegister.registers:
        if r.num == n:
            return r
    if n not in _csr_cache:
        _csr_cache[n] = R.RiscvCsrRegister("csr%d" % n, num=n)
    return _csr_cache[n]


def csr_names():
    I, C, R = modules()
    d = {r.name: r.num for r in R.RiscvCsrRegister.registers}
    return d


def make(name, a, b, c, imm):
    """instantiate class `name` with register numbers a,b,c (in syntax order) and integer imm"""
    I, C, R = modules()
    cls = pyclass(name)
    regs = [a, b, c]
    k = 0
    args = []
    for fa in cls.syntax.formal_arguments:
        t = fa._cls
        if t is int:
            args.append(imm)
        elif t is str:
            args.append("lbl")
        elif issubclass(t, R.RiscvCsrRegister):
            args.append(csr_reg(regs[k])); k += 1
        elif issubclass(t, R.RiscvRegister):
            args.append(R.get_register(regs[k])); k += 1
        else:
            raise NotImplementedError(f"{name}: operand type {t}")
    return cls(*args)


def shape(name):
    """(number of register operands, has int, has label) in syntax order"""
    I, C, R = modules()
    cls = pyclass(name)
    nreg = hasint = haslbl = 0
    kinds = []
    for fa in cls.syntax.formal_arguments:
        t = fa._cls
        if t is int:
            hasint = 1; kinds.append("i")
        elif t is str:
            haslbl = 1; kinds.append("l")
        elif issubclass(t, R.RiscvCsrRegister):
            nreg += 1; kinds.append("c")
        else:
            nreg += 1; kinds.append("r")
    return nreg, hasint, haslbl, kinds


_TOK = re.compile(r"[\s,()]+")


def tokenise(text):
    """what ppci printed -> the token list of Model.RVEnc.ptoks: split at blanks, commas and
    parentheses; `%pcrel_hi(lbl)` / `%pcrel_lo(lbl)` is the label; `x<n>` a register, a decimal
    number an immediate, a CSR name its number, the label `lbl` ↦ i:0"""
    t = text.replace("%pcrel_hi(lbl)", " lbl ").replace("%pcrel_lo(lbl)", " lbl ")
    parts = [p for p in _TOK.split(t.strip()) if p]
    csrs = csr_names()
    out = ["w:" + parts[0]]
    for p in parts[1:]:
        if re.fullmatch(r"x\d+", p):
            out.append("r:" + p[1:])
        elif re.fullmatch(r"-?\d+", p):
            out.append("i:" + str(int(p)))
        elif p == "lbl":
            out.append("i:0")
        elif p in csrs:
            out.append("c:%d" % csrs[p])
        elif re.fullmatch(r"csr\d+", p):
            out.append("c:" + p[3:])
        else:
            out.append("w:" + p)
    return ",".join(out)


# ---------------------------------------------------------------------------------------------
# operand domains (mirror Model.RVEnc.valid; the driver reports valid=0/1 for every request and the
# harness cross-checks its own idea of validity against it)

REG = list(range(32))
REGP = list(range(8, 16))


def imm_values(rng, lo, hi, step=1, n_random=6, exclude=()):
    """boundary, walking-ones (±2^k, ±2^k∓1) and random multiples of `step` in [lo, hi)"""
    vals = {lo, hi - step, 0, step, -step, lo + step, hi - 2 * step}
    k = 1
    while k < max(abs(lo), abs(hi)) * 2:
        for v in (k, -k, k - 1, -k + 1, k + 1, -k - 1):
            vals.add(v - v % step)
        k *= 2
    for _ in range(n_random):
        vals.add(rng.randrange(lo, hi, step))
    return sorted(v for v in vals if lo <= v < hi and v % step == 0 and v not in exclude)


# name -> (register domains in syntax order, immediate (lo, hi, step, exclude) or None, constraint)
def domain(name):
    R3 = ([REG, REG, REG], None)
    sim12 = (-2048, 2048, 1, ())
    d = {
        "Movr": ([REG, REG], None),
        "Csrs": (["csr", REG], None), "Csrw": (["csr", REG], None),
        "Csrwi": (["csr"], (0, 32, 1, ())), "Csrsi": (["csr"], (0, 32, 1, ())), "Csrci": (["csr"], (0, 32, 1, ())),
        "Csrr": ([REG, "csr"], None),
        "Mret": ([], None), "Nop": ([], None), "Ebreak": ([], None), "B": ([], None),
        "CNop": ([], None), "CEbreak": ([], None), "CB": ([], None), "CJal": ([], None), "CJ": ([], None),
        "Blr": ([REG, REG], sim12),
        "Lui": ([REG], (0, 1 << 20, 1, ())), "Auipc": ([REG], (0, 1 << 20, 1, ())),
        "Adrl": ([REG, REG], None), "Loadlrel": ([REG, REG], None),
        "CSlli": ([REG, "=0"], (0, 32, 1, ())),
        "CSrli": ([REGP, "=0"], (0, 32, 1, ())), "CSrai": ([REGP, "=0"], (0, 32, 1, ())),
        "CAndi": ([REGP, "=0"], (-32, 32, 1, ())),
        "CAddi": ([REG, list(range(1, 32))], (-32, 32, 1, ())),
        "CMovr": ([REG, list(range(1, 32))], None),
        "CJr": ([list(range(1, 32))], None), "CJalr": ([list(range(1, 32))], None),
        "CBeqz": ([REGP], None), "CBnez": ([REGP], None),
        "CLw": ([REGP, REGP], (0, 128, 4, ())), "CSw": ([REGP, REGP], (0, 128, 4, ())),
        "CLwsp": ([list(range(1, 32))], (0, 256, 4, ())), "CSwsp": ([REG], (0, 256, 4, ())),
        "CAddi4spn": ([REGP], (0, 1024, 4, (0,))),
        "CAddi16sp": ([], (-512, 512, 16, (0,))),
        "CLi": ([REG], (-32, 32, 1, ())),
        "CLui": ([[r for r in REG if r != 2]], (-32, 32, 1, (0,))),
    }
    for n in ("Addr", "Subr", "Sll", "Slt", "Sltu", "Xorr", "Srl", "Sra", "Orr", "Andr", "Mul", "Div", "Divu", "Rem", "Remu"):
        d[n] = R3
    for n in ("Slli", "Srli", "Srai"):
        d[n] = ([REG, REG], (0, 32, 1, ()))
    for n in ("Addi", "Slti", "Sltiu", "Xori", "Ori", "Andi", "Sb", "Sh", "Sw", "Lb", "Lh", "Lw", "Lbu", "Lhu"):
        d[n] = ([REG, REG], sim12)
    for n in ("Rdcyclei", "Rdcyclehi", "Rdtimei", "Rdtimehi", "Rdinstreti", "Rdinstrethi", "Bl", "Adru", "Adrurel", "Adrlrel", "CBl"):
        d[n] = ([REG], None)
    for n in ("Beq", "Bne", "Blt", "Bgt", "Bge", "Ble", "Bltu", "Bgtu", "Bgeu", "Bleu"):
        d[n] = ([REG, REG], None)
    for n in ("CSub", "CXor", "COr", "CAnd"):
        d[n] = ([REGP, REGP], None)
    return d[name]


CSR_SAMPLE = [0x300, 0x304, 0x305, 0x341, 0x342, 0xF14, 0x2, 0, 1, 0xC00, 0xC82, 0x7FF, 0x800, 0xFFF]


def reg_tuples(rng, doms, exhaustive, n):
    """register tuples of a class: every tuple when `exhaustive`, else `n` random ones + corners"""
    import itertools
    lists = []
    for i, d in enumerate(doms):
        if d == "csr":
            lists.append(CSR_SAMPLE)
        elif d == "=0":
            lists.append(None)
        else:
            lists.append(d)
    free = [l for l in lists if l is not None]
    size = 1
    for l in free:
        size *= len(l)
    if exhaustive or size <= n:
        combos = list(itertools.product(*free))
    else:
        combos = set()
        for l0 in itertools.product(*[(l[0], l[-1]) for l in free]):
            combos.add(l0)
        while len(combos) < n:
            combos.add(tuple(rng.choice(l) for l in free))
        combos = sorted(combos)
    out = []
    for cb in combos:
        it = iter(cb)
        t = []
        for l in lists:
            t.append(None if l is None else next(it))
        t = [t[0] if v is None else v for v in t]     # "=0": same register as operand 0
        out.append(tuple(t) + (0,) * (3 - len(t)))
    return out


def llvm_mc_disassemble(byte_strings, triple="riscv32", mattr="+m,+c", extra=("-M", "no-aliases", "-M", "numeric")):
    """disassemble each byte string separately (a sentinel `wfi` between them keeps the
    stream aligned); returns a list of lists of text lines (empty list = llvm decodes nothing)"""
    sentinel = "0x73 0x00 0x50 0x10"   # wfi: no ppci class emits it
    lines = []
    for bs in byte_strings:
        lines.append(" ".join("0x%02x" % b for b in bs))
        lines.append(sentinel)
    p = subprocess.run(["llvm-mc", "--disassemble", f"--triple={triple}", f"-mattr={mattr}", *extra],
                       input="\n".join(lines) + "\n", capture_output=True, text=True)
    out = [l.strip().replace("\t", " ") for l in p.stdout.splitlines()]
    out = [l for l in out if l and not l.startswith(".text")]
    res, cur = [], []
    for l in out:
        if l == "wfi":
            res.append(cur); cur = []
        else:
            cur.append(l)
    if len(res) != len(byte_strings):
        raise RuntimeError(f"llvm-mc: {len(res)} groups for {len(byte_strings)} inputs; stderr: {p.stderr[-300:]}")
    return res
