"""C07, arm and thumb: DISASSEMBLER-BASED annotation search (no theorem, no emulator, no formal ARM semantics).

The REAL bytes of instances of every arm / thumb instruction class are decoded by llvm (same machinery and
operand grids as harness/c08_llvm.py).  For the simple data-processing forms whose operand roles are
unambiguous in the ARM ARM —
    op  rd, rn, rm|#imm   (add sub and orr eor bic lsl lsr asr ror mul adc sbc rsb orn, with or without `s`)
    op  rd, rm|#imm       (two-operand form of the above: rd is also the first source)
    mov/mvn rd, rm|#imm   ·   cmp/cmn/tst/teq rn, rm|#imm (nothing written)
    mla/mls rd, rn, rm, ra   ·   umull/smull/umlal/smlal rdlo, rdhi, rn, rm   ·   sdiv/udiv rd, rn, rm
— the register llvm prints as destination must be in the instance's defined_registers ∪ clobbers and every
register llvm prints as source must be in its used_registers.  Anything else (memory operands, register
lists, shifted operands, writeback, labels, conditional forms, unknown mnemonics) is counted as unknown and
never reported.  Signatures: `<isa>:<class>:writes-undeclared` / `<isa>:<class>:reads-undeclared`."""
import re
import shutil
import tempfile
from pathlib import Path

from harness import c08_llvm as L

DP = {"add", "sub", "and", "orr", "eor", "bic", "lsl", "lsr", "asr", "ror", "mul", "adc", "sbc", "rsb", "orn"}
MOVS = {"mov", "mvn"}
CMPS = {"cmp", "cmn", "tst", "teq"}
MAC = {"mla", "mls"}                        # op rd, rn, rm, ra : rd written; rn, rm, ra read
MULL = {"umull", "smull"}                   # op rdlo, rdhi, rn, rm : rdlo, rdhi written; rn, rm read
MLAL = {"umlal", "smlal"}                   # as MULL, rdlo and rdhi also read
DIVS = {"sdiv", "udiv"}                     # op rd, rn, rm
REGNUM = {f"r{k}": k for k in range(16)}
REGNUM.update({"sp": 13, "lr": 14, "pc": 15, "sb": 9, "sl": 10, "fp": 11, "ip": 12})


def base_mnemonic(m):
    m = m.lower()
    for suffix in (".w", ".n"):
        if m.endswith(suffix):
            m = m[: -len(suffix)]
    if m in DP | MOVS | CMPS | MAC | MULL | MLAL | DIVS:
        return m
    if m.endswith("s") and m[:-1] in {"mla"} | MULL | MLAL:
        return m[:-1]
    if m.endswith("s") and m[:-1] in DP | MOVS:
        return m[:-1]
    return None


def roles(text):
    """llvm text -> (written register numbers, read register numbers) or None when not a simple form"""
    m = re.match(r"\s*([A-Za-z.]+)\s+(.*)$", text)
    if not m:
        return None
    mn = base_mnemonic(m.group(1))
    rest = re.sub(r"\s*[@;].*$", "", m.group(2))
    if mn is None or any(ch in rest for ch in "[]{}!"):
        return None
    ops = [o.strip().lower() for o in rest.split(",")]
    regs = []
    for o in ops:
        if o in REGNUM:
            regs.append(REGNUM[o])
        elif re.fullmatch(r"#?-?(0x[0-9a-f]+|\d+)", o):
            regs.append(None)
        else:
            return None          # shifted register, special register, label …
    if mn in MAC | MULL | MLAL:
        if len(regs) != 4 or None in regs:
            return None
        if mn in MAC:
            return [regs[0]], regs[1:]
        return regs[:2], regs[2:] + (regs[:2] if mn in MLAL else [])
    if mn in DIVS:
        if len(regs) != 3 or None in regs:
            return None
        return [regs[0]], regs[1:]
    if mn in CMPS:
        if len(regs) != 2 or regs[0] is None:
            return None
        return [], [r for r in regs if r is not None]
    if mn in MOVS:
        if len(regs) != 2 or regs[0] is None:
            return None
        return [regs[0]], [r for r in regs[1:] if r is not None]
    if len(regs) == 3 and regs[0] is not None and regs[1] is not None:
        return [regs[0]], [r for r in regs[1:] if r is not None]
    if len(regs) == 2 and regs[0] is not None:
        return [regs[0]], [regs[0]] + [r for r in regs[1:] if r is not None]
    return None


def nums(regs):
    return sorted({r.num for r in regs if type(r).__name__ in ("ArmRegister", "LowArmRegister") and getattr(r, "num", None) is not None})


def check(ctx):
    from ppci.arch.encoding import Instruction
    tabs = L.get_tabs(ctx)
    workdir = Path(tempfile.mkdtemp(prefix="c07dec"))
    ctx.workdir = workdir
    try:
        for isa in ("thumb", "arm"):
            cfg = L.ISAS[isa]
            if isa == "arm":
                # without the triple llvm-objdump decodes arm objects with the base feature set: every v6T2 / v7
                # instruction (mls, hints ...) is printed as <unknown>.  (C08 keeps its validated configuration.)
                cfg = dict(cfg, objdump=list(cfg.get("objdump", [])) + ["--triple=armv7"])
            rows = tabs["isas"][isa]["instrs"]
            by_cls = {r["cls"]: r for r in rows}
            items, insts_all = [], []
            for r in rows:
                cls = r["cls"]
                if not (isinstance(cls, type) and issubclass(cls, Instruction)) or not hasattr(cls, "tokens"):
                    continue
                if getattr(cls, "syntax", None) is None:
                    continue
                insts = L.build(cls, by_cls, ctx.rng, [0, 1, 4, 8, 255], ctx.thorough)
                limit = 300 if L.is_core(cls) or ctx.thorough else 80
                if len(insts) > limit:
                    insts = insts[: limit // 2] + ctx.rng.sample(insts[limit // 2:], limit - limit // 2)
                for ins in insts:
                    try:
                        if ins.relocations():
                            continue
                        bs = bytes(ins.encode())
                        text = str(ins)
                    except Exception:  # noqa
                        continue
                    if bs:
                        items.append((r["name"], text, bs, False))
                        insts_all.append(ins)
            if not items:
                continue
            dis = L.disassemble(isa, cfg, items, ctx)
            seen = set()
            for (cname, text, bs, _), ins, lt in zip(items, insts_all, dis):
                if lt is None or lt == "<crash>":
                    ctx.count(f"{isa}_decode_unknown_undecodable")
                    continue
                rl = roles(lt)
                if rl is None:
                    ctx.count(f"{isa}_decode_unknown_form")
                    continue
                ctx.count(f"eval_decode_{isa}")
                written, read = rl
                used = nums(ins.used_registers)
                defined = nums(list(ins.defined_registers) + list(getattr(ins, "clobbers", [])))
                for w in written:
                    if w not in defined and (cname, "w") not in seen:
                        seen.add((cname, "w"))
                        ctx.fail(f"{isa}:{cname}:writes-undeclared",
                                 f"{isa} '{text}' encodes {bs.hex()} = '{lt}': writes r{w}, declared writes {defined}",
                                 {"isa": isa, "cls": cname, "printed": text, "bytes": bs.hex()}, llvm=lt)
                for rr in read:
                    if rr in (13, 15):
                        continue          # sp / pc: fixed implicit state the property allows for reads
                    if rr not in used and (cname, "r") not in seen:
                        seen.add((cname, "r"))
                        ctx.fail(f"{isa}:{cname}:reads-undeclared",
                                 f"{isa} '{text}' encodes {bs.hex()} = '{lt}': reads r{rr}, declared reads {used}",
                                 {"isa": isa, "cls": cname, "printed": text, "bytes": bs.hex()}, llvm=lt)
    finally:
        shutil.rmtree(workdir, ignore_errors=True)
