"""C18 Intel HEX: correspondence of Model.Hex with ppci/format/hexfile.py and evaluation of the
property on the real code (oracles: Spec.IHex.mergeSpec / Spec.IHex.read through the driver)."""
import io
import itertools
import os

PROP = "C18"
LEAN_PROPS = "PpciVerif/Props/C18.lean"
LEAN_TARGETS = ["PpciVerif.Props.C18", "Drivers.C18"]
LEVEL = "proof"
LEVEL_TEXT = (
    "Lean theorems about a hand model of HexLine/HexFile, for EVERY finite list of non-empty pairwise non-overlapping byte regions "
    "ending at or below 2^32, every insertion order of it and every start address below 2^32 (no bound on number or size of regions): "
    "(a) add_region in any order ends in Spec.IHex.mergeSpec of the set, which is the unique gap-separated normal form with the same "
    "memory image; (b) save succeeds and every emitted line parses under the Intel record grammar with correct byte count, load offset "
    "rule and checksum; (c) the independent Lean reader Spec.IHex.read (written from Intel's specification: types 00-05, 32-bit linear "
    "base, strict) maps the saved text to exactly the bytes of the regions at their addresses, each once, in ascending order, and to the "
    "start address; (d) load(save h) = h including start_address. The model is tied to ppci/format/hexfile.py by a differential run on "
    "every check (region histories incl. all orders of <=4 regions, file text line by line, malformed lines/files); the Lean reader is fed "
    "the REAL file text and the property is evaluated on the real code."
)
LEVEL_NOTE = (
    "trusted: Lean kernel; axioms propext/Classical.choice/Quot.sound; the hand model <-> source correspondence is sampled, not proved; "
    "Spec.IHex is our reading of Intel's specification (no intelhex package in the sandbox to cross-check it); text is modelled as a list "
    "of lines (print() adds the newline); Python object identity/mutation modelled by functional update; negative addresses, empty regions "
    "and malformed input files are outside the theorems (malformed input: only the error class is compared)."
)
TECHNIQUE = ("Lean 4 proof (induction over the chunk loop, cell-level invariants, uniqueness of normal forms) over a hand model + "
             "differential correspondence with ppci/format/hexfile.py + independent Lean Intel-HEX reader run on the real output")
RULE = ("region sets: 1..6 regions, anchors 0/0xFFFF/0x10000/0x1FFFF/0xFFFF0000/0xFFFFFFFF/random 32-bit, sizes {1,2,3,29,30,31,59,60,61,random<=200} "
        "plus 65535+-2 and 65536*k+-1 (thorough: all, k<=3; quick: 65537 and 65536 at 0xF003), neighbours adjacent / gap 1..3 / far; every insertion order for <=4 regions, "
        "sorted+reverse+random orders above; start addresses {0,1,0xFFFF,0x10000,0xFFFFFFFF,random}; overlapping sets, malformed lines and files "
        "for the error behaviour. distinct = distinct (regions in insertion order, start); non-trivial = >=2 regions with an adjacency, or a region "
        "crossing a 64 KiB boundary, or a non-zero start address, or an error outcome")
TRUSTED = [
    "hand model Model.Hex of ppci/format/hexfile.py (stable insertion sort for list.sort, struct.pack as range-checked big-endian split, 30-byte chunks), tied by differential run on every check",
    "Spec.IHex: Intel HEX reader written from Intel's Hexadecimal Object File Format Specification rev. A (record grammar, checksum, types 00-05), and the memory image / normal form definitions",
]
ASSUMPTIONS = [
    "addresses are non-negative ints, data are bytes objects",
    "print(line, file=f) writes the line followed by one newline; the file is observed as the list of its lines",
    "list.sort(key=...) is a stable sort",
    "struct.pack('>H'/'>I', v) is the big-endian split of v and raises struct.error outside the range",
    "lines handed to load contain no blanks inside (strip() and bytes.fromhex blank skipping are not modelled)",
]

M32 = 1 << 32
# debugging knob: C18_LEGACY=1 compares the real code with the model of the PRE-repair code (Model.Hex.Legacy)
LEG = "l" if os.environ.get("C18_LEGACY") else ""
ANCHORS = [0, 0xFFFF, 0x10000, 0x1FFFF, 0x20000, 0xFFFF0000, 0xFFFFFFFF, 0x8000, 0xFFFE, 0x7FFFFFFF]
SMALL = [1, 2, 3, 29, 30, 31, 59, 60, 61]


# ----------------------------------------------------------------------------- encoding
def enc_regions(rs):
    return ",".join(f"{a}:{bytes(d).hex() or '-'}" for a, d in rs) or "-"


def enc_lines(ls):
    return ",".join(ls) or "-"


def ename(e):
    return "err " + type(e).__name__


def hf_regions(hf):
    return [(r.address, bytes(r.data)) for r in hf.regions]


# ----------------------------------------------------------------------------- generators
def rand_bytes(rng, n):
    return rng.randbytes(n)


def gen_set(rng, big=None, nmax=6):
    """non-empty, pairwise non-overlapping regions with end <= 2^32, ascending."""
    n = rng.randint(1, nmax)
    sizes = []
    for i in range(n):
        c = rng.random()
        if c < 0.55:
            sizes.append(rng.choice(SMALL))
        elif c < 0.9:
            sizes.append(rng.randint(1, 200))
        else:
            sizes.append(rng.randint(200, 1500))
    if big is not None:
        sizes[rng.randrange(n)] = big
    rs = []
    pos = None
    for i, sz in enumerate(sizes):
        c = rng.random()
        if pos is None or c < 0.3:
            # new anchor, somewhere around it
            a = rng.choice(ANCHORS) if rng.random() < 0.8 else rng.randrange(M32)
            a = max(0, a - rng.choice([0, 0, 1, 2, sz, sz - 1, sz + 1, 30, 31, 65536]))
            if pos is not None and a < pos:
                a = pos + rng.choice([0, 1, 2, 3, 0x10000])
        elif c < 0.7:
            a = pos                      # adjacent
        else:
            a = pos + rng.randint(1, 3)  # small gap
        if a + sz > M32:
            a = M32 - sz
            if pos is not None and a < pos:
                break
        rs.append((a, rand_bytes(rng, sz)))
        pos = a + sz
    return rs


def orders(rng, rs, thorough):
    n = len(rs)
    if n <= 4:
        return [list(p) for p in itertools.permutations(range(n))]
    out = [list(range(n)), list(reversed(range(n)))]
    for _ in range(10 if thorough else 4):
        p = list(range(n))
        rng.shuffle(p)
        out.append(p)
    return out


def starts(rng):
    return rng.choice([0, 0, 1, 0xFFFF, 0x10000, 0xFFFFFFFF, 0x12345678, rng.randrange(M32)])


CORPUS = [
    # (regions in insertion order, start)   — known findings first
    ([(0, bytes([0, 1, 2, 3])), (8, bytes([8, 9, 10, 11])), (4, bytes([4, 5, 6, 7]))], 0),
    ([(0x8000, bytes.fromhex("aabbcc"))], 0x12345678),
    ([(0x8000, bytes.fromhex("aabbcc"))], 0),
    ([(0x8000, bytes.fromhex("aabbcc")), (0x118000, bytes.fromhex("aabbcc"))], 1),
    ([(0x8000, bytes.fromhex("aabbcc")), (0xFFFE, bytes.fromhex("aabbcc"))], 0xFFFFFFFF),
    ([(0xFFFF, b"\x01")], 0), ([(0x10000, b"\x01")], 0), ([(0xFFFFFFFF, b"\xff")], 0xFFFFFFFF),
    ([(0xFFFFFFE0, bytes(range(32)))], 0), ([(0xFFFE0000 + 0xFFF0, bytes(range(16)))], 0),
    ([(0xFFE2, bytes(range(30))), (0x10000, bytes(range(30)))], 0),
    ([(0xFFE3, bytes(range(30))), (0x10001, bytes(range(30)))], 0),
    ([(10, b"ab"), (12, b"cd"), (14, b"ef"), (16, b"gh")], 0),
    ([(16, b"gh"), (14, b"ef"), (12, b"cd"), (10, b"ab")], 0),
    ([(10, b"ab"), (14, b"ef"), (12, b"cd"), (16, b"gh"), (18, b"ij"), (20, b"kl")], 0),
    ([(20, b"kl"), (10, b"ab"), (14, b"ef"), (18, b"ij"), (12, b"cd"), (16, b"gh")], 7),
    ([(0xF000, bytes.fromhex("ab") * 0x1000)], 0),
]


def big_sizes(thorough):
    if not thorough:
        return [65537]
    out = [65533, 65534, 65535, 65536, 65537, 65538]
    for k in (2, 3):
        out += [65536 * k - 1, 65536 * k, 65536 * k + 1]
    return out


def gen_cases(ctx):
    rng = ctx.rng
    cases = []
    for rs, st in CORPUS:
        cases.append((rs, st, "corpus"))
    # every insertion order of small sets
    nsets = 400 if ctx.thorough else 50
    for _ in range(nsets):
        rs = gen_set(rng, nmax=4 if rng.random() < 0.7 else 6)
        for p in orders(rng, rs, ctx.thorough):
            cases.append(([rs[i] for i in p], starts(rng), "gen"))
    # big regions (64 KiB crossings, many extended-address records)
    for b in big_sizes(ctx.thorough):
        for _ in range(2 if ctx.thorough else 1):
            rs = gen_set(rng, big=b, nmax=3)
            p = list(range(len(rs)))
            rng.shuffle(p)
            cases.append(([rs[i] for i in p], starts(rng), "big"))
    cases.append(([(0xF003, bytes.fromhex("ab") * 0x10000)], 0, "big"))
    return cases


def overlap_cases(ctx):
    rng = ctx.rng
    out = [[(0x10, bytes.fromhex("abcdab")), (0x12, bytes.fromhex("abcdab"))],
           [(0, b"abcd"), (4, b"efgh"), (6, b"ij")], [(0, b"abcd"), (6, b"ij"), (4, b"efgh")],
           [(5, b"x"), (5, b"y")], [(0, b"abcdef"), (2, b"z")]]
    for _ in range(200 if ctx.thorough else 40):
        rs = gen_set(rng, nmax=4)
        a, d = rng.choice(rs)
        off = rng.randrange(len(d))
        rs2 = list(rs) + [(a + off, rand_bytes(rng, rng.randint(1, 5)))]
        rng.shuffle(rs2)
        out.append(rs2)
    return out


# ----------------------------------------------------------------------------- real implementation
def impl_build(H, rs):
    hf = H.HexFile()
    try:
        for a, d in rs:
            hf.add_region(a, d)
    except Exception as e:  # noqa
        return None, ename(e)
    return hf, "ok " + enc_regions(hf_regions(hf))


def impl_save(hf):
    f = io.StringIO()
    try:
        hf.save(f)
    except Exception as e:  # noqa
        return None, ename(e)
    txt = f.getvalue()
    return txt, None


def split_text(txt):
    """file text -> lines; None if the text does not end with a newline."""
    if txt == "":
        return []
    if not txt.endswith("\n"):
        return None
    return txt[:-1].split("\n")


def impl_load(H, lines):
    try:
        hf = H.HexFile.load(io.StringIO("".join(l + "\n" for l in lines)))
    except Exception as e:  # noqa
        return None, ename(e)
    return hf, f"ok {hf.start_address} {enc_regions(hf_regions(hf))}"


def nontriv(rs, st, res):
    ends = {a + len(d) for a, d in rs}
    adj = len(rs) >= 2 and any(a in ends for a, _ in rs)
    cross = any((a >> 16) != ((a + len(d) - 1) >> 16) for a, d in rs if d)
    return adj or cross or st != 0 or res.startswith("err")


def bad_char(lines):
    return any((set(l) - set("0123456789abcdefABCDEF:")) for l in lines)


# ----------------------------------------------------------------------------- evaluation
def eval_cases(ctx, cases):
    from ppci.format import hexfile as H
    reqs, expect = [], []       # correspondence requests (impl answer known)
    oracle = []                 # spec requests, consumed by the property evaluation

    def corr(what, req, impl, case):
        reqs.append(req)
        expect.append((what, impl, case))

    evals = []
    for rs, st, kind in cases:
        case = {"regions": [[a, bytes(d).hex()] for a, d in rs], "start": st}
        ctx.count("eval_case")
        ctx.count("kind_" + kind)
        ctx.count(f"nregions_{min(len(rs), 6)}")
        hf, res = impl_build(H, rs)
        corr("add_region", LEG + "build " + enc_regions(rs), res, case)
        if nontriv(rs, st, res):
            ctx.nontrivial(enc_regions(rs)[:200] + f"|{st}|{len(rs)}|{sum(len(d) for _, d in rs)}")
        ev = {"case": case, "rs": rs, "st": st, "build": res, "hf": hf}
        oracle.append("merge " + enc_regions(rs))
        if hf is not None:
            hf.start_address = st
            regs = hf_regions(hf)
            txt, err = impl_save(hf)
            ev["regs"] = regs
            if err is not None:
                corr("save", LEG + f"save {st} {enc_regions(regs)}", err, case)
                ev["save_err"] = err
            else:
                lines = split_text(txt)
                ev["lines"] = lines
                if lines is None or bad_char(lines):
                    ev["text_bad"] = True
                    corr("save", LEG + f"save {st} {enc_regions(regs)}", "ok <unprintable text>", case)
                else:
                    ctx.count("lines", len(lines))
                    corr("save", LEG + f"save {st} {enc_regions(regs)}", "ok " + enc_lines(lines), case)
                    hf2, lres = impl_load(H, lines)
                    ev["load"] = lres
                    corr("load", "load " + enc_lines(lines), lres, case)
                    oracle.append("read " + enc_lines(lines))
        evals.append(ev)
    out = yield reqs + oracle
    model, spec = out[: len(reqs)], out[len(reqs):]
    for (what, impl, case), rq, m in zip(expect, reqs, model):
        ctx.count("eval_corr_" + what)
        if impl != m:
            ctx.disagree(what, {"case": case, "request": rq[:300]}, impl[:400], m[:400])
    # ---- the property on the real code ----------------------------------------------------
    k = 0
    diag = []
    for ev in evals:
        case, rs, st = ev["case"], ev["rs"], ev["st"]
        merged = spec[k]; k += 1                         # "ok <regions>" : Spec.IHex.mergeSpec of the set
        ctx.count("eval_property")
        if ev["hf"] is None:
            ctx.fail("add_region:raises-on-valid-set", f"add_region sequence raised {ev['build']}", case)
            continue
        if ev["build"] != merged:
            nb_in = sum(len(d) for _, d in rs)
            nb_out = sum(len(d) for _, d in ev["regs"])
            sig = "add_region:data-lost" if nb_out < nb_in else "add_region:merged-regions-differ-from-spec"
            ctx.fail(sig, f"regions after add_region in this order hold {nb_out} of {nb_in} bytes / differ from the merged set",
                     case, impl=ev["build"][:300], spec=merged[:300])
        if "save_err" in ev:
            ctx.fail("save:raises", f"save raised {ev['save_err']}", case)
            continue
        if ev.get("text_bad"):
            ctx.fail("save:text-not-lines-of-hex-records", "saved text has foreign characters or no final newline", case)
            continue
        rd = spec[k]; k += 1                             # Spec.IHex.read of the REAL text
        want_img = "ok " + ("none" if st == 0 else str(st)) + " " + enc_regions(ev["regs"])
        if rd == "ok reject":
            diag.append(ev)
        elif rd != want_img:
            got = rd.split(" ")
            if got[1] != want_img.split(" ")[1]:
                ctx.fail("save:start-address-not-in-file", f"independent reader finds start address {got[1]}, HexFile has {st}", case)
            if got[2] != want_img.split(" ")[2]:
                ctx.fail("save:image-differs", "independent reader decodes other bytes/addresses than the regions",
                         case, reader=rd[:300], regions=want_img[:300])
        lres = ev["load"]
        if lres.startswith("err"):
            ctx.fail("load(save):raises", f"load of the saved text raised {lres}", case)
        else:
            _, lst, lregs = lres.split(" ")
            if lregs != enc_regions(ev["regs"]):
                ctx.fail("load(save):regions-differ", "load(save(h)).regions != h.regions", case, loaded=lregs[:300])
            if int(lst) != st:
                ctx.fail("load(save):start-address-lost", f"load(save(h)).start_address = {lst}, h.start_address = {st}", case)
    if diag:
        # per line diagnosis of rejected files
        lreqs = []
        for ev in diag:
            lreqs += ["rec " + l for l in ev["lines"]]
        rep = ctx.driver("C18", lreqs) if lreqs else []
        j = 0
        for ev in diag:
            bad = None
            for l in ev["lines"]:
                if rep[j] == "ok none" and bad is None:
                    bad = l
                j += 1
            if bad is not None:
                ctx.fail("save:record-invalid", f"line {bad!r} violates the record grammar / byte count / checksum", ev["case"])
            else:
                ctx.fail("save:file-rejected", "independent reader rejects the record sequence (types/lengths/EOF)", ev["case"])
    for ev in evals[:3]:
        ctx.sample({"regions": ev["case"]["regions"][:3], "start": ev["st"], "impl_regions": ev["build"][:120],
                    "lines": (ev.get("lines") or [])[:4]})


def line_cases(ctx):
    """HexLine.to_line / from_line incl. the error behaviour."""
    rng = ctx.rng
    tol, froml = [], []
    for _ in range(600 if ctx.thorough else 150):
        a = rng.choice([0, 1, 0xFF, 0x100, 0xFFFF, 0x10000, rng.randrange(0x10000), rng.randrange(0x20000)])
        t = rng.choice([0, 1, 2, 3, 4, 5, 0xFF, 0x100, rng.randrange(256)])
        n = rng.choice([0, 1, 2, 4, 16, 30, 32, 255, 256, rng.randrange(40)])
        tol.append((a, t, rand_bytes(rng, n)))
    return tol


def eval_lines(ctx):
    from ppci.format import hexfile as H
    rng = ctx.rng
    reqs, impl, what = [], [], []
    good = []
    for a, t, d in line_cases(ctx):
        try:
            r = "ok " + H.HexLine(a, t, d).to_line()
            good.append(r[3:])
        except Exception as e:  # noqa
            r = ename(e)
        reqs.append(f"toline {a} {t} {d.hex() or '-'}"); impl.append(r); what.append("to_line")
    lines = list(good) + [":00000001FF", ":00000001ff", ":", ":0", ":00", ":zz", ":0000000", "00000001ff", ":01400000aabb",
                          ":0140002200aabb", ":04000005aabbccdde9", ":04000001aabbccdded", ":0400000500000000F7"]
    for g in good[: 200 if ctx.thorough else 60]:
        cs = list(g)
        i = rng.randrange(1, len(cs))
        c = rng.random()
        if c < 0.4:
            cs[i] = rng.choice("0123456789abcdef")
        elif c < 0.6:
            del cs[i]
        elif c < 0.8:
            cs[i] = rng.choice("ghxyzGZ")
        else:
            cs = cs[: max(1, i)]
        lines.append("".join(cs))
    for l in lines:
        if set(l) - set("0123456789abcdefABCDEFghxyzGZ:"):
            continue
        try:
            hl = H.HexLine.from_line(l)
            r = f"ok {hl.address} {hl.typ} {bytes(hl.data).hex() or '-'}"
        except Exception as e:  # noqa
            r = ename(e)
        reqs.append("fromline " + l); impl.append(r); what.append("from_line")
    # malformed / foreign files through load
    mk = lambda a, t, d: H.HexLine(a, t, d).to_line()  # noqa
    eof = mk(0, 1, b"")
    files = [
        [eof, mk(0, 0, b"ab")], [mk(0, 1, b"x")], [mk(0, 2, b"\x10\x00"), eof], [mk(0, 3, b"\0\0\0\0"), eof],
        [mk(0, 4, b"\x00"), eof], [mk(0, 5, b"\x00\x01\x02"), eof], [mk(0, 4, b"\x00\x01\x02"), mk(0x10, 0, b"zz"), eof],
        [mk(0, 5, b"\x00\x01\x02\x03\x04"), eof], [mk(0, 0, b"ab"), mk(1, 0, b"cd"), eof], [mk(0, 0, b"ab")], [],
        [mk(4, 0, b"ab"), mk(0, 0, b"abcd"), mk(6, 0, b"x"), eof], [mk(0, 6, b""), eof],
        [mk(0, 4, b"\xff\xff"), mk(0xFFFF, 0, b"ab"), eof], ["garbage", mk(0, 0, b"q"), "", eof],
        [mk(0, 0, b""), mk(0, 0, b"a"), eof], [mk(0, 5, b"\xaa\xbb\xcc\xdd"), mk(0, 5, b"\x00\x00\x00\x07"), eof],
    ]
    for _ in range(100 if ctx.thorough else 25):
        fl = []
        for _ in range(rng.randint(1, 6)):
            t = rng.choice([0, 0, 0, 1, 4, 4, 5, 2])
            n = {1: rng.choice([0, 0, 1]), 4: rng.choice([2, 2, 1, 3]), 5: rng.choice([4, 4, 3]), 2: 2}.get(t, rng.randint(0, 8))
            fl.append(mk(rng.randrange(0x10000) if t == 0 else 0, t, rand_bytes(rng, n)))
        files.append(fl)
    for fl in files:
        if any(set(l) - set("0123456789abcdefABCDEFgr:") for l in fl):
            continue
        _, r = impl_load(H, fl)
        reqs.append("load " + enc_lines(fl)); impl.append(r); what.append("load_malformed")
    out = yield reqs
    for rq, i, m, w in zip(reqs, impl, out, what):
        ctx.count("eval_corr_" + w)
        ctx.count("outcome_" + i.split(" ")[0] + ("_" + i.split(" ")[1] if i.startswith("err") else ""))
        if i.startswith("err"):
            ctx.nontrivial(rq[:120])
        if i != m:
            ctx.disagree(w, rq[:300], i[:300], m[:300])


def eval_overlaps(ctx):
    from ppci.format import hexfile as H
    reqs, impl = [], []
    for rs in overlap_cases(ctx):
        _, r = impl_build(H, rs)
        reqs.append(LEG + "build " + enc_regions(rs)); impl.append(r)
    out = yield reqs
    for rq, i, m in zip(reqs, impl, out):
        ctx.count("eval_corr_overlap")
        ctx.count("overlap_" + i.split(" ")[0])
        ctx.nontrivial(rq[:160])
        if i != m:
            ctx.disagree("add_region(overlap)", rq[:300], i[:300], m[:300])


def run_batched(ctx, gens):
    """each generator yields its request lines once and is resumed with the replies:
    one driver process for the whole check."""
    reqs, spans = [], []
    for g in gens:
        r = next(g)
        spans.append((len(reqs), len(reqs) + len(r)))
        reqs += r
    out = ctx.driver("C18", reqs) if reqs else []
    for g, (a, b) in zip(gens, spans):
        try:
            g.send(out[a:b])
        except StopIteration:
            pass


def check(ctx):
    run_batched(ctx, [eval_cases(ctx, gen_cases(ctx)), eval_overlaps(ctx), eval_lines(ctx)])
    ctx.extra_cov["exhaustive"] = False
    ctx.extra_cov["insertion_orders"] = "all permutations for sets of <= 4 regions"
    ctx.extra_cov["reader"] = "Spec.IHex.read (Lean) run on the real saved text of every case; no third-party reader available in the sandbox"


def replay(ctx, rp):
    c = rp.get("case") or {}
    if isinstance(c, dict) and "case" in c:
        c = c["case"]
    if isinstance(c, dict) and "regions" in c:
        rs = [(a, bytes.fromhex(h)) for a, h in c["regions"]]
        run_batched(ctx, [eval_cases(ctx, [(rs, c.get("start", 0), "replay")])])
    else:
        check(ctx)
