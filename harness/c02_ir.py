"""C02 helpers: the IR exchange format (notes/IR.md) as a Python tree.

* `parse(text)` / `show(tree)`   S-expression <-> nested lists of str
* `load_module(tree)`            tree -> live `ppci.ir.Module` (built object by object with the public
                                 constructors; blocks keep the textual order, instructions are created in
                                 reverse post-order so that every non-phi operand exists before its user)
* `canon(tree)`                  alpha-normal form: blocks `b<k>`, values `v<k>` numbered by position,
                                 phi inputs sorted by block number
* `pessimize(rng, tree, ...)`    behaviour-preserving "de-optimisations" of a module tree that create work
                                 for the passes (x+0, x*1, constant conditional jumps, values demoted to
                                 stack slots with store/load, phis demoted to stack slots)

Everything here works on the text form produced by `harness/irser.py` (for generated / front-end produced
modules) or written by hand (corpus), so every input of the check is replayable from one line of text.
"""
import struct

from ppci import ir

INT_TYPES = {"i8": ir.i8, "i16": ir.i16, "i32": ir.i32, "i64": ir.i64,
             "u8": ir.u8, "u16": ir.u16, "u32": ir.u32, "u64": ir.u64}
TYPES = dict(INT_TYPES, f32=ir.f32, f64=ir.f64, ptr=ir.ptr)
BINOPS = {"add": "+", "sub": "-", "mul": "*", "div": "/", "rem": "%", "or": "|", "and": "&",
          "xor": "^", "shl": "<<", "shr": ">>", "rol": "rol", "ror": "ror"}
UNOPS = {"neg": "-", "not": "~"}
CONDS = {"eq": "==", "lt": "<", "gt": ">", "ge": ">=", "le": "<=", "ne": "!="}


# ---- S-expressions ---------------------------------------------------------------------------

def parse(text):
    stack, cur, tok = [], [], []

    def flush():
        if tok:
            cur.append("".join(tok))
            tok.clear()
    for ch in text:
        if ch == "(":
            flush()
            stack.append(cur)
            cur = []
        elif ch == ")":
            flush()
            done = cur
            cur = stack.pop()
            cur.append(done)
        elif ch in " \n\t\r":
            flush()
        else:
            tok.append(ch)
    flush()
    if stack or len(cur) != 1:
        raise ValueError("unbalanced S-expression")
    return cur[0]


def show(t):
    if isinstance(t, str):
        return t
    return "(" + " ".join(show(x) for x in t) + ")"


def funcs_of(mod):
    return mod[4][1:]


def blocks_of(fn):
    return fn[6][1:]


def params_of(fn):
    return fn[5][1:]


def ty_key(t):
    return t if isinstance(t, str) else show(t)


# operand slots of an instruction tree: list of (container, index)
def operand_slots(i, phi=True):
    k = i[0]
    if k in ("addrof",):
        return [(i, 2)]
    if k == "binop":
        return [(i, 4), (i, 5)]
    if k in ("unop",):
        return [(i, 4)]
    if k in ("cast", "load", "vload"):
        return [(i, 3)]
    if k in ("store", "vstore"):
        return [(i, 2), (i, 3)]
    if k == "copyblob":
        return [(i, 1), (i, 2)]
    if k == "phi":
        return [(p, 1) for p in i[3:]] if phi else []
    if k == "fcall":
        return [(i, j) for j in range(3, len(i))]
    if k == "pcall":
        return [(i, j) for j in range(1, len(i))]
    if k == "asm":
        return [(i[2], j) for j in range(len(i[2]))] + [(i[3], j) for j in range(len(i[3]))]
    if k == "cjump":
        return [(i, 1), (i, 3)]
    if k == "ret":
        return [(i, 1)]
    return []


def dst_of(i):
    if i[0] in ("const", "fconst", "undef", "literal", "alloc", "addrof", "binop", "unop", "cast", "load",
                "vload", "phi", "fcall"):
        return i[1][1:]
    return None


def dst_type(i):
    k = i[0]
    if k in ("const", "fconst", "undef", "binop", "unop", "cast", "load", "vload", "phi", "fcall"):
        return i[2]
    if k == "addrof":
        return "ptr"
    if k == "alloc":
        return ["blob", i[2], i[3]]
    if k == "literal":
        return ["blob", str(0 if i[2] == "-" else len(i[2]) // 2), "1"]
    return None


def is_term(i):
    return i[0] in ("jump", "cjump", "ret", "exit")


def targets(i):
    if i[0] == "jump":
        return [i[1]]
    if i[0] == "cjump":
        return [i[4], i[5]]
    return []


# ---- canonical (alpha-normal) form ---------------------------------------------------------------

def canon_func(fn):
    bmap, vmap = {}, {}
    for k, b in enumerate(blocks_of(fn)):
        bmap.setdefault(b[1], f"b{k}")
    n = 0
    for p in params_of(fn):
        vmap.setdefault(p[0], f"v{n}")
        n += 1
    for b in blocks_of(fn):
        for i in b[2:]:
            d = dst_of(i)
            if d is not None:
                vmap.setdefault(d, f"v{n}")
                n += 1

    def o(x):
        if x.startswith("%"):
            return "%" + vmap.get(x[1:], "?" + x[1:])
        return x

    def bl(x):
        return bmap.get(x, "?" + x)

    def ins(i):
        k = i[0]
        if k == "phi":
            pairs = sorted((bl(p[0]), o(p[1])) for p in i[3:])
            return ["phi", o(i[1]), i[2]] + [[a, b] for a, b in pairs]
        if k == "jump":
            return ["jump", bl(i[1])]
        if k == "cjump":
            return ["cjump", o(i[1]), i[2], o(i[3]), bl(i[4]), bl(i[5])]
        if k == "asm":
            return ["asm", i[1], [o(x) for x in i[2]], [o(x) for x in i[3]], i[4]]
        out = list(i)
        d = dst_of(i)
        if d is not None:
            out[1] = o(i[1])
        for c, j in operand_slots(i):
            if c is i:
                out[j] = o(i[j])
        return out
    blocks = [["block", bl(b[1])] + [ins(i) for i in b[2:]] for b in blocks_of(fn)]
    params = [[vmap[p[0]], p[1]] for p in params_of(fn)]
    return ["func", fn[1], fn[2], fn[3], bl(fn[4]), ["params"] + params, ["blocks"] + blocks]


def canon(mod):
    return [mod[0], mod[1], mod[2], mod[3], ["funcs"] + [canon_func(f) for f in funcs_of(mod)]]


# ---- tree -> ppci objects -----------------------------------------------------------------------------

class LoadError(Exception):
    pass


def mk_type(t):
    if isinstance(t, str):
        return TYPES[t]
    if t[0] == "blob":
        return ir.BlobDataTyp(int(t[1]), int(t[2]))
    raise LoadError(f"type {t}")


def unhex(h):
    return b"" if h == "-" else bytes.fromhex(h)


def load_module(mod):
    """returns (ir.Module, entries) ; entries = [(name, [param types], ret type|None, callable)]"""
    m = ir.Module(mod[1])
    glob = {}
    for e in mod[2][1:]:
        if e[0] == "xvar":
            x = ir.ExternalVariable(e[1])
        elif e[0] == "xproc":
            x = ir.ExternalProcedure(e[1], [mk_type(t) for t in e[2]])
        else:
            x = ir.ExternalFunction(e[1], [mk_type(t) for t in e[3]], mk_type(e[2]))
        m.add_external(x)
        glob[e[1]] = x
    for v in mod[3][1:]:
        val = None
        if len(v) > 5:
            parts = []
            for p in v[5][1:]:
                parts.append(unhex(p[1]) if p[0] == "bytes" else (ir.ptr, p[1]))
            val = tuple(parts)
        x = ir.Variable(v[1], v[2], int(v[3]), int(v[4]), value=val)
        m.add_variable(x)
        glob[v[1]] = x
    fobjs = []
    for fn in funcs_of(mod):
        if fn[3] == "void":
            f = ir.Procedure(fn[1], fn[2])
        else:
            f = ir.Function(fn[1], fn[2], mk_type(fn[3]))
        m.add_function(f)
        glob[fn[1]] = f
        fobjs.append(f)
    entries = []
    for fn, f in zip(funcs_of(mod), fobjs):
        _load_function(fn, f, glob)
        pts = [a.ty for a in f.arguments]
        ok = all(t is not ir.ptr and not isinstance(t, ir.BlobDataTyp) for t in pts)
        entries.append((f.name, pts, f.return_ty if isinstance(f, ir.Function) else None, ok))
    return m, entries


def _rpo(blocks, entry):
    succ = {b[1]: (targets(b[-1]) if len(b) > 2 else []) for b in blocks}
    seen, order = set(), []

    def dfs(n):
        stack = [(n, iter(succ.get(n, [])))]
        seen.add(n)
        while stack:
            node, it = stack[-1]
            adv = False
            for t in it:
                if t not in seen and t in succ:
                    seen.add(t)
                    stack.append((t, iter(succ[t])))
                    adv = True
                    break
            if not adv:
                order.append(node)
                stack.pop()
    if entry in succ:
        dfs(entry)
    order.reverse()
    for b in blocks:
        if b[1] not in seen:
            order.append(b[1])
    return order


def _load_function(fn, f, glob):
    vals = {}
    for p in params_of(fn):
        par = ir.Parameter(p[0], mk_type(p[1]))
        f.add_parameter(par)
        f.defined_names.add(p[0])
        vals[p[0]] = par
    blocks = blocks_of(fn)
    bobj = {}
    for b in blocks:
        blk = ir.Block(b[1])
        f.add_block(blk)
        bobj[b[1]] = blk
    if fn[4] not in bobj:
        raise LoadError("entry block missing")
    f.entry = bobj[fn[4]]
    by_name = {b[1]: b for b in blocks}
    phis = []

    def o(x):
        if x.startswith("@"):
            if x[1:] not in glob:
                raise LoadError(f"unknown global {x}")
            return glob[x[1:]]
        if x[1:] not in vals:
            raise LoadError(f"operand {x} used before its definition (creation order)")
        return vals[x[1:]]

    def blk(n):
        if n not in bobj:
            raise LoadError(f"unknown block {n}")
        return bobj[n]
    for bn in _rpo(blocks, fn[4]):
        b = by_name[bn]
        B = bobj[bn]
        for i in b[2:]:
            k = i[0]
            d = dst_of(i)
            if k == "const":
                x = ir.Const(int(i[3]), d, mk_type(i[2]))
            elif k == "fconst":
                x = ir.Const(struct.unpack("<d", struct.pack("<Q", int(i[3])))[0], d, mk_type(i[2]))
            elif k == "undef":
                x = ir.Undefined(d, mk_type(i[2]))
            elif k == "literal":
                x = ir.LiteralData(unhex(i[2]), d)
            elif k == "alloc":
                x = ir.Alloc(d, int(i[2]), int(i[3]))
            elif k == "addrof":
                x = ir.AddressOf(o(i[2]), d)
            elif k == "binop":
                x = ir.Binop(o(i[4]), BINOPS[i[3]], o(i[5]), d, mk_type(i[2]))
            elif k == "unop":
                x = ir.Unop(UNOPS[i[3]], o(i[4]), d, mk_type(i[2]))
            elif k == "cast":
                x = ir.Cast(o(i[3]), d, mk_type(i[2]))
            elif k in ("load", "vload"):
                x = ir.Load(o(i[3]), d, mk_type(i[2]), volatile=(k == "vload"))
            elif k in ("store", "vstore"):
                x = ir.Store(o(i[2]), o(i[3]), volatile=(k == "vstore"))
            elif k == "copyblob":
                x = ir.CopyBlob(o(i[1]), o(i[2]), int(i[3]))
            elif k == "phi":
                x = ir.Phi(d, mk_type(i[2]))
                phis.append((x, i))
            elif k == "fcall":
                x = ir.FunctionCall(o(i[3]), [o(a) for a in i[4:]], d, mk_type(i[2]))
            elif k == "pcall":
                x = ir.ProcedureCall(o(i[1]), [o(a) for a in i[2:]])
            elif k == "jump":
                x = ir.Jump(blk(i[1]))
            elif k == "cjump":
                x = ir.CJump(o(i[1]), CONDS[i[2]], o(i[3]), blk(i[4]), blk(i[5]))
            elif k == "ret":
                x = ir.Return(o(i[1]))
            elif k == "exit":
                x = ir.Exit()
            else:
                raise LoadError(f"instruction kind {k}")
            B.add_instruction(x)
            if d is not None:
                if x.name != d:
                    raise LoadError(f"name {d} is not unique")
                vals[d] = x
    for x, i in phis:
        for p in i[3:]:
            x.set_incoming(blk(p[0]), o(p[1]))


# ---- pessimiser -------------------------------------------------------------------------------------

class Namer:
    def __init__(self, fn):
        self.used = {p[0] for p in params_of(fn)}
        self.bused = set()
        for b in blocks_of(fn):
            self.bused.add(b[1])
            for i in b[2:]:
                d = dst_of(i)
                if d:
                    self.used.add(d)
        self.n = 0

    def val(self, base):
        while True:
            self.n += 1
            s = f"{base}{self.n}"
            if s not in self.used:
                self.used.add(s)
                return s

    def blk(self, base):
        while True:
            self.n += 1
            s = f"{base}{self.n}"
            if s not in self.bused:
                self.bused.add(s)
                return s


def def_table(fn):
    """name -> (type tree, block name | None, instruction | None)"""
    t = {p[0]: (p[1], None, None) for p in params_of(fn)}
    for b in blocks_of(fn):
        for i in b[2:]:
            d = dst_of(i)
            if d:
                t[d] = (dst_type(i), b[1], i)
    return t


def _size(t):
    return {"i8": 1, "u8": 1, "i16": 2, "u16": 2, "i32": 4, "u32": 4, "i64": 8, "u64": 8, "f32": 4, "f64": 8,
            "ptr": 8}[t]


def pess_addzero(rng, fn, count):
    """operand v -> (v + 0) | (0 + v) | (v * 1), all slots of the instruction that hold v"""
    nm, defs = Namer(fn), def_table(fn)
    done = 0
    for _ in range(count * 4):
        if done >= count:
            break
        b = rng.choice(blocks_of(fn))
        idxs = [k for k in range(2, len(b)) if b[k][0] != "phi"]
        if not idxs:
            continue
        k = rng.choice(idxs)
        i = b[k]
        slots = [(c, j) for c, j in operand_slots(i, phi=False) if c[j].startswith("%")
                 and isinstance(defs.get(c[j][1:], (None,))[0], str)
                 and defs[c[j][1:]][0] in list(INT_TYPES) + ["ptr"]]
        if i[0] in ("fcall", "pcall"):
            slots = [s for s in slots if s[1] != (3 if i[0] == "fcall" else 1)]   # keep the callee
        if not slots:
            continue
        c, j = rng.choice(slots)
        v = c[j]
        t = defs[v[1:]][0]
        z, n = nm.val("pz"), nm.val("pa")
        form = rng.choice(["r0", "l0", "m1"])
        new = [["const", "%" + z, t, "1" if form == "m1" else "0"]]
        if form == "r0":
            new.append(["binop", "%" + n, t, "add", v, "%" + z])
        elif form == "l0":
            new.append(["binop", "%" + n, t, "add", "%" + z, v])
        else:
            new.append(["binop", "%" + n, t, "mul", v, "%" + z])
        for c2, j2 in slots:
            if c2[j2] == v and (rng.random() < 0.8 or (c2 is c and j2 == j)):
                c2[j2] = "%" + n
        b[k:k] = new
        defs[z] = (t, b[1], new[0])
        defs[n] = (t, b[1], new[1])
        done += 1
    return done


def pess_twin(rng, fn, count):
    """operand v of a value-tolerant instruction -> v | ((v op w) ^ (v op w))  ("same": a true common subexpression,
    value unchanged) or v | ((v op w) ^ (w op v))  ("swap": NOT a common subexpression unless op commutes) for the total
    operators rol / ror (and wrapping sub on unsigned types): fodder and traps for common-subexpression elimination"""
    nm, defs = Namer(fn), def_table(fn)
    done = 0
    safe_ops = ("and", "or", "xor", "rol", "ror")
    for _ in range(count * 6):
        if done >= count:
            break
        b = rng.choice(blocks_of(fn))
        idxs = [k for k in range(2, len(b)) if b[k][0] in ("ret", "store", "cast")
                or (b[k][0] == "binop" and (b[k][3] in safe_ops or (b[k][2].startswith("u") and b[k][3] in ("add", "sub", "mul"))))]
        if not idxs:
            continue
        k = rng.choice(idxs)
        i = b[k]
        slots = [(c, j) for c, j in operand_slots(i, phi=False) if isinstance(c[j], str) and c[j].startswith("%")
                 and isinstance(defs.get(c[j][1:], (None,))[0], str) and defs[c[j][1:]][0] in list(INT_TYPES)]
        if not slots:
            continue
        c, j = rng.choice(slots)
        v = c[j]
        t = defs[v[1:]][0]
        others = [c2[j2] for c2, j2 in slots if c2[j2] != v and defs[c2[j2][1:]][0] == t]
        new = []
        if others and rng.random() < 0.7:
            w = rng.choice(others)
        else:
            kname = nm.val("tk")
            new.append(["const", "%" + kname, t, str(rng.choice([1, 3, 5, 7]))])
            defs[kname] = (t, b[1], new[-1])
            w = "%" + kname
        op = rng.choice(["rol", "ror", "rol", "ror", "sub"] if t.startswith("u") else ["rol", "ror"])
        swap = rng.random() < 0.6
        n1, n2, n3, n4 = nm.val("t1"), nm.val("t2"), nm.val("tx"), nm.val("tv")
        new.append(["binop", "%" + n1, t, op, v, w])
        new.append(["binop", "%" + n2, t, op] + ([w, v] if swap else [v, w]))
        new.append(["binop", "%" + n3, t, "xor", "%" + n1, "%" + n2])
        new.append(["binop", "%" + n4, t, "or", v, "%" + n3])
        for x, ins in zip((n1, n2, n3, n4), new[-4:]):
            defs[x] = (t, b[1], ins)
        c[j] = "%" + n4
        b[k:k] = new
        done += 1
    return done


def ref_wrap(t, v):
    bits = _size(t) * 8
    v %= 1 << bits
    if t[0] == "i" and v >= 1 << (bits - 1):
        v -= 1 << bits
    return v


def ref_binop(t, op, a, b):
    """run-time value of `a op b` at integer type t (Spec.IRArith), None where undefined"""
    bits = _size(t) * 8
    lo = -(1 << (bits - 1)) if t[0] == "i" else 0
    if op == "add":
        return ref_wrap(t, a + b)
    if op == "sub":
        return ref_wrap(t, a - b)
    if op == "mul":
        return ref_wrap(t, a * b)
    if op in ("div", "rem"):
        if b == 0 or (t[0] == "i" and a == lo and b == -1):
            return None
        q = abs(a) // abs(b)
        q = -q if (a < 0) != (b < 0) else q
        return q if op == "div" else a - q * b
    if op == "shl":
        return ref_wrap(t, a << b) if 0 <= b < bits else None
    if op == "shr":
        return (a >> b) if 0 <= b < bits else None
    return None


def boundary_value(rng, t):
    bits = _size(t) * 8
    lo, hi = (-(1 << (bits - 1)), (1 << (bits - 1)) - 1) if t[0] == "i" else (0, (1 << bits) - 1)
    k = rng.randrange(bits)
    pool = [lo, hi, lo + 1, hi - 1, 0, 1, 2, 3, 7, 1 << k, (1 << k) - 1, rng.randint(lo, hi), rng.randint(0, 40)]
    if t[0] == "i":
        pool += [-1, -2, -7, -8, -(1 << k), -rng.randint(1, 300)]
    v = rng.choice(pool)
    return min(max(v, lo), hi)


def pess_constexpr(rng, fn, count):
    """operand v -> v + ((c1 op c2) - k) where k is the run-time value of c1 op c2: a foldable constant
    expression whose wrong folding changes the value of v"""
    nm, defs = Namer(fn), def_table(fn)
    done = 0
    for _ in range(count * 5):
        if done >= count:
            break
        b = rng.choice(blocks_of(fn))
        idxs = [k for k in range(2, len(b)) if b[k][0] != "phi"]
        if not idxs:
            continue
        k = rng.choice(idxs)
        i = b[k]
        slots = [(c, j) for c, j in operand_slots(i, phi=False) if c[j].startswith("%")
                 and isinstance(defs.get(c[j][1:], (None,))[0], str) and defs[c[j][1:]][0] in INT_TYPES]
        if i[0] in ("fcall", "pcall"):
            slots = [sl for sl in slots if sl[1] != (3 if i[0] == "fcall" else 1)]
        if not slots:
            continue
        c, j = rng.choice(slots)
        v = c[j]
        t = defs[v[1:]][0]
        op = rng.choice(["add", "sub", "mul", "rem", "shl", "shr", "shr", "rem"])
        c1 = boundary_value(rng, t)
        c2 = boundary_value(rng, t)
        if op in ("shl", "shr"):
            c2 = rng.randrange(_size(t) * 8)
        kv = ref_binop(t, op, c1, c2)
        if kv is None:
            continue
        n1, n2, ne, nk, nd, nn = (nm.val("qc"), nm.val("qc"), nm.val("qe"), nm.val("qk"), nm.val("qd"), nm.val("qa"))
        new = [["const", "%" + n1, t, str(c1)], ["const", "%" + n2, t, str(c2)],
               ["binop", "%" + ne, t, op, "%" + n1, "%" + n2], ["const", "%" + nk, t, str(kv)],
               ["binop", "%" + nd, t, "sub", "%" + ne, "%" + nk], ["binop", "%" + nn, t, "add", v, "%" + nd]]
        c[j] = "%" + nn
        b[k:k] = new
        for ins in new:
            defs[dst_of(ins)] = (t, b[1], ins)
        done += 1
    return done


def pess_cjump(rng, fn, count):
    """jump T  ->  cjump c1 ? c2 (constant) with the taken arm = T and a fresh never-taken arm"""
    nm = Namer(fn)
    done = 0
    blocks = blocks_of(fn)
    for _ in range(count * 3):
        if done >= count:
            break
        b = rng.choice(blocks)
        if len(b) < 3 or b[-1][0] != "jump":
            continue
        tgt = b[-1][1]
        t = rng.choice(list(INT_TYPES))
        lo, hi = (-(1 << (_size(t) * 8 - 1)), (1 << (_size(t) * 8 - 1)) - 1) if t[0] == "i" else (0, (1 << (_size(t) * 8)) - 1)
        x = rng.choice([lo, hi, 0, 1, hi // 2 + 1, rng.randint(lo, hi)])
        y = rng.choice([lo, hi, 0, 1, x, x, x, hi // 2 + 1, rng.randint(lo, hi)])
        cond = rng.choice(list(CONDS))
        truth = {"eq": x == y, "ne": x != y, "lt": x < y, "gt": x > y, "le": x <= y, "ge": x >= y}[cond]
        c1, c2, nb = nm.val("pc"), nm.val("pc"), nm.blk(fn[1] + "_pn")
        # the never-taken block either falls into the same target (shared successor) or is a dead end
        tb = next(bb for bb in blocks if bb[1] == tgt)
        if rng.random() < 0.6:
            dead = ["block", nb, ["jump", tgt]]
            for i in tb[2:]:
                if i[0] == "phi":
                    src = [p for p in i[3:] if p[0] == b[1]]
                    if src:
                        i.append([nb, src[0][1]])
        else:
            if fn[3] == "void":
                dead = ["block", nb, ["exit"]]
            else:
                rz = nm.val("pr")
                rt = fn[3]
                if rt in ("f32", "f64"):
                    dead = ["block", nb, ["fconst", "%" + rz, rt, "0"], ["ret", "%" + rz]]
                else:
                    dead = ["block", nb, ["const", "%" + rz, rt, "0"], ["ret", "%" + rz]]
        b[-1:] = [["const", "%" + c1, t, str(x)], ["const", "%" + c2, t, str(y)],
                  ["cjump", "%" + c1, cond, "%" + c2, tgt if truth else nb, nb if truth else tgt]]
        fn[6].insert(fn[6].index(b) + 1 if rng.random() < 0.5 else len(fn[6]), dead)
        blocks = blocks_of(fn)
        done += 1
    return done


def _entry_block(fn):
    return next(b for b in blocks_of(fn) if b[1] == fn[4])


def pess_demote(rng, fn, count):
    """a value v (non-phi definition) gets a stack slot: store after the definition, some non-phi,
    non-terminator uses read it back with a load placed right before the use"""
    nm, defs = Namer(fn), def_table(fn)
    done = 0
    cands = [(d, t, bn, i) for d, (t, bn, i) in defs.items()
             if i is not None and i[0] not in ("phi", "alloc", "literal") and isinstance(t, str) and t != "f32"]
    rng.shuffle(cands)
    eb = _entry_block(fn)
    for d, t, bn, i in cands:
        if done >= count:
            break
        uses = []
        for b in blocks_of(fn):
            for ins in b[2:]:
                if ins[0] == "phi" or is_term(ins):
                    continue
                for c, j in operand_slots(ins, phi=False):
                    if c[j] == "%" + d:
                        uses.append((b, ins, c, j))
        if not uses:
            continue
        a, p = nm.val("ps"), nm.val("pp")
        pos = 2
        while pos < len(eb) and eb[pos][0] == "phi":
            pos += 1
        eb[pos:pos] = [["alloc", "%" + a, str(_size(t)), str(_size(t))], ["addrof", "%" + p, "%" + a]]
        b = next(bb for bb in blocks_of(fn) if bb[1] == bn)
        k = next(k for k in range(2, len(b)) if b[k] is i)
        b.insert(k + 1, ["store", t, "%" + d, "%" + p])
        for (ub, ins, c, j) in uses:
            if rng.random() < 0.7:
                ld = nm.val("pl")
                kk = next(k for k in range(2, len(ub)) if ub[k] is ins)
                ub.insert(kk, ["load", "%" + ld, t, "%" + p])
                c[j] = "%" + ld
        done += 1
    return done


def pess_demote_phi(rng, fn, count):
    """a phi gets a stack slot written at the end of every predecessor; non-phi, non-terminator uses of the
    phi read the slot (mem2reg has to rebuild the phi on the dominance frontier)"""
    nm = Namer(fn)
    done = 0
    blocks = blocks_of(fn)
    eb = _entry_block(fn)
    cands = [(b, i) for b in blocks for i in b[2:] if i[0] == "phi" and isinstance(i[2], str) and i[2] != "f32"]
    rng.shuffle(cands)
    for b, phi in cands:
        if done >= count:
            break
        d, t = phi[1][1:], phi[2]
        if b is eb:
            continue
        preds = [bb for bb in blocks if len(bb) > 2 and b[1] in targets(bb[-1])]
        if {bb[1] for bb in preds} != {p[0] for p in phi[3:]}:
            continue
        uses = []
        for ub in blocks:
            for ins in ub[2:]:
                if ins[0] == "phi" or is_term(ins):
                    continue
                for c, j in operand_slots(ins, phi=False):
                    if c[j] == "%" + d:
                        uses.append((ub, ins, c, j))
        if not uses:
            continue
        a, p = nm.val("ps"), nm.val("pp")
        pos = 2
        while pos < len(eb) and eb[pos][0] == "phi":
            pos += 1
        eb[pos:pos] = [["alloc", "%" + a, str(_size(t)), str(_size(t))], ["addrof", "%" + p, "%" + a]]
        for pb in preds:
            v = next(q[1] for q in phi[3:] if q[0] == pb[1])
            pb.insert(len(pb) - 1, ["store", t, v, "%" + p])
        for (ub, ins, c, j) in uses:
            ld = nm.val("pl")
            kk = next(k for k in range(2, len(ub)) if ub[k] is ins)
            ub.insert(kk, ["load", "%" + ld, t, "%" + p])
            c[j] = "%" + ld
        done += 1
    return done


NARROWER = {"i16": ["i8", "u8"], "u16": ["i8", "u8"], "i32": ["i8", "u8", "i16", "u16"],
            "u32": ["i8", "u8", "i16", "u16"], "i64": ["i8", "u8", "i16", "u16", "i32", "u32"],
            "u64": ["i8", "u8", "i16", "u16", "i32", "u32"]}


def pess_punstore(rng, fn, count):
    """mixed-width accesses to one address (little endian): after `store T v p` a NARROWER store of the low
    bytes of v to the same address value (re-writes bytes that are already there), or before it a narrower
    store of v's low bytes (overwritten at once).  Both keep the behaviour; a pass that takes the narrow store
    for a full overwrite of the wide one loses bytes."""
    nm = Namer(fn)
    done = 0
    cands = [(b, i) for b in blocks_of(fn) for i in b[2:]
             if i[0] in ("store", "vstore") and isinstance(i[1], str) and i[1] in NARROWER and i[2].startswith("%")]
    rng.shuffle(cands)
    for b, st in cands:
        if done >= count:
            break
        k = next(k for k in range(2, len(b)) if b[k] is st)
        n = rng.choice(NARROWER[st[1]])
        c = nm.val("pn")
        new = [["cast", "%" + c, n, st[2]], [rng.choice(["store", "store", "vstore"]), n, "%" + c, st[3]]]
        if rng.random() < 0.7:
            b[k + 1:k + 1] = new          # wide, then narrow
        else:
            b[k:k] = new                  # narrow, then wide
        done += 1
    return done


def pess_expose(rng, mod, fn, count):
    """the final bytes of a stack slot become observable: a fresh global receives a copy of the slot right before
    every return of the function"""
    nm = Namer(fn)
    done = 0
    gnames = {v[1] for v in mod[3][1:]} | {f[1] for f in funcs_of(mod)} | {e[1] for e in mod[2][1:]}
    eb = _entry_block(fn)
    allocs = [i for i in eb[2:] if i[0] == "alloc"]
    rng.shuffle(allocs)
    for al in allocs:
        if done >= count:
            break
        a = al[1]
        ad = next((i for i in eb[2:] if i[0] == "addrof" and i[2] == a), None)
        if ad is None:
            ad = ["addrof", "%" + nm.val("pq"), a]
            eb.insert(next(k for k in range(2, len(eb)) if eb[k] is al) + 1, ad)
        g = f"pdump_{fn[1]}_{done}"
        while g in gnames:
            g += "x"
        gnames.add(g)
        mod[3].append(["var", g, "global", al[2], al[3]])
        for b in blocks_of(fn):
            if len(b) > 2 and b[-1][0] in ("ret", "exit"):
                b.insert(len(b) - 1, ["copyblob", "@" + g, ad[1], al[2]])
        done += 1
    return done


def pessimize(rng, mod, addzero=3, cjump=2, demote=2, demote_phi=1, constexpr=3, punstore=2, expose=1, twin=2):
    """in place; returns counts"""
    counts = {"addzero": 0, "cjump": 0, "demote": 0, "demote_phi": 0, "constexpr": 0, "punstore": 0, "expose": 0, "twin": 0}
    for fn in funcs_of(mod):
        if expose:
            counts["expose"] += pess_expose(rng, mod, fn, rng.randint(0, expose))

        if demote_phi:
            counts["demote_phi"] += pess_demote_phi(rng, fn, rng.randint(0, demote_phi))
        if demote:
            counts["demote"] += pess_demote(rng, fn, rng.randint(0, demote))
        if punstore:
            counts["punstore"] += pess_punstore(rng, fn, rng.randint(0, punstore))
        if cjump:
            counts["cjump"] += pess_cjump(rng, fn, rng.randint(0, cjump))
        if constexpr:
            counts["constexpr"] += pess_constexpr(rng, fn, rng.randint(0, constexpr))
        if twin:
            counts["twin"] += pess_twin(rng, fn, rng.randint(0, twin))
        if addzero:
            counts["addzero"] += pess_addzero(rng, fn, rng.randint(0, addzero))
    return counts
