import argparse
import importlib
import os
import sys
from pathlib import Path

sys.path.insert(0, str(Path(__file__).resolve().parent.parent))
from harness import common  # noqa: E402


def main():
    ap = argparse.ArgumentParser()
    ap.add_argument("prop")
    ap.add_argument("--tier", default=os.environ.get("VERIF_TIER", "quick"), choices=["quick", "thorough"])
    ap.add_argument("--replay")
    a = ap.parse_args()
    seed = int(os.environ.get("VERIF_SEED", "0"))
    mod = importlib.import_module("harness." + a.prop.lower())
    sys.exit(common.run(mod, a.tier, seed, a.replay))


main()
