"""C01 statement-level search for assignment operators and ++/-- on lvalues WITH side effects (no theorem covers them).

Generated functions are UB-free and sequence-point-respecting by construction:
  * every assignment operator (= += -= *= /= %= <<= >>= &= |= ^=) and pre/post ++/-- is applied to lvalues whose
    designation has a side effect or a call: `a[(i++) % 8u]`, `a[ext(e) % 8u]`, `*p++ *++p *p-- *--p`, `gets(e)->f`
    (struct member through a pointer returned by a call that counts its calls in a global), and to plain lvalues;
  * as statements, as values (`x = (L op= r)`, `x = L++`), under the comma operator, inside `for` and `if`;
  * the right operand never mentions an object the lvalue's designation modifies, and never calls when the lvalue calls
    (so no unsequenced modification and no unspecified call order is observable);
  * unsigned arithmetic wraps; signed element types only see small values; divisors are `| 1`, shift counts masked.
Observed: return value, the bytes of ALL globals, and the SEQUENCE of calls of the external function `ext`
(declared `extern`, supplied as a recording callback).  Reference: `Interp`, an independent evaluator of the generated
abstract program with C semantics (in the thorough tier gcc -fsanitize=undefined must agree with it, else broken check).
Static check on the emitted IR: every call written once in the source is emitted exactly once.
"""
import io
import os
import subprocess
import tempfile

M32 = (1 << 32) - 1
UOPS = ["", "+", "-", "*", "/", "%", "<<", ">>", "&", "|", "^"]
SOPS = ["", "+", "-", "&", "|", "^", "/", "%", ">>"]

PRELUDE = """extern unsigned int ext(unsigned int);
unsigned int a[8] = {3u, 1u, 4u, 1u, 5u, 9u, 2u, 6u};
int sa[8] = {5, -3, 17, -40, 2, 0, -1, 33};
unsigned int b[8] = {10u, 20u, 30u, 40u, 50u, 60u, 70u, 80u};
struct S { unsigned int f; int g; };
struct S ss[2] = {{7u, -7}, {1000u, 12}};
unsigned int cnt = 0u;
long acc = 0;
static struct S *gets(unsigned int k) { cnt++; return &ss[k % 2u]; }
"""
GLOBALS0 = {"a": [3, 1, 4, 1, 5, 9, 2, 6], "sa": [5, -3, 17, -40, 2, 0, -1, 33], "b": [10, 20, 30, 40, 50, 60, 70, 80],
            "ss": [[7, -7], [1000, 12]], "cnt": 0, "acc": 0}


def ext_oracle(x):
    return (13 + 2 * x) & M32          # = harness.irrun.oracle(u32, [x]) and the Spec.IR driver's oracle


def s32(v):
    v &= M32
    return v - (1 << 32) if v >> 31 else v


def tdiv(x, y):
    q = abs(x) // abs(y)
    return q if (x < 0) == (y < 0) else -q


# ---------------------------------------------------------------------------------------------
# generation

class Gen:
    def __init__(self, rng):
        self.r = rng
        self.poff = 3          # p = &b[3]
        self.ncalls = 0        # syntactic calls of ext / gets in the function being generated
        self.ngets = 0

    # expressions of type unsigned int without side effects other than calls
    def expr(self, depth, calls=True):
        r = self.r
        x = r.random()
        if depth <= 0 or x < 0.3:
            y = r.random()
            if y < 0.45:
                return ("v", r.choice(["x", "y", "k"]))
            if y < 0.8:
                return ("k", r.choice([0, 1, 2, 3, 5, 7, 10, 100, 255, 256, 65535, 1000003, 4294967295]))
            return ("ga", r.choice(["a", "sa", "b"]), self.expr(0, False))
        if calls and x < 0.38:
            self.ncalls += 1
            return ("call", self.expr(depth - 1, False))
        op = r.choice(["+", "-", "*", "&", "|", "^", "/", "<<", ">>", "<", "=="])
        # the operands of a binary operator are unsequenced: at most ONE of them may contain a call
        left = calls and r.random() < 0.5
        return ("b", op, self.expr(depth - 1, left), self.expr(depth - 1, calls and not left))

    def lvalue(self, top):
        """-> (lvalue, element type 'u'|'s', has_call)"""
        r = self.r
        x = r.random()
        if x < 0.30:
            arr = r.choice(["a", "sa", "b"])
            form = r.choice([("post", 1), ("post", -1), ("pre", 1), ("pre", -1)])
            return ("L_arr", arr, form), ("s" if arr == "sa" else "u"), False
        if x < 0.50:
            arr = r.choice(["a", "sa"])
            self.ncalls += 1
            return ("L_arr", arr, ("call", self.expr(1, False))), ("s" if arr == "sa" else "u"), True
        if x < 0.66 and top:
            forms = []
            if self.poff + 1 <= 6:
                forms += ["p++", "++p"]
            if self.poff - 1 >= 1:
                forms += ["p--", "--p"]
            f = r.choice(forms + ["p"])
            self.poff += {"p++": 1, "++p": 1, "p--": -1, "--p": -1, "p": 0}[f]
            return ("L_ptr", f), "u", False
        if x < 0.84:
            self.ngets += 1
            fld = r.choice(["f", "g"])
            return ("L_mem", self.expr(1, False), fld), ("s" if fld == "g" else "u"), True
        if x < 0.92:
            return ("L_var", "y"), "u", False
        arr = r.choice(["a", "sa"])
        return ("L_arr", arr, ("pure", self.expr(1, False))), ("s" if arr == "sa" else "u"), False

    def assign(self, top):
        """-> ("asgv", L, ty, op, rhs) | ("incv", L, ty, kind, d)"""
        r = self.r
        L, ty, has_call = self.lvalue(top)
        if r.random() < 0.25:
            return ("incv", L, ty, r.choice(["post", "pre"]), r.choice([1, -1]))
        op = r.choice(UOPS if ty == "u" else SOPS)
        return ("asgv", L, ty, op, self.expr(2, calls=not has_call))

    def stmts(self, depth, top):
        r = self.r
        out = []
        for _ in range(r.randint(2, 5) if top else r.randint(1, 3)):
            x = r.random()
            if x < 0.42 or depth <= 0 and x < 0.8:
                out.append(("do", self.assign(top)))
            elif x < 0.55:
                out.append(("set", "x", self.assign(top)))
            elif x < 0.63:
                out.append(("set", "x", ("comma", self.assign(top), self.expr(1))))
            elif x < 0.70:
                out.append(("acc", self.assign(top)))
            elif x < 0.76:
                out.append(("set", r.choice(["x", "y"]), ("e", self.expr(2))))
            elif x < 0.80:
                out.append(("set", "x", ("e", ("v", "i"))))
            elif x < 0.90 and depth > 0:
                out.append(("for", r.randint(1, 4), self.stmts(depth - 1, False)))
            elif depth > 0:
                out.append(("if", self.expr(1, False), self.stmts(depth - 1, False), self.stmts(depth - 1, False)))
            else:
                out.append(("do", self.assign(top)))
        return out

    def function(self):
        self.poff = 3
        self.ncalls = 0
        self.ngets = 0
        body = self.stmts(2, True)
        return {"body": body, "ncalls": self.ncalls, "ngets": self.ngets}


# ---------------------------------------------------------------------------------------------
# C text

def c_expr(e):
    k = e[0]
    if k == "k":
        return f"{e[1]}u"
    if k == "v":
        return e[1]
    if k == "ga":
        t = f"{e[1]}[({c_expr(e[2])}) % 8u]"
        return f"((unsigned int){t})" if e[1] == "sa" else t
    if k == "call":
        return f"ext({c_expr(e[1])})"
    op, x, y = e[1], c_expr(e[2]), c_expr(e[3])
    if op == "/":
        return f"({x} / ({y} | 1u))"
    if op in ("<<", ">>"):
        return f"({x} {op} ({y} & 15u))"
    if op in ("<", "=="):
        return f"((unsigned int)({x} {op} {y}))"
    return f"({x} {op} {y})"


def c_lvalue(L):
    k = L[0]
    if k == "L_var":
        return L[1]
    if k == "L_ptr":
        return {"p++": "*p++", "++p": "*++p", "p--": "*p--", "--p": "*--p", "p": "*p"}[L[1]]
    if k == "L_mem":
        return f"gets({c_expr(L[1])})->{L[2]}"
    arr, form = L[1], L[2]
    if form[0] == "post":
        idx = "i++" if form[1] == 1 else "i--"
    elif form[0] == "pre":
        idx = "++i" if form[1] == 1 else "--i"
    elif form[0] == "call":
        idx = f"ext({c_expr(form[1])})"
    else:
        idx = c_expr(form[1])
    return f"{arr}[({idx}) % 8u]"


def c_rhs(ty, op, rhs):
    e = c_expr(rhs)
    if ty == "u":
        if op in ("/", "%"):
            return f"({e} | 1u)"
        if op in ("<<", ">>"):
            return f"({e} & 15u)"
        return e
    if op == "":
        return f"((int)({e} & 1023u) - 512)"
    if op in ("/", "%"):
        return f"((int)({e} & 255u) | 1)"
    if op == ">>":
        return f"((int)({e} & 7u))"
    return f"((int)({e} & 255u))"


def c_assign(a):
    if a[0] == "incv":
        _, L, ty, kind, d = a
        s = "++" if d == 1 else "--"
        return f"({c_lvalue(L)}){s}" if kind == "post" else f"{s}({c_lvalue(L)})"
    _, L, ty, op, rhs = a
    return f"{c_lvalue(L)} {op}= {c_rhs(ty, op, rhs)}"


def c_stmts(ss, ind, depth=0):
    out = []
    for s in ss:
        k = s[0]
        if k == "do":
            out.append(f"{ind}{c_assign(s[1])};")
        elif k == "set":
            v = s[2]
            if v[0] == "e":
                out.append(f"{ind}{s[1]} = {c_expr(v[1])};")
            elif v[0] == "comma":
                out.append(f"{ind}{s[1]} = ({c_assign(v[1])}, {c_expr(v[2])});")
            else:
                out.append(f"{ind}{s[1]} = (unsigned int)({c_assign(v)});")
        elif k == "acc":
            out.append(f"{ind}acc += (long)({c_assign(s[1])});")
        elif k == "for":
            n = f"n{depth}"
            out.append(f"{ind}for ({n} = 0; {n} < {s[1]}; {n}++) {{")
            out += c_stmts(s[2], ind + "  ", depth + 1)
            out.append(f"{ind}}}")
        elif k == "if":
            out.append(f"{ind}if ({c_expr(s[1])}) {{")
            out += c_stmts(s[2], ind + "  ", depth + 1)
            out.append(f"{ind}}} else {{")
            out += c_stmts(s[3], ind + "  ", depth + 1)
            out.append(f"{ind}}}")
    return out


def c_function(name, f):
    lines = [f"unsigned int {name}(unsigned int k) {{", "  unsigned int x = 1u, y = 2u, i = 1u;", "  unsigned int *p = &b[3];",
             "  int n0, n1, n2;", "  n0 = n1 = n2 = 0;"]
    lines += c_stmts(f["body"], "  ")
    lines.append("  return x ^ (y * 3u) ^ (i * 5u) ^ *p;")
    lines.append("}")
    return "\n".join(lines)


# ---------------------------------------------------------------------------------------------
# the reference evaluator (independent of ppci)

class Interp:
    def __init__(self, k):
        self.v = {"x": 1, "y": 2, "i": 1, "k": k & M32}
        self.p = 3
        self.g = {"a": list(GLOBALS0["a"]), "sa": list(GLOBALS0["sa"]), "b": list(GLOBALS0["b"]),
                  "ss": [list(r) for r in GLOBALS0["ss"]], "cnt": 0, "acc": 0}
        self.trace = []

    def ext(self, x):
        r = ext_oracle(x)
        self.trace.append(("ext", [x], r))
        return r

    def expr(self, e):
        k = e[0]
        if k == "k":
            return e[1] & M32
        if k == "v":
            return self.v[e[1]]
        if k == "ga":
            j = self.expr(e[2]) % 8
            return self.g[e[1]][j] & M32
        if k == "call":
            return self.ext(self.expr(e[1]))
        op = e[1]
        x = self.expr(e[2])
        y = self.expr(e[3])
        if op == "+":
            return (x + y) & M32
        if op == "-":
            return (x - y) & M32
        if op == "*":
            return (x * y) & M32
        if op == "&":
            return x & y
        if op == "|":
            return x | y
        if op == "^":
            return x ^ y
        if op == "/":
            return x // (y | 1)
        if op == "<<":
            return (x << (y & 15)) & M32
        if op == ">>":
            return x >> (y & 15)
        if op == "<":
            return int(x < y)
        return int(x == y)

    def place(self, L):
        """evaluate the designation ONCE: -> (getter, setter)"""
        k = L[0]
        if k == "L_var":
            n = L[1]
            return (lambda: self.v[n]), (lambda val: self.v.__setitem__(n, val))
        if k == "L_ptr":
            f = L[1]
            if f == "++p":
                self.p += 1
            elif f == "--p":
                self.p -= 1
            j = self.p
            if f == "p++":
                self.p += 1
            elif f == "p--":
                self.p -= 1
            assert 0 <= j < 8 and 0 <= self.p < 8
            return (lambda: self.g["b"][j]), (lambda val: self.g["b"].__setitem__(j, val))
        if k == "L_mem":
            kk = self.expr(L[1])
            self.g["cnt"] = (self.g["cnt"] + 1) & M32
            row = self.g["ss"][kk % 2]
            c = 0 if L[2] == "f" else 1
            return (lambda: row[c]), (lambda val: row.__setitem__(c, val))
        arr, form = L[1], L[2]
        if form[0] == "post":
            idx = self.v["i"]
            self.v["i"] = (idx + form[1]) & M32
        elif form[0] == "pre":
            self.v["i"] = (self.v["i"] + form[1]) & M32
            idx = self.v["i"]
        elif form[0] == "call":
            idx = self.ext(self.expr(form[1]))
        else:
            idx = self.expr(form[1])
        j = idx % 8
        return (lambda: self.g[arr][j]), (lambda val: self.g[arr].__setitem__(j, val))

    def rhs(self, ty, op, rhs):
        e = self.expr(rhs)
        if ty == "u":
            if op in ("/", "%"):
                return e | 1
            if op in ("<<", ">>"):
                return e & 15
            return e
        if op == "":
            return (e & 1023) - 512
        if op in ("/", "%"):
            return (e & 255) | 1
        if op == ">>":
            return e & 7
        return e & 255

    def assign(self, a):
        """-> value of the expression (typed: unsigned in 0..2^32-1, signed as a Python int)"""
        if a[0] == "incv":
            _, L, ty, kind, d = a
            get, put = self.place(L)
            old = get()
            new = (old + d) & M32 if ty == "u" else old + d
            put(new)
            return old if kind == "post" else new
        _, L, ty, op, rhs = a
        get, put = self.place(L)
        r = self.rhs(ty, op, rhs)
        if op == "":
            new = r
        else:
            old = get()
            if ty == "u":
                new = {"+": lambda: old + r, "-": lambda: old - r, "*": lambda: old * r, "/": lambda: old // r,
                       "%": lambda: old % r, "<<": lambda: old << r, ">>": lambda: old >> r, "&": lambda: old & r,
                       "|": lambda: old | r, "^": lambda: old ^ r}[op]() & M32
            else:
                new = {"+": lambda: old + r, "-": lambda: old - r, "/": lambda: tdiv(old, r),
                       "%": lambda: old - r * tdiv(old, r), ">>": lambda: old >> r, "&": lambda: old & r,
                       "|": lambda: old | r, "^": lambda: old ^ r}[op]()
                assert -(1 << 31) <= new < (1 << 31)
        if ty == "u":
            new &= M32
        put(new)
        return new

    def run(self, ss):
        for s in ss:
            k = s[0]
            if k == "do":
                self.assign(s[1])
            elif k == "set":
                v = s[2]
                if v[0] == "e":
                    self.v[s[1]] = self.expr(v[1])
                elif v[0] == "comma":
                    self.assign(v[1])
                    self.v[s[1]] = self.expr(v[2])
                else:
                    self.v[s[1]] = self.assign(v) & M32
            elif k == "acc":
                val = self.assign(s[1])
                self.g["acc"] += val
            elif k == "for":
                for _ in range(s[1]):
                    self.run(s[2])
            elif k == "if":
                self.run(s[2] if self.expr(s[1]) else s[3])

    def result(self, f):
        self.run(f["body"])
        ret = (self.v["x"] ^ (self.v["y"] * 3) ^ (self.v["i"] * 5) ^ self.g["b"][self.p]) & M32
        return ret

    def global_bytes(self):
        def u32s(xs):
            return b"".join((x & M32).to_bytes(4, "little") for x in xs)
        return {"a": u32s(self.g["a"]), "sa": u32s(self.g["sa"]), "b": u32s(self.g["b"]),
                "ss": b"".join(u32s(r) for r in self.g["ss"]), "cnt": u32s([self.g["cnt"]]),
                "acc": (self.g["acc"] & ((1 << 64) - 1)).to_bytes(8, "little")}


def expected(f, k, var_order):
    """canonical result string (the format of harness.irrun.canon) predicted by the reference evaluator"""
    it = Interp(k)
    ret = it.result(f)
    gb = it.global_bytes()
    g = ",".join(f"{n}={gb[n].hex()}" for n in var_order)
    t = ";".join(f"{n}({','.join(str(a) for a in args)})={r}" for n, args, r in it.trace) or "-"
    return f"ret={ret} globals={g} trace={t}"


# ---------------------------------------------------------------------------------------------
# the real front-end

def run_ppci(src, names, ks):
    """compile with the REAL front-end, run by ir_to_python with `ext` as a recording callback.
    -> {"error": …} | {"order": [global names], "rows": {name: [canonical strings]}, "calls": {name: {callee: count}}, "irtext"}"""
    from . import c01_lib as L, irgen, irrun, irser
    from ppci import ir
    try:
        module, cap = L.compile_capture(src)
    except Exception as e:  # noqa
        return {"error": f"{type(e).__name__}: {str(getattr(e, 'msg', e))[:300]}"}
    module.debug_db = None
    fs = {f.name: f for f in module.functions}
    entries = {n: irgen.Entry(n, [a.ty for a in fs[n].arguments], fs[n].return_ty, True) for n in names}
    exts = [(e.name, list(e.argument_types), getattr(e, "return_ty", None)) for e in module.externals
            if isinstance(e, ir.ExternalSubRoutine)]
    gen = irgen.Generated(module, list(entries.values()), exts)
    calls = {}
    for n in names:
        c = {}
        for blk in fs[n].blocks:
            for ins in blk:
                if isinstance(ins, (ir.FunctionCall, ir.ProcedureCall)):
                    cn = getattr(ins.callee, "name", "?")
                    c[cn] = c.get(cn, 0) + 1
        calls[n] = c
    try:
        runner = irrun.Ir2Py(gen)
    except Exception as e:  # noqa
        return {"error": f"ir_to_python: {type(e).__name__}: {e}"[:300]}
    rows = {n: [runner.run(entries[n], [k]) for k in ks[n]] for n in names}
    try:
        irtext = irser.serialize(module)
    except Exception:  # noqa
        irtext = None
    return {"order": [v.name for v in module.variables], "rows": rows, "calls": calls, "irtext": irtext}


def run_gcc(src, names, ks, workdir="/tmp"):
    """{name: [canonical strings]} from gcc -fsanitize=undefined ('UB' when the sanitizer complained)"""
    order = ["a", "sa", "b", "ss", "cnt", "acc"]
    lines = ["#include <stdio.h>", "#include <string.h>",
             "static char tr[65536]; static int tn;",
             "unsigned int ext(unsigned int x) { unsigned int r = 13u + 2u * x; tn += sprintf(tr + tn, \"%sext(%u)=%u\", tn ? \";\" : \"\", x, r); return r; }",
             src,
             "static unsigned int a0[8], b0[8], cnt0; static int sa0[8]; static struct S ss0[2]; static long acc0;",
             "static void hex(const void *q, int n) { const unsigned char *c = q; int j; for (j = 0; j < n; j++) printf(\"%02x\", c[j]); }",
             "static void show(unsigned int r) { printf(\"ret=%u globals=a=\", r); hex(a, sizeof a); printf(\",sa=\"); hex(sa, sizeof sa); "
             "printf(\",b=\"); hex(b, sizeof b); printf(\",ss=\"); hex(ss, sizeof ss); printf(\",cnt=\"); hex(&cnt, sizeof cnt); "
             "printf(\",acc=\"); hex(&acc, sizeof acc); printf(\" trace=%s\\n\", tn ? tr : \"-\"); }",
             "static void reset(void) { memcpy(a, a0, sizeof a); memcpy(sa, sa0, sizeof sa); memcpy(b, b0, sizeof b); memcpy(ss, ss0, sizeof ss); "
             "cnt = cnt0; acc = acc0; tn = 0; tr[0] = 0; }",
             "int main(void) {",
             "  memcpy(a0, a, sizeof a); memcpy(sa0, sa, sizeof sa); memcpy(b0, b, sizeof b); memcpy(ss0, ss, sizeof ss); cnt0 = cnt; acc0 = acc;"]
    for n in names:
        for j, k in enumerate(ks[n]):
            lines.append(f"  reset(); fflush(stdout); fprintf(stderr, \"@ {n} {j}\\n\"); printf(\"{n} {j} \"); show({n}({k}u));")
    lines.append("  return 0; }")
    d = tempfile.mkdtemp(prefix="c01stmt", dir=workdir)
    try:
        p = os.path.join(d, "t.c")
        with open(p, "w") as f:
            f.write("\n".join(lines) + "\n")
        r = subprocess.run(["gcc", "-std=gnu11", "-w", "-O0", "-fsanitize=undefined", "-o", os.path.join(d, "t"), p],
                           capture_output=True, text=True)
        if r.returncode != 0:
            return None, r.stderr[-1500:]
        q = subprocess.run([os.path.join(d, "t")], capture_output=True, text=True, timeout=300)
        ub, cur = set(), None
        for line in q.stderr.splitlines():
            if line.startswith("@ "):
                w = line.split()
                cur = (w[1], int(w[2]))
            elif "runtime error" in line and cur is not None:
                ub.add(cur)
        out = {n: [None] * len(ks[n]) for n in names}
        for line in q.stdout.splitlines():
            w = line.split(" ", 2)
            if len(w) == 3 and w[0] in out:
                out[w[0]][int(w[1])] = "UB" if (w[0], int(w[1])) in ub else w[2]
        return (out, order), ""
    finally:
        for fn in os.listdir(d):
            os.unlink(os.path.join(d, fn))
        os.rmdir(d)


# a fixed corpus that always runs first: one function per (lvalue form x operator family)
def corpus_functions():
    K = ("k", 3)
    X = ("v", "x")
    fs = []

    def fn(*stmts):
        calls = sum(str(s).count("'call'") for s in stmts)
        gets_ = sum(str(s).count("'L_mem'") for s in stmts)
        fs.append({"body": list(stmts), "ncalls": calls, "ngets": gets_})
    for op in UOPS:
        fn(("do", ("asgv", ("L_arr", "a", ("post", 1)), "u", op, ("v", "k"))),
           ("do", ("asgv", ("L_arr", "a", ("call", ("v", "k"))), "u", op, ("k", 3))),
           ("do", ("asgv", ("L_ptr", "p++"), "u", op, ("k", 255))),
           ("do", ("asgv", ("L_mem", ("v", "k"), "f"), "u", op, ("k", 7))),
           ("set", "x", ("asgv", ("L_ptr", "--p"), "u", op, ("v", "k"))))
    for op in SOPS:
        fn(("do", ("asgv", ("L_arr", "sa", ("pre", -1)), "s", op, ("v", "k"))),
           ("do", ("asgv", ("L_arr", "sa", ("call", K)), "s", op, X)),
           ("acc", ("asgv", ("L_mem", ("v", "k"), "g"), "s", op, ("k", 77))))
    for kind in ("post", "pre"):
        for d in (1, -1):
            fn(("do", ("incv", ("L_arr", "a", ("post", 1)), "u", kind, d)),
               ("set", "x", ("incv", ("L_arr", "sa", ("call", ("v", "k"))), "s", kind, d)),
               ("do", ("incv", ("L_ptr", "p++"), "u", kind, d)),
               ("acc", ("incv", ("L_mem", ("k", 1), "g"), "s", kind, d)),
               ("set", "x", ("comma", ("incv", ("L_ptr", "p--"), "u", kind, d), ("call", ("v", "x")))))
    fn(("for", 3, [("do", ("asgv", ("L_arr", "a", ("post", 1)), "u", "+", ("v", "k"))),
                   ("do", ("asgv", ("L_arr", "b", ("call", ("v", "y"))), "u", "^", ("k", 255))),
                   ("set", "y", ("e", ("b", "+", ("v", "y"), ("k", 1))))]))
    return fs


# ---------------------------------------------------------------------------------------------
# emitted-code correspondence for assignments: the ORDER and MULTIPLICITY of loads, stores and calls
# (Model.CAssign.events through the driver) against the event sequence of the REAL emitted function

VAR_NUM = {"k": 0, "x": 1, "y": 2, "i": 3, "p": 4}
CALLEE_NUM = {"ext": 0, "gets": 1}


def ev_expr(e):
    k = e[0]
    if k == "k":
        return "c"
    if k == "v":
        return f"lv V {VAR_NUM[e[1]]}"
    if k == "ga":
        return f"lv I bin {ev_expr(e[2])} c"
    if k == "call":
        return f"call 0 {ev_expr(e[1])}"
    return f"bin {ev_expr(e[2])} {ev_expr(e[3])}"


def ev_lvalue(L):
    k = L[0]
    if k == "L_var":
        return f"V {VAR_NUM[L[1]]}"
    if k == "L_ptr":
        return "D lv V 4" if L[1] == "p" else "D inc V 4"
    if k == "L_mem":
        return f"M call 1 {ev_expr(L[1])}"
    form = L[2]
    if form[0] in ("post", "pre"):
        idx = "inc V 3"
    elif form[0] == "call":
        idx = f"call 0 {ev_expr(form[1])}"
    else:
        idx = ev_expr(form[1])
    return f"I bin {idx} c"


def ev_assign(a):
    if a[0] == "incv":
        return f"inc {ev_lvalue(a[1])}"
    _, L, ty, op, rhs = a
    return f"{'asg' if op == '' else 'casg'} {ev_lvalue(L)} {ev_expr(rhs)}"


def ev_stmt(s):
    k = s[0]
    if k == "do":
        return ev_assign(s[1])
    if k == "acc":
        return f"casg D c {ev_assign(s[1])}"
    v = s[2]
    n = VAR_NUM[s[1]]
    if v[0] == "e":
        return f"asg V {n} {ev_expr(v[1])}"
    if v[0] == "comma":
        return f"asg V {n} comma {ev_assign(v[1])} {ev_expr(v[2])}"
    return f"asg V {n} {ev_assign(v)}"


def family(full):
    """[(label, statement)]: every assignment operator and ++/-- on every lvalue form (statement context);
    full: also as a value, under the comma operator and as the operand of `acc +=`"""
    lvs = []
    for arr in ("a", "sa", "b"):
        ty = "s" if arr == "sa" else "u"
        for form in (("post", 1), ("post", -1), ("pre", 1), ("pre", -1), ("call", ("v", "k")), ("pure", ("b", "+", ("v", "x"), ("k", 3)))):
            lvs.append((f"{arr}[{form[0]}{form[1] if form[0] in ('post', 'pre') else ''}]", ("L_arr", arr, form), ty, form[0] == "call"))
    for f in ("p++", "++p", "p--", "--p", "p"):
        lvs.append((f"*{f}", ("L_ptr", f), "u", False))
    lvs.append(("gets()->f", ("L_mem", ("b", "^", ("v", "k"), ("v", "y")), "f"), "u", True))
    lvs.append(("gets()->g", ("L_mem", ("v", "k"), "g"), "s", True))
    lvs.append(("y", ("L_var", "y"), "u", False))
    rhs_plain = ("b", "+", ("ga", "a", ("v", "x")), ("b", "*", ("v", "k"), ("k", 3)))
    rhs_call = ("b", "^", ("call", ("v", "x")), ("v", "k"))
    out = []
    for name, L, ty, has_call in lvs:
        for op in (UOPS if ty == "u" else SOPS):
            out.append((f"{name} {op}=", ("do", ("asgv", L, ty, op, rhs_plain))))
            if not has_call and op in ("", "+", "<<", "/"):
                out.append((f"{name} {op}= call", ("do", ("asgv", L, ty, op, rhs_call))))
        for kind in ("post", "pre"):
            for d in (1, -1):
                out.append((f"{name} {kind}{d}", ("do", ("incv", L, ty, kind, d))))
        if full:
            for op in ("", "+", "^"):
                a = ("asgv", L, ty, op, rhs_plain)
                out.append((f"x = ({name} {op}=)", ("set", "x", a)))
                out.append((f"x = ({name} {op}=, e)", ("set", "x", ("comma", a, rhs_call))))
                out.append((f"acc += ({name} {op}=)", ("acc", a)))
            out.append((f"x = {name}++", ("set", "x", ("incv", L, ty, "post", 1))))
            out.append((f"acc += --{name}", ("acc", ("incv", L, ty, "pre", -1))))
    return out


EV_PRELUDE = PRELUDE + "extern void mark(void);\n"


def family_function(name, stmt):
    return (f"unsigned int {name}(unsigned int k) {{ unsigned int x = 1u, y = 2u, i = 1u; unsigned int *p = &b[3]; mark();\n"
            + "\n".join(c_stmts([stmt], "  ")) + "\n  mark(); return x ^ y ^ i ^ *p; }")


def run_events(job):
    """worker: compile the family unit with the REAL front-end; per function the event sequence between the two
    `mark()` calls: ld<n>/st<n> (load/store of the n-th stack slot), ld*/st* (through another address), call<f>"""
    from . import c01_lib as L
    from ppci import ir
    try:
        module, cap = L.compile_capture(job["src"])
    except Exception as e:  # noqa
        return {"error": f"{type(e).__name__}: {str(getattr(e, 'msg', e))[:300]}"}
    out = {}
    for f in module.functions:
        if f.name not in job["names"]:
            continue
        slots, slot_addr = {}, {}
        for blk in f.blocks:
            for ins in blk:
                if isinstance(ins, ir.Alloc):
                    slots[ins] = len(slots)
                elif isinstance(ins, ir.AddressOf) and ins.src in slots:
                    slot_addr[ins] = slots[ins.src]
        evs, marks, branches = [], 0, 0
        for blk in f.blocks:
            for ins in blk:
                if isinstance(ins, (ir.FunctionCall, ir.ProcedureCall)):
                    cn = getattr(ins.callee, "name", "?")
                    if cn == "mark":
                        marks += 1
                        continue
                    if marks == 1:
                        evs.append(f"call{CALLEE_NUM.get(cn, 9)}")
                elif marks == 1 and isinstance(ins, ir.Load):
                    evs.append(f"ld{slot_addr[ins.address]}" if ins.address in slot_addr else "ld*")
                elif marks == 1 and isinstance(ins, ir.Store):
                    evs.append(f"st{slot_addr[ins.address]}" if ins.address in slot_addr else "st*")
                elif marks == 1 and isinstance(ins, ir.CJump):
                    branches += 1
        out[f.name] = " ".join(evs) if evs else "-"
        if marks != 2 or branches:
            out[f.name] = f"(not straight-line: marks={marks} branches={branches}) " + out[f.name]
    return {"events": out}


def written_effects(s):
    """(calls of ext, calls of gets, stores) WRITTEN in a statement of the family"""
    def ex(e):
        k = e[0]
        if k in ("k", "v"):
            return (0, 0, 0)
        if k == "ga":
            return ex(e[2])
        if k == "call":
            a = ex(e[1])
            return (a[0] + 1, a[1], a[2])
        a, b2 = ex(e[2]), ex(e[3])
        return (a[0] + b2[0], a[1] + b2[1], a[2] + b2[2])

    def lv(L):
        k = L[0]
        if k == "L_var":
            return (0, 0, 0)
        if k == "L_ptr":
            return (0, 0, 0 if L[1] == "p" else 1)
        if k == "L_mem":
            a = ex(L[1])
            return (a[0], a[1] + 1, a[2])
        form = L[2]
        if form[0] in ("post", "pre"):
            return (0, 0, 1)
        a = ex(form[1])
        return (a[0] + 1, a[1], a[2]) if form[0] == "call" else a

    def asg(a):
        l = lv(a[1])
        if a[0] == "incv":
            return (l[0], l[1], l[2] + 1)
        r = ex(a[4])
        return (l[0] + r[0], l[1] + r[1], l[2] + r[2] + 1)
    k = s[0]
    if k == "do":
        return asg(s[1])
    if k == "acc":
        a = asg(s[1])
        return (a[0], a[1], a[2] + 1)
    v = s[2]
    if v[0] == "e":
        a = ex(v[1])
    elif v[0] == "comma":
        a1, a2 = asg(v[1]), ex(v[2])
        a = (a1[0] + a2[0], a1[1] + a2[1], a1[2] + a2[2])
    else:
        a = asg(v)
    return (a[0], a[1], a[2] + 1)
