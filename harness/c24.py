"""C24 — IR→Python backend (ppci/lang/python/ir2py.py) executes IR semantics exactly.

regen : dumps the text the live generator emits for the runtime helpers, the struct format
        table and the statements of every (type, operator) binop / unop / cast into
        lean/PpciVerif/Gen/IrPyHelpers.lean (kernel-checked against the hand model).
check : (1) corpus + generated IR modules: the Python program ppci emits is executed and compared
            with Spec.IR (Lean driver `IR`) — the property on the real output;
        (2) the model's text emitter (`Model.IrPy.emitModule`, driver `C24`) must reproduce the real
            emitted text line by line — correspondence of the model;
        (3) the real emitted helper statements for every integer type × operator are executed on
            boundary / random operands (thorough: all 8-bit operand pairs) and compared with
            Spec.IRArith and with the model's `Plan.exec`; casts from ints and floats likewise.
"""
import io
import struct
import sys

from . import common

PROP = "C24"
LEAN_PROPS = "PpciVerif/Props/C24.lean"
LEAN_PROPS_EXTRA = ["PpciVerif/Props/C24T1.lean"]   # T1 translation tie of the emitted helpers (notes/T1.md)
LEAN_TARGETS = ["Drivers.C24", "Drivers.IR", "PpciVerif.Props.C24", "PpciVerif.Props.C24T1"]
CHECK_WITHOUT_BUILD = True      # the failing-input search does not need the theorems, only the drivers
LEVEL = "proof"
LEVEL_TEXT = (
    "Lean theorems about a hand model of ir2py (runtime helpers mirrored from the emitted text, which is re-dumped from the "
    "live generator on every run and compared in the kernel; dispatch of gen_binop/gen_cast/Unop as render+exec plans): for EVERY "
    "integer type, EVERY operator of ir.Binop except rol/ror, and ALL in-range operands the emitted statements compute exactly "
    "Spec.IRArith.binop whenever that is defined (wrap-around + - *, / % truncating toward zero, shifts, & | ^); rt.correct = wrap "
    "for all integers; unary - ~ and int→int casts = wrap; float→int cast of any finite double m·2^e = truncation toward zero then "
    "wrap, and Spec.IR's bit-level truncation equals that rational truncation; the phi assignment emitted for an edge equals "
    "Spec.IR's parallel phi assignment (block entry) for any phi set incl. swaps; struct-format load∘store is the identity on "
    "in-range values. PARTIAL: the block-dispatch loop, calls, alloca/free stack discipline, float arithmetic, ptr arithmetic "
    "(not wrapped by ir2py) and rol/ror (emitted as invalid Python) are not proved; they are covered only by the differential "
    "run of generated IR against Spec.IR.")
LEVEL_NOTE = (
    "trusted: Lean kernel; axioms propext/Classical.choice/Quot.sound; Python semantics of int // % << >> & | ^ ~ bit_length, "
    "int(float), tuple assignment, struct little-endian formats (modelled); model↔source tie = kernel-checked equality of the "
    "regenerated helper/dispatch tables + sampled line-by-line equality of the model's emitted text with the real output")
TECHNIQUE = ("Lean 4 proof over a hand model + table translation of the emitted helper text (decide) + differential "
             "correspondence (emitted Python vs Spec.IR reference semantics)")
RULE = ("programs = IR modules (3 corpus + G-IR generated, floats/indirect calls/swapped phis on) executed on boundary-biased argument "
        "vectors; eval_run = one execution compared with Spec.IR; eval_helper = one (type, op, a, b) evaluation of the real emitted "
        "helper statements; distinct non-trivial = (type, op, sign pattern / boundary class) for helpers and (module, function) for runs; "
        "thorough adds every operand pair of i8 and u8 for all 10 operators")
TRUSTED = [
    "hand model Model.IrPy of ppci/lang/python/ir2py.py; helper text and per-(type,op) emitted statements tied by Gen.IrPyHelpers (regen + decide), whole-module text by sampling",
    "Spec.IR / Spec.IRArith reference semantics (validated against ir2py and native x86-64 execution, notes/IR.md)",
    "harness/irser.py (structural serialiser) and harness/irgen.py (generator)",
]
ASSUMPTIONS = [
    "CPython int semantics: unbounded, // floors, % takes the sign of the divisor, >> floors, bit_length of |x|",
    "int(x) on a float truncates toward zero; round(x) rounds half to even; tuple assignment evaluates the right side first",
    "struct.pack/unpack native formats are little-endian two's complement on this host (x86-64)",
    "UB-free runs only: / % by zero, MIN/-1, shift counts outside 0..bits-1 and out-of-range float→int are excluded by the generator",
]

GEN = common.LEAN / "PpciVerif" / "Gen" / "IrPyHelpers.lean"


def _ppci():
    if str(common.REPO) not in sys.path:
        sys.path.insert(0, str(common.REPO))
    from ppci import ir
    from ppci.lang.python.ir2py import IrToPythonCompiler
    return ir, IrToPythonCompiler


def lean_str(s):
    return '"' + s.replace("\\", "\\\\").replace('"', '\\"') + '"'


def lean_list(items):
    return "[" + ", ".join(items) + "]"


OPNAME = {"+": "add", "-": "sub", "*": "mul", "/": "div", "%": "rem", "|": "or", "&": "and", "^": "xor",
          "<<": "shl", ">>": "shr", "rol": "rol", "ror": "ror"}
OPSYM = {v: k for k, v in OPNAME.items()}


def emitted(fn):
    """lines (right-stripped) a generator method writes"""
    ir, Gen = _ppci()
    f = io.StringIO()
    g = Gen(f, None)
    fn(g)
    ls = [l.rstrip() for l in f.getvalue().split("\n")]
    if ls and ls[-1] == "":
        ls.pop()
    return ls


def helper_lines():
    def go(g):
        g._level = 1
        g.generate_builtins()
    ls = emitted(go)
    # arithmetic helpers only: up to (not including) alloca
    k = next(i for i, l in enumerate(ls) if l.strip().startswith("def alloca"))
    return ls[:k]


def mem_formats():
    import re
    def go(g):
        g._level = 1
        g.generate_memory_builtins()
    out, cur = [], None
    for l in emitted(go):
        m = re.match(r"\s*def load_(\w+)\(self, address\):", l)
        if m:
            cur = m.group(1)
        m = re.match(r"\s*data = self.read_mem\(address, (\d+)\)", l)
        if m and cur:
            size = int(m.group(1))
        m = re.match(r'\s*return struct.unpack\("(\w)", data\)\[0\]', l)
        if m and cur:
            out.append((cur, m.group(1), size))
            cur = None
    return out


def all_types():
    ir, _ = _ppci()
    return [ir.i8, ir.i16, ir.i32, ir.i64, ir.u8, ir.u16, ir.u32, ir.u64, ir.ptr, ir.f32, ir.f64]


def binop_lines(ty, op):
    ir, _ = _ppci()
    a, b = ir.Parameter("a", ty), ir.Parameter("b", ty)
    ins = ir.Binop(a, op, b, "d", ty)
    return emitted(lambda g: g.gen_binop(ins))


def unop_lines(ty, op):
    ir, _ = _ppci()
    a = ir.Parameter("a", ty)
    ins = ir.Unop(op, a, "d", ty)
    return emitted(lambda g: g.generate_instruction(ins, None))


def cast_lines(ty):
    ir, _ = _ppci()
    a = ir.Parameter("a", ir.i64)
    ins = ir.Cast(a, "d", ty)
    return emitted(lambda g: g.gen_cast(ins))


def regen(ctx):
    ir, _ = _ppci()
    hl = helper_lines()
    mf = mem_formats()
    bins = [(t.name, OPNAME[op], binop_lines(t, op)) for t in all_types() for op in ir.Binop.ops]
    uns = [(t.name, {"-": "neg", "~": "not"}[op], unop_lines(t, op)) for t in all_types() for op in ir.Unop.ops]
    casts = [(t.name, cast_lines(t)) for t in all_types()]
    src = ["/- GENERATED by harness/c24.py regen(ctx) from the live ppci.lang.python.ir2py.IrToPythonCompiler — do not edit. -/",
           "namespace Gen.IrPyHelpers", "",
           "/-- text emitted by generate_builtins for correct/idiv/irem/ishl/ishr -/",
           "def lines : List String := " + lean_list([lean_str(l) for l in hl]), "",
           "/-- (type, struct format, size) of the emitted load_T/store_T helpers -/",
           "def memFormats : List (String × String × Nat) := "
           + lean_list([f"({lean_str(n)}, {lean_str(f)}, {s})" for n, f, s in mf]), "",
           "/-- statements emitted by gen_binop for `d = a op b` at every type -/",
           "def binopEmit : List (String × String × List String) := "
           + lean_list([f"({lean_str(t)}, {lean_str(o)}, {lean_list([lean_str(x) for x in ls])})" for t, o, ls in bins]), "",
           "def unopEmit : List (String × String × List String) := "
           + lean_list([f"({lean_str(t)}, {lean_str(o)}, {lean_list([lean_str(x) for x in ls])})" for t, o, ls in uns]), "",
           "def castEmit : List (String × List String) := "
           + lean_list([f"({lean_str(t)}, {lean_list([lean_str(x) for x in ls])})" for t, ls in casts]), "",
           "end Gen.IrPyHelpers", ""]
    txt = "\n".join(src)
    if not GEN.exists() or GEN.read_text() != txt:
        GEN.write_text(txt)
    # T1: py2lean translation of the emitted helper text into Gen/Py_ir2py_helpers.lean (harness/t1.py)
    from . import t1
    t1.regen(ctx, "ir2py_helpers")


# ---------------------------------------------------------------------------------------------
# corpus: minimal modules for past findings (always run first)

def corpus():
    ir, _ = _ppci()
    from . import irgen
    out = []
    # (1) float → int cast: (int)2.7 must be 2
    m = ir.Module("c24_cast")
    for rt in (ir.i32, ir.u8, ir.i64):
        f = ir.Function(f"f_{rt.name}", ir.Binding.GLOBAL, rt)
        m.add_function(f)
        b = ir.Block("entry")
        f.add_block(b)
        f.entry = b
        x = ir.Parameter("x", ir.f64)
        f.add_parameter(x)
        c = ir.Cast(x, "c", rt)
        b.add_instruction(c)
        b.add_instruction(ir.Return(c))
    ents = [irgen.Entry(f"f_{t.name}", [ir.f64], t, True) for t in (ir.i32, ir.u8, ir.i64)]
    vals = [2.7, -2.7, 2.5, 3.5, 0.5, -0.5, 1.5, -1.5, 255.9, 0.999999, -0.999999, 1e15 + 0.5, 100.0]
    cases = [(e, [v]) for e in ents for v in vals if not (e.ret is ir.u8 and (v < 0 and v <= -1 or v >= 256))]
    out.append((irgen.Generated(m, ents, []), cases))
    # (2) swapped loop phis, left through the conditional jump of the latch (phis live on the exit edge)
    m = ir.Module("c24_phi")
    f = ir.Function("f", ir.Binding.GLOBAL, ir.i32)
    m.add_function(f)
    e, L, E = ir.Block("entry"), ir.Block("L"), ir.Block("E")
    for blk in (e, L, E):
        f.add_block(blk)
    f.entry = e
    a, b = ir.Parameter("a", ir.i32), ir.Parameter("b", ir.i32)
    n = ir.Parameter("n", ir.i32)
    for p in (a, b, n):
        f.add_parameter(p)
    z = ir.Const(0, "z", ir.i32)
    e.add_instruction(z)
    e.add_instruction(ir.Jump(L))
    x, y, c = ir.Phi("x", ir.i32), ir.Phi("y", ir.i32), ir.Phi("c", ir.i32)
    for p in (x, y, c):
        L.add_instruction(p)
    one = ir.Const(1, "one", ir.i32)
    L.add_instruction(one)
    c1 = ir.Binop(c, "+", one, "c1", ir.i32)
    L.add_instruction(c1)
    x.set_incoming(e, a); x.set_incoming(L, y)
    y.set_incoming(e, b); y.set_incoming(L, x)
    c.set_incoming(e, z); c.set_incoming(L, c1)
    L.add_instruction(ir.CJump(c1, "<", n, L, E))
    E.add_instruction(ir.Return(x))
    ent = irgen.Entry("f", [ir.i32, ir.i32, ir.i32], ir.i32, True)
    out.append((irgen.Generated(m, [ent], []), [(ent, [5, 9, k]) for k in (0, 1, 2, 3, 4)]))
    # (3) a function as phi input, called through the phi
    m = ir.Module("c24_fptr")

    def mk(name, k):
        g = ir.Function(name, ir.Binding.GLOBAL, ir.i32)
        m.add_function(g)
        blk = ir.Block(name + "_b")
        g.add_block(blk)
        g.entry = blk
        p = ir.Parameter("p", ir.i32)
        g.add_parameter(p)
        cst = ir.Const(k, "k", ir.i32)
        blk.add_instruction(cst)
        r = ir.Binop(p, "+", cst, "r", ir.i32)
        blk.add_instruction(r)
        blk.add_instruction(ir.Return(r))
        return g
    g1, g2 = mk("g1", 10), mk("g2", 20)
    f = ir.Function("f", ir.Binding.GLOBAL, ir.i32)
    m.add_function(f)
    e, T, J = ir.Block("entry"), ir.Block("T"), ir.Block("J")
    for blk in (e, T, J):
        f.add_block(blk)
    f.entry = e
    a = ir.Parameter("a", ir.i32)
    f.add_parameter(a)
    z = ir.Const(0, "z", ir.i32)
    e.add_instruction(z)
    e.add_instruction(ir.CJump(a, ">", z, T, J))
    T.add_instruction(ir.Jump(J))
    fp = ir.Phi("fp", ir.ptr)
    J.add_instruction(fp)
    fp.set_incoming(e, g1)
    fp.set_incoming(T, g2)
    r = ir.FunctionCall(fp, [a], "r", ir.i32)
    J.add_instruction(r)
    J.add_instruction(ir.Return(r))
    ent = irgen.Entry("f", [ir.i32], ir.i32, True)
    out.append((irgen.Generated(m, [ent, irgen.Entry("g1", [ir.i32], ir.i32, True)], []),
                [(ent, [1]), (ent, [-1]), (ent, [0])]))
    # (4) open finding: rol / ror are emitted verbatim (`d = a rol b`), which is not Python
    m = ir.Module("c24_rol")
    f = ir.Function("f", ir.Binding.GLOBAL, ir.u8)
    m.add_function(f)
    blk = ir.Block("entry")
    f.add_block(blk)
    f.entry = blk
    a, b = ir.Parameter("a", ir.u8), ir.Parameter("b", ir.u8)
    f.add_parameter(a)
    f.add_parameter(b)
    r = ir.Binop(a, "rol", b, "r", ir.u8)
    blk.add_instruction(r)
    blk.add_instruction(ir.Return(r))
    ent = irgen.Entry("f", [ir.u8, ir.u8], ir.u8, True)
    out.append((irgen.Generated(m, [ent], []), [(ent, [129, 1])]))
    # (5) open finding: CopyBlob (struct assignment of the C front-end) is not implemented
    m = ir.Module("c24_copyblob")
    v1 = ir.Variable("src", ir.Binding.GLOBAL, 4, 4, value=bytes([1, 2, 3, 4]))
    v2 = ir.Variable("dst", ir.Binding.GLOBAL, 4, 4, value=None)
    m.add_variable(v1)
    m.add_variable(v2)
    f = ir.Procedure("f", ir.Binding.GLOBAL)
    m.add_function(f)
    blk = ir.Block("entry")
    f.add_block(blk)
    f.entry = blk
    blk.add_instruction(ir.CopyBlob(v2, v1, 4))
    blk.add_instruction(ir.Exit())
    ent = irgen.Entry("f", [], None, True)
    out.append((irgen.Generated(m, [ent], []), [(ent, [])]))
    return out


def generate_signature(exn):
    """signature of an exception raised while generating / compiling the Python text"""
    import re
    name = type(exn).__name__
    if isinstance(exn, SyntaxError):
        m = re.search(r" (rol|ror) ", exn.text or "")
        return f"ir2py:generate:SyntaxError:{m.group(1) if m else 'other'}"
    m = re.search(r"ppci\.ir\.(\w+)", str(exn))
    return f"ir2py:generate:{name}" + (f":{m.group(1)}" if m else "")


def gen_config():
    from . import irgen
    # everything ir2py can express: no CopyBlob / rol / ror (NotImplementedError / not Python); floats, indirect calls on
    return irgen.GenConfig(copyblob=False, floats=True, indirect_calls=True, undefined=True)


# ---------------------------------------------------------------------------------------------

def classify(ctx, gen, e, args, spec, real):
    """signature of a failing run: kind of the first instruction whose value differs (probe instrumentation)"""
    if real.startswith("exception"):
        return "ir2py:run:" + real.split()[1]
    return "ir2py:run:wrong-result"


def first_divergence(ctx, make_gen, ename, args):
    """re-run with probes after every integer value; return 'Kind[op]' of the first differing instruction"""
    ir, _ = _ppci()
    from . import irrun
    try:
        g = make_gen()
        table = irrun.instrument(g)
        e = [x for x in g.entries if x.name == ename][0]
        rep = ctx.driver("IR", irrun.spec_requests(g, [(e, args)], ptr=4))[-1]
        real = irrun.Ir2Py(g).run(e, args)
        if "trace=" not in rep or "trace=" not in real:
            return None
        ta = rep.split("trace=")[1].split(" steps=")[0].split(";")
        tb = real.split("trace=")[1].split(";")
        for x, y in zip(ta, tb):
            if x != y and x.startswith("probe("):
                desc = table[int(x[6:].split(",")[0])]
                txt = desc.split(": ", 1)[1]
                if " = phi " in txt:
                    return "Phi"
                if " = cast " in txt:
                    return "Cast"
                if " = load " in txt:
                    return "Load"
                if " = call " in txt:
                    return "Call"
                for sym in ("<<", ">>", "rol", "ror", "+", "-", "*", "/", "%", "|", "&", "^"):
                    if f" {sym} " in txt.split(" = ", 1)[1]:
                        return "Binop" + OPNAME[sym]
                return "Value"
    except Exception as ex:  # noqa
        ctx.note(f"first_divergence failed: {type(ex).__name__}: {ex}"[:200])
    return None


def expand_floats(lines):
    """model text → real text: `<float:bits>` placeholders become Python's str() of the float (gen_const)"""
    import math
    import re
    out = []
    for l in lines:
        m = re.search(r"<float:(\d+)>", l)
        if m:
            v = struct.unpack("<d", struct.pack("<Q", int(m.group(1))))[0]
            s = ("math.inf" if v > 0 else "-math.inf") if math.isinf(v) else str(v)
            l = l[:m.start()] + s + l[m.end():]
        out.append(l)
    return out


def real_module_text(module):
    ir, Gen = _ppci()
    f = io.StringIO()
    g = Gen(f, None)
    g.generate(module)
    return [l.rstrip() for l in f.getvalue().split("\n")][:-1]


def prepare_programs(ctx, items):
    """items: [(label, make_gen, cases_fn)] -> (IR driver lines, C24 `emit` lines, meta)"""
    from . import irrun, irser
    lines, meta, emit_lines = [], [], []
    for label, make_gen, cases_fn in items:
        g = make_gen()
        cases = cases_fn(g)
        text = irser.serialize(g.module)
        ls = irrun.spec_requests(g, cases, ptr=4, text=text)
        meta.append((label, make_gen, g, cases, len(lines), len(ls)))
        lines += ls
        emit_lines.append("emit " + text)
    return lines, emit_lines, meta


def process_programs(ctx, meta, rep, model_txt):
    """executes each module really, compares with Spec.IR's replies `rep` and the model's text `model_txt`"""
    from . import irrun, irser
    for (label, make_gen, g, cases, start, n), mt in zip(meta, model_txt):
        r = rep[start:start + n]
        load, wf, runs = r[1], r[2], r[3:]
        ctx.count("programs")
        if not load.startswith("ok") or wf != "ok 1":
            ctx.disagree("generated module is not well-formed for Spec.IR", label, "verify_module ok", f"{load} / {wf}")
            continue
        # --- model text vs real text
        try:
            real_txt = real_module_text(g.module)
            real_err = None
        except Exception as ex:  # noqa
            real_txt, real_err = None, type(ex).__name__
        if mt is not None:
            if mt.startswith("ok "):
                ml = expand_floats(mt[3:].split("\t"))
                ctx.count("eval_emit")
                if real_txt is None:
                    ctx.disagree("emit", label, "exception " + real_err, "text")
                elif ml != real_txt:
                    k = next((i for i, (x, y) in enumerate(zip(ml, real_txt)) if x != y), min(len(ml), len(real_txt)))
                    ctx.disagree("emit: model text differs from generate()", f"{label} line {k}",
                                 real_txt[k] if k < len(real_txt) else "<end>", ml[k] if k < len(ml) else "<end>")
            elif mt.startswith("err "):
                if real_err != mt[4:]:
                    ctx.disagree("emit", label, real_err or "text", mt)
            else:
                ctx.disagree("emit", label, "text", mt)
        # --- the property on the real output
        try:
            ex = irrun.Ir2Py(g)
        except Exception as exn:  # noqa
            ctx.fail(generate_signature(exn), f"ir_to_python / compile raised {type(exn).__name__} on {label}: {str(exn)[:80]}", label,
                     module=irser.serialize(g.module)[:4000])
            continue
        for (e, args), s in zip(cases, runs):
            if not s.startswith("ok ret="):
                ctx.count("skipped_" + s.split(" ")[1] if " " in s else "skipped")
                continue
            ctx.count("eval_run")
            ctx.count("steps", irrun.steps_of(s) or 0)
            ctx.nontrivial((label, e.name))
            real = ex.run(e, args)
            spec = irrun.strip_steps(s)[3:]
            if irrun.same_modulo_undef(spec, real):
                continue
            kind = None
            if not real.startswith("exception") and ctx.counts["divergence_searches"] < 4:
                ctx.count("divergence_searches")
                kind = first_divergence(ctx, make_gen, e.name, args)
            sig = ("ir2py:run:" + real.split()[1]) if real.startswith("exception") else \
                  ("ir2py:run:wrong-" + (kind or "result"))
            ctx.fail(sig, f"{label} {e.name}({', '.join(map(str, args))}): emitted Python gives {real[:120]}, Spec.IR gives {spec[:120]}",
                     {"module": label, "function": e.name, "args": [repr(a) for a in args]},
                     impl_output=real[:2000], spec_output=spec[:2000], module_sexpr=irser.serialize(g.module)[:20000])
        if len(ctx.samples) < 3 and cases:
            ctx.sample({"module": label, "function": cases[0][0].name, "args": [repr(a) for a in cases[0][1]],
                        "spec": runs[0][:160]})


# ---------------------------------------------------------------------------------------------
# helper level: the real emitted statements for (type, op) executed with the real runtime

def runtime_ns():
    ir, Gen = _ppci()
    f = io.StringIO()
    g = Gen(f, None)
    g.generate_runtime()
    ns = {}
    exec(compile(f.getvalue(), "<irpy-runtime>", "exec"), ns)
    return ns


def operand_values(ctx, t, n):
    from . import irgen
    vals = {irgen.boundary_const(ctx.rng, t) for _ in range(n)}
    lo, hi = irgen.type_range(t)
    vals |= {lo, hi, 0, 1, min(hi, 7), max(lo, -7 if t.signed else 0), lo + 1, hi - 1, hi // 2, hi // 2 + 1}
    if t.signed:
        vals |= {-1, -2, lo // 2}
    return sorted(v for v in vals if lo <= v <= hi)


def check_helpers(ctx, send):
    ir, Gen = _ppci()
    ns = runtime_ns()
    rt = ns["rt"]
    IrPy = ns["IrPy"]
    ints = [ir.i8, ir.i16, ir.i32, ir.i64, ir.u8, ir.u16, ir.u32, ir.u64]
    ops = [o for o in ir.Binop.ops if o not in ("rol", "ror")]
    reqs, keys, impl = [], [], []

    def real_binop(code, a, b):
        env = {"rt": rt, "a": a, "b": b}
        try:
            exec(code, env)
            return f"ok {env['d']}"
        except Exception as ex:  # noqa
            return "err " + type(ex).__name__
    nvals = 12 if ctx.thorough else 3
    for t in ints:
        vals = operand_values(ctx, t, nvals)
        for op in ops:
            code = compile("\n".join(binop_lines(t, op)), f"<binop {t.name} {op}>", "exec")
            pairs = [(a, b) for a in vals for b in vals]
            if not ctx.thorough:
                pairs = ctx.rng.sample(pairs, min(len(pairs), 30))
            for a, b in pairs:
                if True:
                    if op in ("<<", ">>") and ctx.rng.random() < 0.5:
                        b = ctx.rng.randrange(t.bits)
                    reqs.append(f"binop {t.name} {OPNAME[op]} {a} {b}")
                    reqs.append(f"spec binop {t.name} {OPNAME[op]} {a} {b}")
                    keys.append(("binop", t.name, op, a, b))
                    impl.append(real_binop(code, a, b))
    # unary
    for t in ints:
        for op, nm in (("-", "neg"), ("~", "not")):
            code = compile("\n".join(unop_lines(t, op)), "<unop>", "exec")
            for a in operand_values(ctx, t, nvals):
                env = {"rt": rt, "a": a}
                exec(code, env)
                reqs.append(f"unop {t.name} {nm} {a}")
                reqs.append(f"spec unop {t.name} {nm} {a}")
                keys.append(("unop", t.name, op, a, None))
                impl.append(f"ok {env['d']}")
    # casts: from every integer value class, and from floats
    fvals = [2.7, -2.7, 2.5, 3.5, -3.5, 0.5, -0.5, 1.5, 0.49999999999999994, 1e10 + 0.5, -1e10 - 0.5, 123456.789, 255.5, -128.5,
             4503599627370497.5, 0.0, -0.0, 1.0, 2.0 ** 52 + 1, 7.999999999999999]
    fvals += [ctx.rng.uniform(-300, 300) for _ in range(40 if ctx.thorough else 10)]
    fvals += [ctx.rng.randint(-10 ** 6, 10 ** 6) / 2 for _ in range(40 if ctx.thorough else 10)]
    for t in ints:      # ptr is not normalised by ir2py (unbounded int); not part of the claim
        code = compile("\n".join(cast_lines(t)), "<cast>", "exec")
        for st in ints:
            for v in operand_values(ctx, st, 5):
                env = {"rt": rt, "a": v}
                exec(code, env)
                reqs.append(f"cast {t.name} i {v}")
                reqs.append(f"spec cast {t.name} i {v}")
                keys.append(("cast", t.name, "int", v, None))
                impl.append(f"ok {env['d']}")
        for x in fvals:
            m, e = x.as_integer_ratio()
            ex2 = -(e.bit_length() - 1)
            env = {"rt": rt, "a": x}
            try:
                exec(code, env)
                r = f"ok {env['d']}"
            except Exception as exn:  # noqa
                r = "err " + type(exn).__name__
            reqs.append(f"cast {t.name} f {m} {ex2}")
            reqs.append(f"spec cast {t.name} f {struct.unpack('<Q', struct.pack('<d', x))[0]}")
            keys.append(("cast", t.name, "float", repr(x), None))
            impl.append(r)
    # raw helpers (also outside the ranges the lowering uses)
    raw = []
    big = [0, 1, -1, 2, -2, 7, -7, 255, 256, -256, 2 ** 31, -2 ** 31, 2 ** 63, -2 ** 63 - 1, 2 ** 64 + 5, 10 ** 30, -10 ** 30]
    big += [ctx.rng.randint(-2 ** 70, 2 ** 70) for _ in range(20)]
    for v in big:
        for bits in (8, 16, 32, 64):
            for sg in (0, 1):
                raw.append((f"correct {v} {bits} {sg}", lambda v=v, bits=bits, sg=sg: IrPy.correct(v, bits, bool(sg))))
    for x in big[:14]:
        for y in big[:14]:
            raw.append((f"idiv {x} {y}", lambda x=x, y=y: IrPy.idiv(x, y)))
            raw.append((f"irem {x} {y}", lambda x=x, y=y: IrPy.irem(x, y)))
        for am in (0, 1, 7, 8, 31, 63, 64, 65, -1, -9):
            for bits in (8, 32, 64):
                raw.append((f"ishl {x} {am} {bits}", lambda x=x, am=am, bits=bits: IrPy.ishl(x, am, bits)))
                raw.append((f"ishr {x} {am} {bits}", lambda x=x, am=am, bits=bits: IrPy.ishr(x, am, bits)))
    raw_reqs, raw_impl = [], []
    for rq, fn in raw:
        raw_reqs.append(rq)
        try:
            raw_impl.append(f"ok {fn()}")
        except Exception as ex:  # noqa
            raw_impl.append("err " + type(ex).__name__)
    out = send(reqs + raw_reqs)
    if out is None:
        ctx.note("driver C24 unavailable, helper-level check skipped")
        return
    for rq, i, m in zip(raw_reqs, raw_impl, out[len(reqs):]):
        ctx.count("eval_rawhelper")
        if i != m:
            ctx.disagree("runtime helper", rq, i, m)
    for k, i, (m, s) in zip(keys, impl, zip(out[0:len(reqs):2], out[1:len(reqs):2])):
        kind, tn, op, a, b = k
        ctx.count("eval_helper_" + kind)
        ctx.nontrivial((kind, tn, op, (a if isinstance(a, str) else (a > 0) - (a < 0)), (None if b is None else (b > 0) - (b < 0))))
        if i != m:
            ctx.disagree(f"{kind} {tn} {op}", [a, b], i, m)
        if s in ("ok none", "ok unsupported"):
            ctx.count("spec_undefined")
            continue
        if i != s:
            if kind == "cast":
                sig = f"gen_cast:{op}->{'int' if tn != 'ptr' else 'ptr'}:wrong-value"
            elif kind == "unop":
                sig = f"gen_unop:{op}:wrong-value"
            else:
                sig = f"gen_binop:{OPNAME[op]}:wrong-value"
            ctx.fail(sig, f"emitted code for {kind} {tn} {op} on ({a}, {b}) gives {i}, Spec.IR gives {s}",
                     {"kind": kind, "type": tn, "op": op, "a": a, "b": b}, impl_output=i, spec_output=s, model_output=m)
    # thorough: all operand pairs of the 8-bit types
    if ctx.thorough:
        reqs8, keys8 = [], []
        for t in (ir.i8, ir.u8):
            for op in ops:
                reqs8 += [f"model8 {t.name} {OPNAME[op]}", f"spec8 {t.name} {OPNAME[op]}"]
                keys8.append((t, op))
        out8 = ctx.driver("C24", reqs8)
        for (t, op), m8, s8 in zip(keys8, out8[0::2], out8[1::2]):
            m8, s8 = m8[3:], s8[3:]
            # the emitted statements, wrapped once into a function (same text, executed by CPython)
            env = {"rt": rt}
            exec("def f(a, b):\n" + "".join("    " + l + "\n" for l in binop_lines(t, op)) + "    return d\n", env)
            fn = env["f"]
            lo, hi = (-128, 127) if t.signed else (0, 255)
            k = 0
            bad_model = bad_spec = None
            for a in range(lo, hi + 1):
                for b in range(lo, hi + 1):
                    try:
                        d = fn(a, b)
                        r = "%02x" % (d % 256)
                        if not (lo <= d <= hi):
                            r = "RR"
                    except Exception:  # noqa
                        r = "EE"
                    if r != m8[k:k + 2] and bad_model is None:
                        bad_model = (a, b, r, m8[k:k + 2])
                    if s8[k:k + 2] != "--" and r != s8[k:k + 2] and bad_spec is None:
                        bad_spec = (a, b, r, s8[k:k + 2])
                    k += 2
            ctx.count("eval_helper_exhaustive8", (hi - lo + 1) ** 2)
            if bad_model:
                ctx.disagree(f"binop {t.name} {op} (8-bit exhaustive)", list(bad_model[:2]), bad_model[2], bad_model[3])
            if bad_spec:
                a, b, r, s = bad_spec
                ctx.fail(f"gen_binop:{OPNAME[op]}:wrong-value", f"emitted code for {t.name} {a} {op} {b} gives byte {r}, Spec gives {s}",
                         {"kind": "binop", "type": t.name, "op": op, "a": a, "b": b}, impl_output=r, spec_output=s)
        ctx.extra_cov["exhaustive_8bit_operand_pairs"] = True


def check(ctx):
    from . import irgen
    # 1. corpus
    corp = corpus()
    items = []
    for idx in range(len(corp)):
        items.append((corp[idx][0].module.name, (lambda idx=idx: corpus()[idx][0]),
                      (lambda g, idx=idx: [(next(x for x in g.entries if x.name == e.name), a) for e, a in corpus()[idx][1]])))
    # 2. generated modules
    nmods = 30 if ctx.thorough else 4
    nargs = 4 if ctx.thorough else 3
    base = ctx.rng.randrange(1 << 30)
    for k in range(nmods):
        seed = base + k

        def make(seed=seed):
            import random
            return irgen.gen_module(random.Random(seed), gen_config(), name=f"g{seed}")

        def cases(g, seed=seed):
            import random
            r = random.Random(seed ^ 0x5A5A)
            return [(e, a) for e in g.entries if e.external_ok for a in irgen.gen_args(r, e, nargs)]
        items.append((f"gen-seed-{seed}", make, cases))
    ir_lines, emit_lines, meta = prepare_programs(ctx, items)
    rep = ctx.driver("IR", ir_lines)
    state = {}

    def send(helper_reqs):
        # one start of the C24 driver serves the text comparison and the helper-level requests
        try:
            out = ctx.driver("C24", emit_lines + helper_reqs)
        except common.BrokenCheck as ex:
            ctx.note("driver C24 unavailable: " + str(ex)[:300])
            state["emit"] = [None] * len(emit_lines)
            return None
        state["emit"] = out[:len(emit_lines)]
        return out[len(emit_lines):]
    # 3. helper level (also fetches the model's emitted text)
    check_helpers(ctx, send)
    process_programs(ctx, meta, rep, state.get("emit") or [None] * len(emit_lines))
    ctx.extra_cov["exhaustive"] = False
    ctx.extra_cov["generator"] = "G-IR (harness/irgen.py), config: floats, indirect calls, undefined phi inputs; no CopyBlob/rol/ror"


def replay(ctx, rp):
    check(ctx)
