"""C36 Python front-end (ppci/lang/python/python2ir.py) computes what CPython computes.

regen : dumps `PythonToIrCompiler.binop_map`, the comparison table of `gen_compare` (read from the
        source of the method: it is a local dict), `type_mapping`, `ir.Binop.ops` and
        `ir.CJump.conditions` into lean/PpciVerif/Gen/Py2Ir.lean; Props.C36.*_match_source re-check
        the model's tables against it (`decide`).
check : (1) operators: for every Python arithmetic / comparison operator a one-line function is compiled
            by the REAL front-end and executed (ppci's IR->Python backend, and the reference IR
            interpreter Spec.IR) on boundary + random operand pairs; the result is compared with CPython
            (the property), with the Lean model's code evaluated by Spec.IRArith (correspondence) and
            Spec.Py is compared with CPython (validation of the specification);
        (2) programs: generated annotated functions (ints, floats, if/elif/else, while, for-over-range,
            break/continue, augmented / tuple assignment, calls, imported functions) are compiled by
            python_to_ir and executed by ir_to_python and by Spec.IR; CPython `exec` of the same source
            is the oracle (an instrumented copy of the source decides whether all integer values stay
            within 64 bits and no exception is raised);
        (3) structure: the IR of every compiled function is checked for "phi inputs = predecessors" and
            "a `continue` of a for-loop jumps to the block holding the increment", and (call-free
            functions) compared instruction by instruction with the Lean model Model.Py2Ir.genFunction."""
import ast
import contextlib
import inspect
import io
import logging
import struct
import types

from . import common

PROP = "C36"
LEAN_PROPS = "PpciVerif/Props/C36.lean"
LEAN_TARGETS = ["PpciVerif.Props.C36", "Drivers.C36", "Drivers.IR"]
CHECK_WITHOUT_BUILD = True      # the failing-input search needs the drivers only, not the theorems
LEVEL = "proof"
LEVEL_TEXT = (
    "Lean theorems about a hand model of python2ir.py (Model.Py2Ir, tied to the source by a table dump re-checked with `decide` and by an "
    "instruction-by-instruction comparison of the model's output with the real front-end's IR for every generated call-free function). "
    "(a) operators, for ALL operand values: the i64 code emitted for + - * and // evaluates (Spec.IRArith) to CPython's value (Spec.Py: "
    "unbounded ints, floor division) whenever that value fits 64 bits; `%` and other operators are rejected with a diagnostic; each of the six "
    "comparison operators is lowered to the CJump condition with the same truth value for all ints; (b) for ALL integer expression trees over "
    "literals, locals, + - * //: the emitted straight-line code computes CPython's value when every intermediate value fits 64 bits (induction); "
    "for ALL trees of comparisons joined by and/or: following the emitted conditional jumps, control enters yes_block iff CPython's short-circuit "
    "evaluation is true (operands CPython skips are not executed); (c) block structure, for ALL statement trees (if/while/for/break/continue/return/assignments, arbitrarily nested): every jump emitted "
    "targets an existing block; the only predecessors of a for-loop's test block are the block in front of the loop and the loop's increment "
    "block, in the order of the phi inputs (phi inputs = predecessors); the increment block holds exactly `i+1` feeding the phi and is the "
    "`continue` target while the body is generated; the end expression of range() is emitted into the block in front of the loop and the test block "
    "only compares the phi with that value (trip count fixed at loop entry). PARTIAL: `/` on two ints is lowered to the truncating integer division (CPython: float) - "
    "open finding, theorem only for exact quotients; statement *semantics* (that the generated if/while/for control flow and the stores/loads of "
    "locals compute what the Python program computes), floats, calls are not proved, only searched by differential execution against CPython."
)
LEVEL_NOTE = (
    "trusted: Lean kernel; axioms propext/Classical.choice/Quot.sound; Spec.Py (Python int semantics, written from the language reference, "
    "compared with CPython on every run); Spec.IRArith/Spec.IR (IR semantics, shared); the hand model <-> source correspondence is sampled "
    "(all generated call-free functions, structural equality up to renaming), not proved; the generator bounds which statement shapes the "
    "differential execution sees. Not covered by theorems: full statement lowering semantics, float arithmetic, calls/imports, strings."
)
TECHNIQUE = ("Lean 4 proof (omega / bit-level lemmas for the floor-division sequence, induction over expression and statement trees with an "
             "append-only event-log model of irutils.Builder) + T2 table translation + differential execution against CPython")
RULE = ("operators: each of + - * // / on ints at a boundary grid {0,+-1,+-2,+-3,+-7,+-2^31,+-2^62,min,max,...}^2 plus random 8/16/32/63-bit "
        "pairs; comparisons: 6 operators x 5 contexts (if, while, and-left, and-right, or) on a signed grid and x 7 contexts with a literal on the "
        "left / right / both sides (if, while, or, for) at the values c-1, c, c+1, 0, min, max; generated programs also get every int parameter at "
        "c-1, c, c+1 for constants c compared in the function; programs: generated modules of 1-3 "
        "functions, 3-5 argument vectors each. distinct = distinct (source, function, arguments); non-trivial = the function executes a loop or a "
        "call, a floor division with a negative operand, or an operator result outside 32 bits")
TRUSTED = [
    "hand model Model.Py2Ir of python2ir.py (builder = append-only event log), tied by Gen.Py2Ir (binop_map, gen_compare op_map, type_mapping dumped on every run) and by structural comparison with the real output of every generated call-free function",
    "Spec.Py: CPython integer semantics (floor //, %, true division as exact quotient, comparisons, short-circuit and/or), validated against CPython on every run",
    "Spec.IRArith / Spec.IR: IR run-time semantics (shared reference interpreter); ppci's ir_to_python backend as second executor (C24)",
    "CPython 3.12 `exec` as the oracle; the instrumented copy of each source (every int operation wrapped in a 64-bit range check) decides whether a case is inside the property's domain",
]
ASSUMPTIONS = [
    "every in-process execution of compiled code has a CPU budget of 3 s (SIGVTALRM), the front-end call and the ir_to_python translation 30 s, Spec.IR runs have fuel, the CPython oracle an iteration limit: a compiled program that is still running when CPython has returned is reported as <construct>:does-not-terminate, the check never waits for it",
    "all integer values of an execution (arguments, literals, intermediate results, loop counters) lie within signed 64 bits and CPython raises no exception; other cases are skipped and counted",
    "generated programs assign every variable before use on every path, keep one type per variable, and do not use `/` on ints (open finding, exercised by the operator corpus only)",
    "memory of distinct locals does not overlap (each local is one 8-byte Alloc)",
]

I64_MIN, I64_MAX = -(1 << 63), (1 << 63) - 1


# ---------------------------------------------------------------------------------------------
# translation (T2)
def _cmp_table(cls):
    """the dict literal assigned to `op_map` inside gen_compare, as [(ast class name, condition)]"""
    src = inspect.getsource(cls.gen_compare)
    tree = ast.parse("class _X:\n" + src if src.startswith("    ") else src)
    for node in ast.walk(tree):
        if isinstance(node, ast.Assign) and len(node.targets) == 1 and isinstance(node.targets[0], ast.Name) \
                and node.targets[0].id == "op_map" and isinstance(node.value, ast.Dict):
            rows = []
            for k, v in zip(node.value.keys, node.value.values):
                if not (isinstance(k, ast.Attribute) and isinstance(k.value, ast.Name) and k.value.id == "ast"
                        and isinstance(v, ast.Constant) and isinstance(v.value, str)):
                    raise ValueError("op_map entry is not `ast.X: \"op\"`")
                rows.append((k.attr, v.value))
            return rows
    raise ValueError("no `op_map = {...}` in gen_compare")


def tables():
    from ppci import ir
    from ppci.lang.python.python2ir import PythonToIrCompiler
    binop = [(k.__name__, v) for k, v in PythonToIrCompiler.binop_map.items()]
    cmp_ = _cmp_table(PythonToIrCompiler)
    tmap = [(k, v.name) for k, v in PythonToIrCompiler().type_mapping.items()]
    return binop, cmp_, tmap, list(ir.Binop.ops), list(ir.CJump.conditions)


def regen(ctx):
    binop, cmp_, tmap, irops, irconds = tables()

    def s(x):
        return '"' + x.replace("\\", "\\\\").replace('"', '\\"') + '"'

    def pairs(rows):
        return "[" + ", ".join(f"({s(a)}, {s(b)})" for a, b in rows) + "]"
    txt = (
        "/- GENERATED by harness/c36.py regen() from the live ppci objects / source of the checked tree - do not edit -/\n"
        "namespace Gen.Py2Ir\n\n"
        "/-- `PythonToIrCompiler.binop_map`: ast operator class ↦ IR operator -/\n"
        f"def binopMap : List (String × String) := {pairs(binop)}\n\n"
        "/-- the dict `op_map` in the source of `PythonToIrCompiler.gen_compare`: ast comparison class ↦ CJump condition -/\n"
        f"def cmpMap : List (String × String) := {pairs(cmp_)}\n\n"
        "/-- `PythonToIrCompiler().type_mapping`: annotation ↦ IR type name -/\n"
        f"def typeMapping : List (String × String) := {pairs(tmap)}\n\n"
        "/-- `ppci.ir.Binop.ops` -/\n"
        "def irBinops : List String := [" + ", ".join(s(o) for o in irops) + "]\n\n"
        "/-- `ppci.ir.CJump.conditions` -/\n"
        "def irConds : List String := [" + ", ".join(s(o) for o in irconds) + "]\n\n"
        "end Gen.Py2Ir\n"
    )
    p = common.LEAN / "PpciVerif" / "Gen" / "Py2Ir.lean"
    if not p.exists() or p.read_text() != txt:
        p.parent.mkdir(exist_ok=True)
        p.write_text(txt)


# ---------------------------------------------------------------------------------------------
# abstract programs
#   expr : ("num", v) | ("fnum", x) | ("name", x) | ("bin", Op, a, b) | ("call", f, [args])
#   cond : ("cmp", Op, a, b) | ("and", [c…]) | ("or", [c…])
#   stmt : ("assign", x, e) | ("aug", x, Op, e) | ("tuple", [x…], [e…]) | ("if", c, body, orelse) | ("while", c, body)
#        | ("for", x, [e…], body) | ("break",) | ("continue",) | ("return", e) | ("pass",) | ("expr", e)
#   a body is a list of statements; types: "int" | "float"
OPSYM = {"Add": "+", "Sub": "-", "Mult": "*", "FloorDiv": "//", "Div": "/", "Mod": "%"}
CMPSYM = {"Gt": ">", "GtE": ">=", "Lt": "<", "LtE": "<=", "Eq": "==", "NotEq": "!="}


def float_bits(x):
    return struct.unpack("<Q", struct.pack("<d", float(x)))[0]


def r_expr(e, chk):
    """source text; chk=True wraps every int operation in the range check `_c`"""
    k = e[0]
    if k == "num":
        return str(e[1])
    if k == "fnum":
        return repr(float(e[1]))
    if k == "name":
        return e[1]
    if k == "bin":
        t = f"({r_expr(e[2], chk)} {OPSYM[e[1]]} {r_expr(e[3], chk)})"
        return f"_c{t}" if chk else t
    if k == "call":
        return f"{e[1]}({', '.join(r_expr(a, chk) for a in e[2])})"
    raise ValueError(k)


def r_cond(c, chk):
    k = c[0]
    if k == "cmp":
        return f"{r_expr(c[2], chk)} {CMPSYM[c[1]]} {r_expr(c[3], chk)}"
    j = " and " if k == "and" else " or "
    return j.join(("(" + r_cond(x, chk) + ")") if x[0] != "cmp" else r_cond(x, chk) for x in c[1])


def r_body(body, ind, chk, out):
    pad = "    " * ind
    if not body:
        out.append(pad + "pass")
    for s in body:
        k = s[0]
        if k == "assign":
            out.append(f"{pad}{s[1]} = {r_expr(s[2], chk)}")
        elif k == "aug":
            if chk:
                out.append(f"{pad}{s[1]} = _c({s[1]} {OPSYM[s[2]]} ({r_expr(s[3], chk)}))")
            else:
                out.append(f"{pad}{s[1]} {OPSYM[s[2]]}= {r_expr(s[3], chk)}")
        elif k == "tuple":
            out.append(f"{pad}{', '.join(s[1])} = {', '.join(r_expr(e, chk) for e in s[2])}")
        elif k == "if":
            out.append(f"{pad}if {r_cond(s[1], chk)}:")
            r_body(s[2], ind + 1, chk, out)
            orelse = s[3]
            while len(orelse) == 1 and orelse[0][0] == "if" and orelse[0][-1] == "elif":
                e = orelse[0]
                out.append(f"{pad}elif {r_cond(e[1], chk)}:")
                r_body(e[2], ind + 1, chk, out)
                orelse = e[3]
            if orelse:
                out.append(f"{pad}else:")
                r_body(orelse, ind + 1, chk, out)
        elif k == "while":
            out.append(f"{pad}while {r_cond(s[1], chk)}:")
            if chk:
                out.append(pad + "    _t()")
            r_body(s[2], ind + 1, chk, out)
        elif k == "for":
            out.append(f"{pad}for {s[1]} in range({', '.join(r_expr(e, chk) for e in s[2])}):")
            if chk:
                out.append(pad + "    _t()")
            r_body(s[3], ind + 1, chk, out)
        elif k == "break":
            out.append(pad + "break")
        elif k == "continue":
            out.append(pad + "continue")
        elif k == "return":
            out.append(f"{pad}return {r_expr(s[1], chk)}" if s[1] is not None else pad + "return")
        elif k == "pass":
            out.append(pad + "pass")
        elif k == "expr":
            out.append(pad + r_expr(s[1], chk))
        else:
            raise ValueError(k)


def r_func(f, chk=False):
    params = ", ".join(f"{n}: {t}" for n, t in f["params"])
    out = [f"def {f['name']}({params}) -> {f['ret'] or 'None'}:"]
    r_body(f["body"], 1, chk, out)
    return "\n".join(out) + "\n"


def r_module(m, chk=False):
    return "\n".join(r_func(f, chk) for f in m["funcs"])


# ---- the same program for the Lean model (call-free functions only) ----------------------------
def has_call(x):
    if isinstance(x, (list, tuple)):
        if x and x[0] == "call":
            return True
        return any(has_call(y) for y in x)
    return False


def m_expr(e):
    k = e[0]
    if k == "num":
        return f"(num {e[1]})"
    if k == "fnum":
        return f"(fnum {float_bits(e[1])})"
    if k == "name":
        return f"(name {e[1]})"
    if k == "bin":
        return f"(bin {e[1]} {m_expr(e[2])} {m_expr(e[3])})"
    raise ValueError(k)


def m_cond(c):
    if c[0] == "cmp":
        return f"(cmp {c[1]} {m_expr(c[2])} {m_expr(c[3])})"
    xs = list(c[1])
    t = m_cond(xs[-1])
    for x in reversed(xs[:-1]):          # n-ary BoolOp = right-nested binary (same blocks, same order)
        t = f"({c[0]} {m_cond(x)} {t})"
    return t


def m_stmt(s):
    k = s[0]
    if k == "assign":
        return f"(assign {s[1]} {m_expr(s[2])})"
    if k == "aug":
        return f"(aug {s[1]} {s[2]} {m_expr(s[3])})"
    if k == "tuple":
        return f"(tuple ({' '.join(s[1])}) ({' '.join(m_expr(e) for e in s[2])}))"
    if k == "if":
        return f"(if {m_cond(s[1])} {m_body(s[2])} {m_body(s[3])})"
    if k == "while":
        return f"(while {m_cond(s[1])} {m_body(s[2])})"
    if k == "for":
        return f"(for {s[1]} ({' '.join(m_expr(e) for e in s[2])}) {m_body(s[3])})"
    if k in ("break", "continue", "pass"):
        return f"({k})"
    if k == "return":
        return f"(ret {m_expr(s[1])})" if s[1] is not None else "(ret)"
    if k == "expr":
        return f"(expr {m_expr(s[1])})"
    raise ValueError(k)


def m_body(body):
    if not body:
        return "(pass)"
    t = m_stmt(body[-1])
    for s in reversed(body[:-1]):
        t = f"(seq {m_stmt(s)} {t})"
    return t


def m_func(f):
    ps = "".join(f" ({n} {t})" for n, t in f["params"])
    return f"gen (fn (params{ps}) {f['ret'] or 'none'} {m_body(f['body'])})"


# ---------------------------------------------------------------------------------------------
# generator
class Gen:
    def __init__(self, rng, idx):
        self.rng = rng
        self.idx = idx
        self.funcs = []
        self.ext = rng.random() < 0.3        # an imported function `ext(a: int, b: int) -> int`
        self.features = set()

    def module(self):
        n = self.rng.choice([1, 1, 2, 2, 3])
        for i in range(n):
            self.funcs.append(self.func(i))
        return {"funcs": self.funcs, "ext": self.ext, "features": sorted(self.features)}

    # ---- expressions ----------------------------------------------------------------------
    def iconst(self):
        r = self.rng
        c = r.random()
        if c < 0.7:
            return ("num", r.randint(0, 9))
        if c < 0.9:
            return ("num", r.choice([10, 16, 100, 255, 1000, 65536]))
        return ("num", r.choice([1 << 31, (1 << 31) - 1, 1 << 32, 1 << 40, (1 << 62), (1 << 63) - 1]))

    def iexpr(self, d):
        r = self.rng
        vs = [v for v, t in self.vars.items() if t == "int"]
        if d <= 0 or r.random() < 0.3:
            if vs and r.random() < 0.65:
                return ("name", r.choice(vs))
            return self.iconst()
        c = r.random()
        if c < 0.12 and [f for f in self.callable if f["ret"] == "int"]:
            f = r.choice([f for f in self.callable if f["ret"] == "int"])
            self.features.add("call")
            return ("call", f["name"], [self.expr(t, d - 1) for _, t in f["params"]])
        if c < 0.18 and self.ext:
            self.features.add("import")
            return ("call", "ext", [self.iexpr(d - 1), self.iexpr(d - 1)])
        op = r.choice(["Add", "Add", "Sub", "Sub", "Mult", "FloorDiv"])
        a = self.iexpr(d - 1)
        if op == "FloorDiv":
            self.features.add("floordiv")
            q = r.random()
            if q < 0.5:
                b = ("num", r.choice([1, 2, 3, 4, 7, 10]))
            elif q < 0.75:
                b = ("bin", "Sub", ("num", 0), ("num", r.choice([1, 2, 3, 5, 8])))
            else:
                b = self.iexpr(d - 1)          # may be zero: such runs are outside the domain
        else:
            b = self.iexpr(d - 1)
        if op == "Sub" and r.random() < 0.15:
            a = ("num", 0)                     # negation idiom
        return ("bin", op, a, b)

    def fexpr(self, d):
        r = self.rng
        vs = [v for v, t in self.vars.items() if t == "float"]
        if d <= 0 or r.random() < 0.3:
            if vs and r.random() < 0.65:
                return ("name", r.choice(vs))
            return ("fnum", r.choice([0.0, 0.5, 1.0, 1.5, 2.0, 3.0, 0.1, 2.5, 10.0, 1e10, 0.25]))
        op = r.choice(["Add", "Sub", "Mult", "Div"])
        a = self.fexpr(d - 1)
        b = ("fnum", r.choice([0.5, 2.0, 3.0, 4.0, 0.1])) if op == "Div" and r.random() < 0.7 else self.fexpr(d - 1)
        self.features.add("float")
        return ("bin", op, a, b)

    def expr(self, t, d):
        return self.iexpr(d) if t == "int" else self.fexpr(d)

    def cond(self, d):
        r = self.rng
        if d <= 0 or r.random() < 0.55:
            t = "float" if (r.random() < 0.15 and any(x == "float" for x in self.vars.values())) else "int"
            return ("cmp", r.choice(list(CMPSYM)), self.expr(t, 1), self.expr(t, 1))
        self.features.add("boolop")
        return (r.choice(["and", "or"]), [self.cond(d - 1) for _ in range(r.choice([2, 2, 3]))])

    # ---- statements -------------------------------------------------------------------------
    def fresh(self, t, prefix="v", bind=True):
        self.nfresh += 1
        n = f"{prefix}{self.nfresh}"
        if bind:
            self.vars[n] = t
        return n

    def assignable(self, t):
        return [v for v, ty in self.vars.items() if ty == t and v not in self.protected]

    def simple(self, d):
        r = self.rng
        c = r.random()
        t = "float" if (r.random() < 0.2 and self.assignable("float")) else "int"
        vs = self.assignable(t)
        if not vs:
            t = "int"
            vs = self.assignable("int")
        if not vs:
            return ("pass",)
        if c < 0.5:
            return ("assign", r.choice(vs), self.expr(t, d))
        if c < 0.8:
            ops = ["Add", "Sub", "Mult", "FloorDiv"] if t == "int" else ["Add", "Sub", "Mult", "Div"]
            op = r.choice(ops)
            e = self.expr(t, max(d - 1, 0))
            if op == "FloorDiv":
                e = ("num", r.choice([1, 2, 3, 5])) if r.random() < 0.7 else e
                self.features.add("floordiv")
            if op == "Div":
                e = ("fnum", r.choice([2.0, 4.0, 0.5]))
            self.features.add("augassign")
            return ("aug", r.choice(vs), op, e)
        iv = self.assignable("int")
        if len(iv) >= 2:
            a, b = r.sample(iv, 2)
            self.features.add("tuple-assign")
            return ("tuple", [a, b], [self.iexpr(1), self.iexpr(1)] if r.random() < 0.5 else [("name", b), ("name", a)])
        return ("assign", r.choice(vs), self.expr(t, d))

    def block(self, d, n=None, nested=True):
        """a statement list; variables first assigned inside a nested block are not visible after it"""
        r = self.rng
        out = []
        before = set(self.vars)
        for _ in range(n if n is not None else r.choice([1, 1, 2, 2, 3])):
            out.extend(self.stmt(d))
        if nested:
            for v in list(self.vars):
                if v not in before:
                    del self.vars[v]
        return out

    def stmt(self, d):
        r = self.rng
        c = r.random()
        if d <= 0 or c < 0.4:
            return [self.simple(2)]
        if c < 0.6:
            self.features.add("if")
            cnd = self.cond(1)
            body = self.block(d - 1)
            k = r.random()
            if k < 0.35:
                orelse = []
            elif k < 0.8:
                orelse = self.block(d - 1)
            else:
                self.features.add("elif")
                c2 = self.cond(1)
                orelse = [("if", c2, self.block(d - 1), self.block(d - 1) if r.random() < 0.6 else [], "elif")]
            if r.random() < 0.12 and self.rett:
                body = body + [("return", self.expr(self.rett, 1))]
                self.features.add("early-return")
            if self.loop_depth and r.random() < 0.45:
                body = body + [(r.choice(["break", "continue"]),)]
                self.features.add("break/continue in " + self.loop_kind[-1])
            if r.random() < 0.1:
                # a variable first assigned in both arms and used afterwards
                v = self.fresh("int", "b", bind=False)
                self.features.add("first-assignment-in-branch")
                st = ("if", cnd, body + [("assign", v, self.iexpr(1))], orelse + [("assign", v, self.iexpr(1))])
                self.vars[v] = "int"
                return [st]
            return [("if", cnd, body, orelse)]
        if c < 0.8:
            self.features.add("for")
            pre = []
            lv = self.fresh("int", "i", bind=False)
            if r.random() < 0.5:
                pre.append(("assign", lv, ("num", r.randint(0, 3))))      # bound before the loop: readable after it
            hi = ("num", r.randint(0, 6)) if r.random() < 0.6 else self.iexpr(1)
            bound_vars = []
            iv = self.assignable("int")
            if iv and r.random() < 0.35:
                # the end expression reads variables that the body assigns (CPython fixes the trip count at loop entry)
                v = r.choice(iv)
                q = r.random()
                if q < 0.4:
                    hi = ("name", v)
                elif q < 0.7:
                    hi = ("bin", r.choice(["Add", "Sub"]), ("name", v), ("num", r.randint(0, 3)))
                else:
                    hi = ("bin", "Add", ("name", v), ("name", r.choice(iv)))
                bound_vars = [v]
                self.features.add("for-bound-assigned-in-body")
            args = [hi] if r.random() < 0.6 else [("num", r.randint(0, 3)) if r.random() < 0.7 else self.iexpr(1), hi]
            if bound_vars and len(args) == 2 and args[0][0] != "num" and r.random() < 0.5:
                args[0] = ("name", bound_vars[0])              # range(v, v + k): start and end share the variable
            self.vars[lv] = "int"
            self.loop_depth += 1
            self.loop_kind.append("for")
            body = self.block(d - 1)
            for v in bound_vars:
                upd = r.choice([("aug", v, "Add", ("num", 1)), ("aug", v, "Sub", ("num", 1)),
                                ("assign", v, ("bin", "Sub", ("name", v), ("num", r.randint(1, 3)))),
                                ("assign", v, ("bin", "Add", ("name", v), ("name", lv)))])
                body.insert(r.randint(0, len(body)), upd)
            if r.random() < 0.15:
                body.append(("assign", lv, self.iexpr(1)))               # assignment to the loop variable
                self.features.add("assign-loop-variable")
            self.loop_kind.pop()
            self.loop_depth -= 1
            if pre:
                self.features.add("loop-variable-live-after-loop")
            else:
                self.vars.pop(lv)                                          # may be unbound after the loop
            return pre + [("for", lv, args, body)]
        self.features.add("while")
        w = self.fresh("int", "w", bind=False)
        lim = ("num", r.randint(0, 6)) if r.random() < 0.7 else self.iexpr(1)
        self.vars[w] = "int"
        self.protected.add(w)
        guard = ("cmp", "Lt", ("name", w), lim)
        k = r.random()
        if k < 0.5:
            cond = guard
        elif k < 0.7:
            cond = ("and", [guard, self.cond(1)])
        elif k < 0.85:
            cond = ("and", [self.cond(1), guard])
        else:
            cond = ("and", [guard, ("or", [self.cond(0), self.cond(0)])])
        if k >= 0.5:
            self.features.add("while-boolop")
        self.loop_depth += 1
        self.loop_kind.append("while")
        body = [("assign", w, ("bin", "Add", ("name", w), ("num", 1)))] + self.block(d - 1)
        self.loop_kind.pop()
        self.loop_depth -= 1
        return [("assign", w, ("num", 0)), ("while", cond, body)]

    def func(self, i):
        r = self.rng
        self.vars = {}
        self.nfresh = 0
        self.protected = set()
        self.loop_depth = 0
        self.loop_kind = []
        self.callable = list(self.funcs)
        params = []
        for k in range(r.choice([1, 2, 2, 3])):
            t = "float" if r.random() < 0.15 else "int"
            n = "abcd"[k]
            params.append((n, t))
            self.vars[n] = t
        self.rett = "float" if (r.random() < 0.15 and any(t == "float" for _, t in params)) else "int"
        body = []
        for _ in range(r.choice([1, 2, 3])):
            t = "float" if r.random() < 0.15 else "int"
            v = self.fresh(t, bind=False)
            body.append(("assign", v, self.expr(t, 1)))
            self.vars[v] = t
        body += self.block(r.choice([1, 2, 2, 3]), n=r.choice([1, 2, 3]), nested=False)
        body.append(("return", self.expr(self.rett, 2)))
        return {"name": f"f{i}", "params": params, "ret": self.rett, "body": body}


# ---- fixed corpus ---------------------------------------------------------------------------------
def N(x):
    return ("name", x)


def K(v):
    return ("num", v)


def corpus_modules():
    """past disagreements and the shapes of the defects found (fixed ones stay here as regression inputs)"""
    ms = []

    def mod(*funcs, ext=False):
        ms.append({"funcs": list(funcs), "ext": ext, "features": ["corpus"]})
    # for-loop whose body contains an if (phi keyed on the wrong block before the fix)
    mod({"name": "f0", "params": [("a", "int")], "ret": "int", "body": [
        ("assign", "s", K(0)),
        ("for", "i", [N("a")], [("if", ("cmp", "Gt", N("i"), K(2)), [("aug", "s", "Add", N("i"))], [])]),
        ("return", N("s"))]})
    # continue in a for-loop (skipped the increment before the fix)
    mod({"name": "f0", "params": [("a", "int")], "ret": "int", "body": [
        ("assign", "s", K(0)),
        ("for", "i", [N("a")], [("if", ("cmp", "Gt", N("i"), K(2)), [("continue",)], []), ("aug", "s", "Add", N("i"))]),
        ("return", N("s"))]})
    # break in a for-loop, nested for-loops, loop variable read after the loop / assigned in the body
    mod({"name": "f0", "params": [("a", "int")], "ret": "int", "body": [
        ("assign", "s", K(0)), ("assign", "i", K(7)),
        ("for", "i", [K(1), N("a")], [
            ("for", "j", [N("i")], [("if", ("cmp", "Eq", N("j"), K(3)), [("break",)], []), ("aug", "s", "Add", N("j"))]),
            ("assign", "i", ("bin", "Add", N("i"), K(10)))]),
        ("return", ("bin", "Add", ("bin", "Mult", N("s"), K(100)), N("i")))]})
    # variable first assigned in both arms of an if
    mod({"name": "f0", "params": [("a", "int")], "ret": "int", "body": [
        ("if", ("cmp", "Gt", N("a"), K(0)), [("assign", "x", K(1))], [("assign", "x", K(2))]),
        ("return", N("x"))]})
    # floor division, all sign combinations reach it through the arguments
    mod({"name": "f0", "params": [("a", "int"), ("b", "int")], "ret": "int", "body": [
        ("assign", "q", ("bin", "FloorDiv", N("a"), N("b"))), ("aug", "q", "FloorDiv", K(2)),
        ("return", N("q"))]})
    # while with and/or, break, continue, early return, elif, tuple swap, call, import
    mod({"name": "f0", "params": [("a", "int"), ("b", "int")], "ret": "int", "body": [
        ("return", ("bin", "Sub", ("bin", "Mult", N("a"), K(3)), N("b")))]},
        {"name": "f1", "params": [("a", "int"), ("b", "int")], "ret": "int", "body": [
            ("assign", "s", K(0)), ("assign", "w", K(0)),
            ("while", ("and", [("cmp", "Lt", N("w"), K(6)), ("or", [("cmp", "NotEq", N("s"), K(5)), ("cmp", "GtE", N("a"), N("b"))])]), [
                ("assign", "w", ("bin", "Add", N("w"), K(1))),
                ("if", ("cmp", "Eq", N("w"), K(2)), [("continue",)],
                 [("if", ("cmp", "Gt", N("s"), K(40)), [("break",)], [("tuple", ["a", "b"], [N("b"), N("a")])], "elif")]),
                ("aug", "s", "Add", ("call", "f0", [N("a"), N("w")])),
                ("if", ("cmp", "LtE", N("s"), ("bin", "Sub", K(0), K(50))), [("return", ("call", "ext", [N("s"), N("w")]))], [])]),
            ("return", N("s"))]}, ext=True)
    # the end expression of range() is evaluated once, before the loop: the body assigns its variables
    # (re-evaluating it every iteration shortens `range(a)` with `a -= 1` and never terminates for `range(a, a + b)` with `b += 1`)
    mod({"name": "f0", "params": [("a", "int"), ("b", "int")], "ret": "int", "body": [
        ("assign", "s", K(0)),
        ("for", "i", [N("a")], [("assign", "a", ("bin", "Sub", N("a"), K(1))), ("aug", "s", "Add", K(1))]),
        ("return", ("bin", "Add", ("bin", "Mult", N("s"), K(100)), N("a")))]},
        {"name": "f1", "params": [("a", "int"), ("b", "int")], "ret": "int", "body": [
            ("assign", "s", K(0)),
            ("for", "i", [N("a"), ("bin", "Add", N("a"), N("b"))], [("aug", "b", "Add", K(1)), ("aug", "s", "Add", N("i"))]),
            ("return", ("bin", "Add", ("bin", "Mult", N("s"), K(1000)), N("b")))]},
        {"name": "f2", "params": [("a", "int"), ("b", "int")], "ret": "int", "body": [
            ("assign", "s", K(0)), ("assign", "m", K(0)),
            ("for", "i", [N("a")], [
                ("assign", "m", ("bin", "Add", N("i"), K(2))),
                ("for", "j", [N("m")], [("assign", "m", ("bin", "Sub", N("m"), K(1))), ("aug", "s", "Add", N("j")),
                                        ("aug", "a", "Add", K(1))])]),
            ("return", ("bin", "Add", ("bin", "Mult", N("s"), K(100)), ("bin", "Add", N("m"), N("a"))))]},
        {"name": "f3", "params": [("a", "int"), ("b", "int")], "ret": "int", "body": [
            ("assign", "s", K(0)), ("assign", "w", K(0)),
            ("while", ("and", [("cmp", "Lt", N("w"), K(8)), ("or", [("cmp", "Gt", N("a"), K(0)), ("cmp", "Lt", N("s"), N("b"))])]), [
                ("assign", "w", ("bin", "Add", N("w"), K(1))), ("aug", "a", "Sub", K(2)), ("aug", "s", "Add", K(3)),
                ("if", ("cmp", "Eq", N("s"), K(9)), [("aug", "b", "Add", K(4))], [])]),
            ("return", ("bin", "Add", ("bin", "Mult", N("s"), K(100)), N("w")))]})
    # floats
    mod({"name": "f0", "params": [("a", "float"), ("b", "float")], "ret": "float", "body": [
        ("assign", "x", ("bin", "Div", ("bin", "Add", N("a"), ("fnum", 1.5)), ("fnum", 4.0))),
        ("if", ("cmp", "Lt", N("x"), N("b")), [("aug", "x", "Mult", N("b"))], [("aug", "x", "Sub", ("fnum", 0.1))]),
        ("return", N("x"))]})
    return ms


# ---------------------------------------------------------------------------------------------
# the real front-end
class OutOfDomain(Exception):
    pass


_CODE = {}


def _silence():
    logging.getLogger("p2p").setLevel(logging.CRITICAL)


class BudgetExceeded(Exception):
    """compiled code (or the front-end) used more CPU time than any terminating case of this harness needs"""


RUN_BUDGET_S = 3.0          # CPU seconds for one execution of compiled code (terminating cases need milliseconds)
COMPILE_BUDGET_S = 30.0     # CPU seconds for one front-end call / one ir_to_python translation


@contextlib.contextmanager
def budget(cpu_s):
    """Hard budget on in-process work: SIGVTALRM (process CPU time, so machine load does not matter) raises
    BudgetExceeded inside the running Python code; outside the main thread a line-counting trace function is used."""
    import signal
    import sys
    import threading
    if threading.current_thread() is threading.main_thread():
        def on_alarm(signum, frame):
            raise BudgetExceeded()
        old = signal.signal(signal.SIGVTALRM, on_alarm)
        signal.setitimer(signal.ITIMER_VIRTUAL, cpu_s)
        try:
            yield
        finally:
            signal.setitimer(signal.ITIMER_VIRTUAL, 0)
            signal.signal(signal.SIGVTALRM, old)
    else:
        left = [int(cpu_s * 2_000_000)]

        def tracer(frame, event, arg):
            left[0] -= 1
            if left[0] < 0:
                raise BudgetExceeded()
            return tracer
        old = sys.gettrace()
        sys.settrace(tracer)
        try:
            yield
        finally:
            sys.settrace(old)


def run_compiled(py, entry, args):
    """one budgeted execution of compiled code by ppci's IR->Python backend; -> canonical string,
    `exception <Name>`, or `does-not-terminate`"""
    try:
        with budget(RUN_BUDGET_S):
            got = py.run(entry, args)
    except BudgetExceeded:
        got = "exception BudgetExceeded"
    if got == "exception BudgetExceeded":
        return "does-not-terminate"
    return got


def load_compiled(gobj):
    """ir_to_python + exec of the emitted module, budgeted"""
    from . import irrun
    with budget(COMPILE_BUDGET_S):
        return irrun.Ir2Py(gobj)


def compile_real(src, ext, verify=True):
    """-> (module, None) | (None, exception).  verify=False skips irutils.verify_module (observation only)."""
    from ppci.lang.python import python2ir
    _silence()
    imports = {"ext": (int, (int, int))} if ext else None
    saved = python2ir.irutils.verify_module
    if not verify:
        holder = types.SimpleNamespace(**{k: getattr(python2ir.irutils, k) for k in dir(python2ir.irutils) if not k.startswith("__")})
        holder.verify_module = lambda m: None
        real_irutils = python2ir.irutils
        python2ir.irutils = holder
    try:
        with contextlib.redirect_stdout(io.StringIO()), budget(COMPILE_BUDGET_S):
            m = python2ir.python_to_ir(io.StringIO(src), imports=imports)
        return m, None
    except Exception as e:  # noqa: BLE001 - the class is the observation
        return None, e
    finally:
        if not verify:
            python2ir.irutils = real_irutils
        assert python2ir.irutils.verify_module is saved


def wrap64(v):
    v &= (1 << 64) - 1
    return v - (1 << 64) if v >> 63 else v


def ext_oracle(a, b):
    return wrap64(13 + 2 * a + 3 * b)        # = irrun.oracle(ir.i64, [a, b]) = the IR driver's oracle


def cpython(m, fname, args):
    """-> ('ok', value, trace) | ('skip', why).  The instrumented copy decides the domain, the plain copy is the oracle."""
    steps = [0]

    def _c(v):
        if not (I64_MIN <= v <= I64_MAX):
            raise OutOfDomain("int outside 64 bits")
        return v

    def _t():
        steps[0] += 1
        if steps[0] > 3000:
            raise OutOfDomain("too many iterations")

    def ext_chk(a, b):
        return ext_oracle(a, b)
    trace = []

    def ext(a, b):
        r = ext_oracle(a, b)
        trace.append(("ext", [a, b], r))
        return r
    ns = {"_c": _c, "_t": _t, "ext": ext_chk}
    codes = _CODE.get(id(m))
    if codes is None or codes[0] is not m:
        codes = (m, compile(r_module(m, True), "<c36-instrumented>", "exec"), compile(r_module(m, False), "<c36>", "exec"))
        _CODE.clear()
        _CODE[id(m)] = codes
    try:
        exec(codes[1], ns)
        with budget(RUN_BUDGET_S):
            ns[fname](*args)
    except OutOfDomain as e:
        return ("skip", str(e))
    except BudgetExceeded:
        return ("skip", "cpython-budget")
    except RecursionError:
        return ("skip", "RecursionError")
    except Exception as e:  # noqa: BLE001
        return ("skip", type(e).__name__)
    ns2 = {"ext": ext}
    exec(codes[2], ns2)
    return ("ok", ns2[fname](*args), trace)


def show(v):
    if isinstance(v, bool):
        v = int(v)
    if isinstance(v, float):
        return "f:nan" if v != v else f"f:{float_bits(v)}"
    return str(v)


def canon_result(v, trace):
    t = ";".join(f"{n}({','.join(str(a) for a in args)})={r}" for n, args, r in trace) or "-"
    return f"ret={show(v)} trace={t}"


def canon_reply(s):
    """canonical string of irrun / driver:  ret=<v> globals=… trace=…  ->  ret=<v> trace=…"""
    parts = dict(p.split("=", 1) for p in s.split(" ") if "=" in p)
    r = parts.get("ret", "?")
    if r.startswith("f:") and r != "f:nan":
        x = struct.unpack("<d", struct.pack("<Q", int(r[2:])))[0]
        if x != x:
            r = "f:nan"
    return f"ret={r} trace={parts.get('trace', '-')}"


# ---- rendering the real IR in the model's format, canonical renaming ------------------------------
def render_real(fn):
    """-> text in the format of Model.Py2Ir.showFunc, or None when the function uses something the model lacks"""
    from ppci import ir
    bidx = {b: i for i, b in enumerate(fn.blocks)}
    vid = {}
    params = {p: i for i, p in enumerate(fn.arguments)}

    def v(x):
        if x in params:
            return f"$p{params[x]}"
        if x not in vid:
            vid[x] = len(vid)
        return f"%{vid[x]}"

    def b(x):
        return f"b{bidx.get(x, 999)}"
    out = []
    for blk in fn.blocks:
        items = []
        for i in blk.instructions:
            if isinstance(i, ir.Alloc):
                items.append(f"(alloc {v(i)})" if (i.amount, i.alignment) == (8, 8) else f"(alloc {v(i)} {i.amount} {i.alignment})")
            elif isinstance(i, ir.AddressOf):
                items.append(f"(addrof {v(i)} {v(i.src)})")
            elif isinstance(i, ir.Store):
                items.append(f"(store {v(i.value)} {v(i.address)})")
            elif isinstance(i, ir.Load):
                items.append(f"(load {v(i)} {i.ty.name} {v(i.address)})")
            elif isinstance(i, ir.Const):
                val = float_bits(i.value) if isinstance(i.value, float) else int(i.value)
                items.append(f"(const {v(i)} {i.ty.name} {val})")
            elif isinstance(i, ir.Binop):
                items.append(f"(binop {v(i)} {i.ty.name} {i.operation} {v(i.a)} {v(i.b)})")
            elif isinstance(i, ir.Phi):
                ins = "".join(f" ({b(pb)} {v(pv)})" for pb, pv in i.inputs.items())
                items.append(f"(phi {v(i)} {i.ty.name}{ins})")
            elif isinstance(i, ir.Jump):
                items.append(f"(jump {b(i.target)})")
            elif isinstance(i, ir.CJump):
                items.append(f"(cjump {v(i.a)} {i.cond} {v(i.b)} {b(i.lab_yes)} {b(i.lab_no)})")
            elif isinstance(i, ir.Return):
                items.append(f"(ret {v(i.result)})")
            elif isinstance(i, ir.Exit):
                items.append("(exit)")
            else:
                return None
        out.append(f"({b(blk)}" + "".join(" " + x for x in items) + ")")
    return " ".join(out)


def canon_text(t):
    import re
    names = {}

    def ren(mo):
        tok = mo.group(0)
        key = tok[0]
        if tok not in names:
            names[tok] = f"{key}{sum(1 for k in names if k[0] == key)}"
        return names[tok]
    return re.sub(r"(?<![\w.])[%b]\d+\b", ren, t)


# ---- structure of the real IR: the block-structure facts of the property ---------------------------
def structure_failures(fn):
    """-> list of (signature, text) for one ir function"""
    from ppci import ir
    out = []
    preds = {b: [] for b in fn.blocks}
    for b in fn.blocks:
        last = b.instructions[-1] if b.instructions else None
        for t in dict.fromkeys(getattr(last, "targets", []) or []):
            preds.setdefault(t, []).append(b)
    for b in fn.blocks:
        for i in b.instructions:
            if isinstance(i, ir.Phi):
                ins = list(i.inputs)
                if set(ins) != set(preds[b]) or len(ins) != len(preds[b]):
                    out.append(("gen_for:phi-inputs-not-predecessors",
                                f"phi {i.name} in {b.name}: inputs from {[x.name for x in ins]}, predecessors {[x.name for x in preds[b]]}"))
    return out


class Watch:
    """wrap gen_for / gen_while / gen_continue from outside: which block a `continue` jumps to, and the loop it belongs to"""

    def __init__(self):
        from ppci.lang.python.python2ir import PythonToIrCompiler as C
        self.C = C
        self.records = []

    def __enter__(self):
        C, me = self.C, self
        self.saved = (C.gen_for, C.gen_while, C.gen_continue)
        stack = []

        def gen_for(self, st):
            stack.append(("for", st, self.builder.function))
            try:
                return me.saved[0](self, st)
            finally:
                stack.pop()

        def gen_while(self, st):
            stack.append(("while", st, self.builder.function))
            try:
                return me.saved[1](self, st)
            finally:
                stack.pop()

        def gen_continue(self, st):
            blk = self.builder.block
            r = me.saved[2](self, st)
            jmp = blk.instructions[-1]
            tgt = jmp.target if hasattr(jmp, "target") else None       # read now: deleting an unreachable block clears it
            me.records.append((stack[-1][0] if stack else None, stack[-1][1] if stack else None, blk, jmp, tgt,
                               stack[-1][2] if stack else None))
            return r
        C.gen_for, C.gen_while, C.gen_continue = gen_for, gen_while, gen_continue
        return self

    def __exit__(self, *a):
        self.C.gen_for, self.C.gen_while, self.C.gen_continue = self.saved


def continue_failures(records):
    """a `continue` of a for-loop must jump to a block that adds 1 to the loop phi and feeds it back"""
    from ppci import ir
    out = []
    for kind, node, blk, jmp, t, fn in records:
        if kind != "for" or not isinstance(jmp, ir.Jump) or t is None:
            continue
        if fn is None or blk not in fn.blocks:
            continue                                # the `continue` sits in dead code that delete_unreachable removed
        ok = False
        for i in t.instructions:
            if isinstance(i, ir.Binop) and i.operation == "+" and isinstance(i.a, ir.Phi) and isinstance(i.b, ir.Const) and i.b.value == 1:
                phi = i.a
                if phi.inputs.get(t) is i and isinstance(t.instructions[-1], ir.Jump) and t.instructions[-1].target is phi.block:
                    ok = True
        if not ok:
            out.append(("gen_for:continue-skips-increment",
                        f"`continue` (line {getattr(node, 'lineno', '?')}) jumps to {t.name}, which does not increment the loop counter"))
    return out


# ---------------------------------------------------------------------------------------------
def compared_constants(x, inside=False, acc=None):
    """integer literals that occur inside a comparison of a function body"""
    acc = set() if acc is None else acc
    if isinstance(x, (list, tuple)):
        if x and x[0] == "cmp":
            inside = True
        if inside and len(x) == 2 and x[0] == "num":
            acc.add(x[1])
        for y in x:
            compared_constants(y, inside, acc)
    return acc


def arg_vectors(rng, f, n):
    out = []
    # boundary-directed: every int parameter at c-1, c, c+1 for constants c that are compared somewhere in the function
    cs = sorted(c for c in compared_constants(f["body"]) if abs(c) < (1 << 40))
    for c in rng.sample(cs, min(len(cs), 2)):
        for d in (-1, 0, 1):
            out.append([(c + d if t == "int" else float(c + d)) for _, t in f["params"]])
    small = [0, 1, 2, 3, 4, 5, 6, 7, -1, -2, -3, -5, 10]
    for k in range(n):
        v = []
        for _, t in f["params"]:
            if t == "float":
                v.append(rng.choice([0.0, 1.0, -1.5, 2.5, 0.1, 100.0, -0.0, 1e300, 3.0]))
            elif k == 0:
                v.append(rng.choice([3, 4, 5, 6]))
            elif rng.random() < 0.8:
                v.append(rng.choice(small))
            else:
                v.append(rng.choice([1 << 31, -(1 << 31), (1 << 62), -(1 << 62), I64_MAX, I64_MIN, 1000, -1000]))
        out.append(v)
    return out


class Batch:
    """all requests of one run go to each Lean driver in ONE process (start-up dominates under load)"""

    def __init__(self):
        self.parts = {"C36": [], "IR": []}

    def add(self, driver, lines, handler):
        if lines:
            self.parts[driver].append((list(lines), handler))

    def flush(self, ctx):
        import concurrent.futures

        def one(name):
            parts = self.parts[name]
            lines = [l for ls, _ in parts for l in ls]
            return ctx.driver(name, lines, timeout=1200) if lines else []
        with concurrent.futures.ThreadPoolExecutor(2) as ex:
            futs = {n: ex.submit(one, n) for n in self.parts}
            reps = {n: f.result() for n, f in futs.items()}
        for name, parts in self.parts.items():
            k = 0
            for ls, handler in parts:
                handler(reps[name][k:k + len(ls)])
                k += len(ls)
        self.parts = {"C36": [], "IR": []}


def run_programs(ctx, mods, spec_budget, batch):
    """compile, execute (ir2py + Spec.IR), compare with CPython; structural checks; model correspondence"""
    from ppci import ir
    from . import irser, irrun
    ir_lines, ir_meta = ["config ptr 8"], [None]
    gen_lines, gen_meta = [], []
    steps_left = spec_budget
    for mi, m in enumerate(mods):
        src = r_module(m, False)
        ctx.count("programs_generated")
        with Watch() as w:
            mod, exc = compile_real(src, m["ext"], verify=False)
        if mod is not None:
            found = continue_failures(w.records)
            for fn in mod.functions:
                found += structure_failures(fn)
            for sig, text in found:
                ctx.fail(sig, text, {"source": src, "module": m})
            ctx.count("eval_structure", len(mod.functions))
        mod2, exc2 = compile_real(src, m["ext"], verify=True)
        if mod2 is None:
            name = type(exc2).__name__
            ctx.count("compile_" + name)
            from ppci.common import CompilerError
            if isinstance(exc2, BudgetExceeded):
                ctx.fail("compile:does-not-terminate", f"python_to_ir did not finish within {COMPILE_BUDGET_S} CPU seconds", {"source": src, "module": m})
            elif not isinstance(exc2, CompilerError):
                where = ""
                tb = exc2.__traceback__
                while tb is not None:
                    where = tb.tb_frame.f_code.co_name
                    tb = tb.tb_next
                ctx.fail(f"compile:internal-error:{name}:{where}",
                         f"python_to_ir raised {name}: {str(exc2)[:120]} on a function of the supported subset", {"source": src, "module": m})
            else:
                ctx.fail("compile:diagnostic-on-supported-subset", f"python_to_ir rejected a function of the supported subset: {exc2}",
                         {"source": src, "module": m})
            continue
        ctx.count("programs")
        for ft in m["features"]:
            ctx.count("feature_" + ft)
        # ---- model correspondence (call-free functions) -----------------------------------------
        for f, fn in zip(m["funcs"], mod2.functions):
            if has_call(f["body"]):
                ctx.count("model_skipped_call")
                continue
            real = render_real(fn)
            if real is None:
                ctx.count("model_skipped_instr")
                continue
            gen_lines.append(m_func(f))
            gen_meta.append((src, f["name"], canon_text(real)))
        # ---- execution ------------------------------------------------------------------------------
        gobj = types.SimpleNamespace(module=mod2, externals=[("ext", [ir.i64, ir.i64], ir.i64)] if m["ext"] else [])
        try:
            py = load_compiled(gobj)
        except Exception as e:  # noqa: BLE001
            ctx.fail(f"ir2py:cannot-load:{type(e).__name__}", f"ir_to_python output of the compiled module does not load: {e}"[:200], {"source": src})
            py = None
        text = irser.serialize(mod2)
        loaded = False
        for f, fn in zip(m["funcs"], mod2.functions):
            tys = [ir.i64 if t == "int" else ir.f64 for _, t in f["params"]]
            entry = types.SimpleNamespace(name=fn.name, params=tys, ret=ir.i64 if f["ret"] == "int" else ir.f64)
            for args in arg_vectors(ctx.rng, f, 4 if not ctx.thorough else 6):
                ref = cpython(m, f["name"], args)
                if ref[0] == "skip":
                    ctx.count("skipped_" + ref[1].replace(" ", "-"))
                    continue
                want = canon_result(ref[1], ref[2])
                case = {"source": src, "function": f["name"], "args": [show(a) for a in args], "module": m}
                ctx.count("eval_program_run")
                key = (src, f["name"], tuple(show(a) for a in args))
                if any(k in m["features"] for k in ("for", "while", "call", "import", "floordiv", "corpus")):
                    ctx.nontrivial(hash(key))
                if py is not None:
                    got = run_compiled(py, entry, args)
                    if got == "does-not-terminate":
                        ctx.fail("program:does-not-terminate",
                                 f"{f['name']}{tuple(args)}: CPython returns {want}, the compiled code is still running after {RUN_BUDGET_S} CPU seconds "
                                 f"(loop that does not terminate)", case, got=got, want=want)
                    elif got.startswith("exception"):
                        ctx.fail("program:ir2py-exception", f"{f['name']}{tuple(args)}: CPython {want}, compiled code raised {got}", case, got=got, want=want)
                    elif canon_reply(got) != want:
                        ctx.fail("program:wrong-return-value", f"{f['name']}{tuple(args)}: CPython {want}, compiled code (ir2py) {canon_reply(got)}",
                                 case, got=canon_reply(got), want=want)
                if steps_left > 0 and not (py is not None and got == "does-not-terminate"):
                    if not loaded:
                        ir_lines.append("load " + text); ir_meta.append(("load", src))
                        ir_lines.append("wf"); ir_meta.append(("wf", src))
                        loaded = True
                    a = " ".join(irrun.show_arg(t, v) for t, v in zip(tys, args))
                    ir_lines.append(f"run {fn.name} 20000{' ' if a else ''}{a}")
                    ir_meta.append(("run", case, want))
                    steps_left -= 400
        if len(ctx.samples) < 3:
            ctx.sample({"source": src})
    # ---- Spec.IR ---------------------------------------------------------------------------------------
    def on_ir(rep):
        for line, meta, r in zip(ir_lines, ir_meta, rep):
            if meta is None:
                continue
            if meta[0] == "load":
                if not r.startswith("ok"):
                    raise common.BrokenCheck(f"IR driver cannot load a serialised module: {r}\n{line[:300]}")
            elif meta[0] == "wf":
                ctx.count("eval_wf")
                if r != "ok 1":
                    ctx.fail("wf:" + r[5:].split(";")[0].split(":")[-1].split(",")[0], f"compiled module is not well-formed IR: {r}", {"source": meta[1]})
            else:
                _, case, want = meta
                ctx.count("eval_program_run_spec")
                if r.startswith("ok ret="):
                    got = canon_reply(irrun.strip_steps(r)[3:])
                    if got != want:
                        ctx.fail("program:wrong-return-value", f"{case['function']}{tuple(case['args'])}: CPython {want}, Spec.IR {got}", case, got=got, want=want)
                elif r == "ok out-of-fuel":
                    ctx.count("spec_out_of_fuel")
                else:
                    ctx.fail("program:undefined-behaviour", f"{case['function']}{tuple(case['args'])}: CPython {want}, Spec.IR {r}", case, got=r, want=want)
    if len(ir_lines) > 1:
        batch.add("IR", ir_lines, on_ir)

    # ---- the model ----------------------------------------------------------------------------------------
    def on_gen(rep):
        for line, (src, fname, real), r in zip(gen_lines, gen_meta, rep):
            ctx.count("eval_model_function")
            if r.startswith("ok "):
                mtxt = canon_text(r[3:])
                if mtxt != real:
                    ctx.disagree("genFunction", {"source": src, "function": fname, "request": line}, real, mtxt)
            else:
                ctx.disagree("genFunction", {"source": src, "function": fname, "request": line}, real, r)
    batch.add("C36", gen_lines, on_gen)


# ---- operators ----------------------------------------------------------------------------------------------
def operand_pairs(ctx):
    r = ctx.rng
    base = [0, 1, -1, 2, -2, 3, -3, 7, -7, 10, -10, 100, -100, (1 << 31) - 1, 1 << 31, -(1 << 31), (1 << 32) + 1, 1 << 53, (1 << 53) + 1,
            -(1 << 53) - 1, 1 << 62, -(1 << 62), I64_MAX, I64_MAX - 1, I64_MIN, I64_MIN + 1]
    if not ctx.thorough:
        base = [0, 1, -1, 2, -3, 7, -7, (1 << 31), -(1 << 53) - 1, 1 << 62, I64_MAX, I64_MIN]
    pairs = [(a, b) for a in base for b in base]
    for _ in range(3000 if ctx.thorough else 60):
        ba, bb = r.choice([4, 8, 16, 32, 63]), r.choice([2, 4, 8, 16, 32, 63])
        pairs.append((r.randint(-(1 << ba), 1 << ba), r.randint(-(1 << bb), 1 << bb)))
    pairs = [(7, 2), (-7, 2), (7, -2), (-7, -2), (6, 3), (-6, 3), (0, 5), (0, -5)] + pairs
    return [(max(I64_MIN, min(I64_MAX, a)), max(I64_MIN, min(I64_MAX, b))) for a, b in pairs]


def py_apply(op, a, b):
    try:
        return {"Add": lambda: a + b, "Sub": lambda: a - b, "Mult": lambda: a * b, "FloorDiv": lambda: a // b,
                "Div": lambda: a / b, "Mod": lambda: a % b}[op]()
    except ZeroDivisionError:
        return "ZeroDivisionError"
    except OverflowError:
        return "OverflowError"


def check_operators(ctx, batch):
    from ppci import ir
    from ppci.common import CompilerError
    from . import irser, irrun
    pairs = operand_pairs(ctx)
    nfail = {}

    def fail(sig, what, case, **kw):
        nfail[sig] = nfail.get(sig, 0) + 1
        if nfail[sig] <= 5:                 # a handful of witnesses per failure class is enough
            ctx.fail(sig, what, case, **kw)
        else:
            ctx.count("more_failures_" + sig)
    lines, meta = [], []
    ir_lines, ir_meta = ["config ptr 8"], [None]
    for op in ["Add", "Sub", "Mult", "FloorDiv", "Div", "Mod"]:
        src = f"def f(a: int, b: int) -> int:\n    return a {OPSYM[op]} b\n"
        mod, exc = compile_real(src, False)
        if mod is None:
            ctx.count(f"operator_{op}_rejected_{type(exc).__name__}")
            if not isinstance(exc, CompilerError):
                ctx.fail(f"compile:internal-error:{type(exc).__name__}:binop-{op}", f"`a {OPSYM[op]} b` raises {type(exc).__name__}", {"source": src})
            lines.append(f"arith {op} 1 1"); meta.append(("rejected", op, None, None))
            continue
        gobj = types.SimpleNamespace(module=mod, externals=[])
        py = load_compiled(gobj)
        entry = types.SimpleNamespace(name="f", params=[ir.i64, ir.i64], ret=ir.i64)
        ir_lines.append("load " + irser.serialize(mod)); ir_meta.append(None)
        for k, (a, b) in enumerate(pairs):
            want = py_apply(op, a, b)
            got = run_compiled(py, entry, [a, b])
            if got == "does-not-terminate":
                got = "exception does-not-terminate"
            got = canon_reply(got).split(" ")[0][4:] if not got.startswith("exception") else got
            lines.append(f"arith {op} {a} {b}"); meta.append(("arith", op, (a, b), got))
            lines.append(f"pybinop {op} {a} {b}"); meta.append(("spec", op, (a, b), want))
            ctx.count("eval_operator")
            if isinstance(want, int) and (a < 0 or b < 0 or not (-(1 << 31) <= want < (1 << 31))):
                ctx.nontrivial(("op", op, a, b))
            in_domain = not isinstance(want, str) and (isinstance(want, float) or I64_MIN <= want <= I64_MAX)
            if in_domain:
                bad = got.startswith("exception") or want != int(got)
                if bad:
                    sig = "binop:Div:int-operands-truncating-division" if op == "Div" else f"binop:{op}:wrong-value"
                    fail(sig, f"{a} {OPSYM[op]} {b}: CPython {want!r}, compiled code {got}", {"op": op, "a": a, "b": b}, got=got, want=repr(want))
                if k < (60 if ctx.thorough else 30) or k % 23 == 0:
                    ir_lines.append(f"run f 100 {a} {b}"); ir_meta.append((op, a, b, want))
    def on_c36(rep):
        for line, (kind, op, ab, val), r in zip(lines, meta, rep):
            if kind == "rejected":
                if not r.startswith("err "):
                    ctx.disagree("genArith", line, "rejected", r)
            elif kind == "arith":
                # correspondence: the model's code evaluated by Spec.IRArith vs the real code executed by ir2py
                if r.startswith("ok ") and r != "ok undefined":
                    if val != r[3:]:
                        ctx.disagree("genArith-value", line, val, r)
                elif r.startswith("err"):
                    ctx.disagree("genArith", line, val, r)
            else:
                # validation of Spec.Py against CPython
                if isinstance(val, str):
                    exp = "ok " + val
                elif isinstance(val, float):
                    exp = f"ok quot {ab[0]} {ab[1]}"
                else:
                    exp = f"ok int {val}"
                if r != exp:
                    ctx.disagree("Spec.Py.binop", line, exp, r)

    def on_ir(rep):
        for line, meta_, r in zip(ir_lines, ir_meta, rep):
            if meta_ is None:
                continue
            op, a, b, want = meta_
            ctx.count("eval_operator_spec")
            got = canon_reply(irrun.strip_steps(r)[3:]).split(" ")[0][4:] if r.startswith("ok ret=") else r
            if not (r.startswith("ok ret=") and int(got) == want):
                sig = "binop:Div:int-operands-truncating-division" if op == "Div" else f"binop:{op}:wrong-value"
                fail(sig, f"{a} {OPSYM[op]} {b}: CPython {want!r}, Spec.IR {got}", {"op": op, "a": a, "b": b}, got=got, want=repr(want))
    batch.add("C36", lines, on_c36)
    batch.add("IR", ir_lines, on_ir)
    # float floor division: not an integer operation; it must not silently become a true division
    src = "def f(a: float, b: float) -> float:\n    return a // b\n"
    mod, exc = compile_real(src, False)
    if mod is not None:
        py = load_compiled(types.SimpleNamespace(module=mod, externals=[]))
        got = run_compiled(py, types.SimpleNamespace(name="f", params=[ir.f64, ir.f64], ret=ir.f64), [7.0, 2.0])
        if canon_reply(got) != canon_result(7.0 // 2.0, []):
            ctx.fail("binop:FloorDiv:float-operands-wrong-value", f"7.0 // 2.0: CPython 3.0, compiled code {canon_reply(got)}", {"source": src})
    else:
        ctx.count("operator_FloorDiv_float_rejected_" + type(exc).__name__)
        if not isinstance(exc, CompilerError):
            ctx.fail(f"compile:internal-error:{type(exc).__name__}:binop-FloorDiv-float", "float // float raises an internal error", {"source": src})


CONTEXTS = {
    "if": "def f(a: int, b: int) -> int:\n    if a {op} b:\n        return 1\n    return 0\n",
    "while": "def f(a: int, b: int) -> int:\n    n = 0\n    while a {op} b:\n        n = n + 1\n        a = a + 1\n        if n > 4:\n            break\n    return n\n",
    "and-left": "def f(a: int, b: int) -> int:\n    n = 0\n    while a {op} b and n < 3:\n        n = n + 1\n        a = a + 1\n    return n\n",
    "and-right": "def f(a: int, b: int) -> int:\n    n = 0\n    while n < 3 and a {op} b:\n        n = n + 1\n        b = b - 1\n    return n\n",
    "or": "def f(a: int, b: int) -> int:\n    if a > 100 or a {op} b:\n        return 1\n    return 0\n",
}
# a literal on one side of the comparison (canonicalising "constant to the right" rewrites live here); `{c}` is the literal.
# The argument vectors are boundary-directed: c-1, c, c+1 and the ends of the range.
CONST_CONTEXTS = {
    "const-left-if": "def f(a: int, b: int) -> int:\n    if {c} {op} b:\n        return 1\n    return 0\n",
    "const-right-if": "def f(a: int, b: int) -> int:\n    if b {op} {c}:\n        return 1\n    return 0\n",
    "const-left-while": "def f(a: int, b: int) -> int:\n    n = 0\n    while {c} {op} b and n < 3:\n        n = n + 1\n        b = b + a\n    return n\n",
    "const-right-while": "def f(a: int, b: int) -> int:\n    n = 0\n    while n < 3 and b {op} {c}:\n        n = n + 1\n        b = b + a\n    return n\n",
    "const-left-or": "def f(a: int, b: int) -> int:\n    if a > 100 or {c} {op} b:\n        return 1\n    return 0\n",
    "const-const": "def f(a: int, b: int) -> int:\n    if {c} {op} 3:\n        return 1\n    return 0\n",
    "const-left-for": "def f(a: int, b: int) -> int:\n    n = 0\n    for i in range(5):\n        if {c} {op} i:\n            n = n + 1\n        if i {op} {c}:\n            n = n + 10\n    return n\n",
}


def check_comparisons(ctx, batch):
    from ppci import ir
    from . import irrun
    grid = [-3, -1, 0, 1, 2, 5, I64_MIN, I64_MAX] if ctx.thorough else [-2, -1, 0, 1, 3, I64_MIN, I64_MAX]
    lines, meta = [], []
    for op, sym in CMPSYM.items():
        for cname, tmpl in CONTEXTS.items():
            src = tmpl.format(op=sym)
            mod, exc = compile_real(src, False)
            if mod is None:
                ctx.fail(f"compile:internal-error:{type(exc).__name__}:compare-{op}", f"comparison {sym} in {cname} does not compile: {exc}", {"source": src})
                continue
            py = load_compiled(types.SimpleNamespace(module=mod, externals=[]))
            entry = types.SimpleNamespace(name="f", params=[ir.i64, ir.i64], ret=ir.i64)
            ns = {}
            exec(src, ns)
            for a in grid:
                for b in grid:
                    if cname != "if" and cname != "or" and (abs(a) > 100 or abs(b) > 100):
                        continue                      # the loops add to a / b: stay away from the ends of the range
                    want = ns["f"](a, b)
                    got = run_compiled(py, entry, [a, b])
                    ctx.count("eval_comparison")
                    ctx.nontrivial(("cmp", op, cname, a, b))
                    if got == "does-not-terminate":
                        ctx.fail(f"compare:{op}:{cname}:does-not-terminate", f"{cname} context, {a} {sym} {b}: CPython returns {want}, compiled code does not terminate",
                                 {"source": src, "a": a, "b": b}, got=got, want=want)
                    elif canon_reply(got) != f"ret={want} trace=-":
                        ctx.fail(f"compare:{op}:{cname}:wrong-truth-value", f"{cname} context, {a} {sym} {b}: CPython returns {want}, compiled code {canon_reply(got)}",
                                 {"source": src, "a": a, "b": b}, got=got, want=want)
        for cname, tmpl in CONST_CONTEXTS.items():
            for c in ([0, 3, 1000, I64_MAX] if ctx.thorough else [0, 3, I64_MAX]):
                if "while" in cname and c > 1000:
                    continue
                src = tmpl.format(op=sym, c=c)
                mod, exc = compile_real(src, False)
                if mod is None:
                    ctx.fail(f"compile:internal-error:{type(exc).__name__}:compare-{op}", f"comparison {sym} in {cname} does not compile: {exc}", {"source": src})
                    continue
                py = load_compiled(types.SimpleNamespace(module=mod, externals=[]))
                entry = types.SimpleNamespace(name="f", params=[ir.i64, ir.i64], ret=ir.i64)
                ns = {}
                exec(src, ns)
                bs = sorted({v for v in (c - 1, c, c + 1, 0, I64_MIN, I64_MAX) if I64_MIN <= v <= I64_MAX})
                for a in (-1, 0, 1):
                    for b in bs:
                        if "while" in cname and abs(b) > (1 << 62):
                            continue                  # b + a must stay within 64 bits
                        want = ns["f"](a, b)
                        got = run_compiled(py, entry, [a, b])
                        ctx.count("eval_comparison")
                        ctx.nontrivial(("cmp", op, cname, c, a, b))
                        if got == "does-not-terminate":
                            ctx.fail(f"compare:{op}:{cname}:does-not-terminate", f"{cname} context, constant {c}, b = {b}, a = {a}: CPython returns {want}, "
                                     f"compiled code does not terminate", {"source": src, "a": a, "b": b}, got=got, want=want)
                        elif canon_reply(got) != f"ret={want} trace=-":
                            ctx.fail(f"compare:{op}:{cname}:wrong-truth-value",
                                     f"{cname} context, constant {c}, b = {b}, a = {a}: CPython returns {want}, compiled code {canon_reply(got)}",
                                     {"source": src, "a": a, "b": b}, got=got, want=want)
        for a in grid:
            for b in grid:
                lines.append(f"pycmp {op} {a} {b}"); meta.append(("spec", op, a, b))
                lines.append(f"ircmp {op} {a} {b}"); meta.append(("model", op, a, b))
    def on_c36(rep):
        for line, (kind, op, a, b), r in zip(lines, meta, rep):
            want = "ok 1" if eval(f"{a} {CMPSYM[op]} {b}") else "ok 0"
            if r != want:
                ctx.disagree("Spec.Py.CmpOp.holds" if kind == "spec" else "cmpMap", line, want, r)
    batch.add("C36", lines, on_c36)


# ---------------------------------------------------------------------------------------------
def check(ctx):
    batch = Batch()
    check_operators(ctx, batch)
    check_comparisons(ctx, batch)
    mods = corpus_modules()
    n = 260 if ctx.thorough else 50
    for i in range(n):
        mods.append(Gen(ctx.rng, i).module())
    run_programs(ctx, mods, (900000 if ctx.thorough else 60000), batch)
    batch.flush(ctx)
    ctx.extra_cov["exhaustive"] = False


def replay(ctx, rp):
    case = rp.get("case") or {}
    if isinstance(case, dict) and case.get("module"):
        batch = Batch()
        run_programs(ctx, [case["module"]], 100000, batch)
        batch.flush(ctx)
    else:
        check(ctx)
