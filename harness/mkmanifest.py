"""Regenerate /verif/MANIFEST.json from the property modules that exist.
Run:  /venv/bin/python harness/mkmanifest.py"""
import importlib
import json
import sys
from pathlib import Path

VERIF = Path(__file__).resolve().parent.parent
sys.path.insert(0, str(VERIF))

props = [json.loads(l) for l in (VERIF / "properties.jsonl").read_text().splitlines() if l.strip()]
NOT_YET = {}
na_file = VERIF / "harness" / "not_applicable.json"
if na_file.exists():
    NOT_YET = json.loads(na_file.read_text())

checks, na = [], []
for p in props:
    pid = p["id"]
    f = VERIF / "harness" / f"{pid.lower()}.py"
    if f.exists():
        m = importlib.import_module("harness." + pid.lower())
        if getattr(m, "CLAIMED", True):
            checks.append({
                "property_id": pid,
                "quick_cmd": f"./vcheck {pid} --tier quick",
                "thorough_cmd": f"./vcheck {pid} --tier thorough",
                "evidence_file": f"/verif/evidence/{pid}.json",
                "replay_cmd_template": f"./vcheck {pid} --replay {{path}}",
                "engine": "lean4-proof+correspondence",
                "level_claimed": {
                    "category": getattr(m, "LEVEL", "proof"),
                    "text": m.LEVEL_TEXT,
                    "design_ref": f"DESIGN.md section 5, {pid}",
                },
                "level_note": m.LEVEL_NOTE,
                "technique": m.TECHNIQUE,
            })
            continue
    na.append({"property_id": pid, "reason": NOT_YET.get(pid, "not built yet in this round: no Lean model/theorem exists for it, so nothing is claimed (see DESIGN.md section 5 for the plan)")})

man = {
    "version": 1,
    "setup_cmd": "cd /verif && ./setup.sh",
    "hooks": {
        "guard": "PPCI_VERIF",
        "enable": "no hooks are compiled into /repo: every observation point is reached from the harness by calling public APIs or wrapping methods from outside",
        "baseline_off_cmd": "cd /repo && /venv/bin/python -m pytest -ra -q -p no:cacheprovider --timeout=900 --continue-on-collection-errors",
        "source_commits": [],
        "add_only": True,
    },
    "engines": [
        {"name": "lean4-proof+correspondence", "path": "/verif/lean", "serves_properties": [c["property_id"] for c in checks],
         "kind_free_text": "Lean 4 theorems about executable models (lean/PpciVerif), tied to /repo on every run by table translation (translate/) and/or differential correspondence through line-protocol drivers (lean/Drivers, harness/)"},
    ],
    "checks": checks,
    "not_applicable": na,
    "notes": "vcheck exit codes: 0 held, 1 VIOLATION (line printed), 2 broken check (tooling). known_findings.json lists open/fixed genuine defects.",
}
(VERIF / "MANIFEST.json").write_text(json.dumps(man, indent=1) + "\n")
print(f"{len(checks)} checks, {len(na)} not_applicable")
