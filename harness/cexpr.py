"""Shared helpers of the C27 / C28 checks: constant-expression trees, their C text, their
driver (prefix) form, batched compilation with the REAL ppci front-end, and gcc as oracle for the
specification Spec.CInt (thorough tier, spec validation only).

tree := ("L", base, suffix, value) | ("C", code) | ("U", op, a) | ("B", op, a, b) | ("Q", c, a, b) | ("K", ty, a)
base: "d" decimal | "x" hexadecimal | "o" octal (both hexoct for C);  suffix: n u l ul ll ull
types: char schar uchar short ushort int uint long ulong llong ullong
"""
import io
import logging
import os
import subprocess
import tempfile

TYPES = ["char", "schar", "uchar", "short", "ushort", "int", "uint", "long", "ulong", "llong", "ullong"]
CNAME = {"char": "char", "schar": "signed char", "uchar": "unsigned char", "short": "short", "ushort": "unsigned short",
         "int": "int", "uint": "unsigned int", "long": "long", "ulong": "unsigned long", "llong": "long long",
         "ullong": "unsigned long long"}
BITS = {"char": 8, "schar": 8, "uchar": 8, "short": 16, "ushort": 16, "int": 32, "uint": 32, "long": 64, "ulong": 64,
        "llong": 64, "ullong": 64}
SUFFIXES = ["n", "u", "l", "ul", "ll", "ull"]
SUFTXT = {"n": "", "u": "u", "l": "l", "ul": "ul", "ll": "ll", "ull": "ull"}
UNOPS = {"neg": "-", "bnot": "~", "lnot": "!", "plus": "+"}
BINOPS = {"add": "+", "sub": "-", "mul": "*", "div": "/", "mod": "%", "shl": "<<", "shr": ">>", "band": "&", "bor": "|",
          "bxor": "^", "lt": "<", "gt": ">", "le": "<=", "ge": ">=", "eq": "==", "ne": "!=", "land": "&&", "lor": "||"}


def proto(e):
    k = e[0]
    if k == "L":
        return f"L {'d' if e[1] == 'd' else 'x'} {e[2]} {e[3]}"
    if k == "C":
        return f"C {e[1]}"
    if k == "U":
        return f"U {e[1]} {proto(e[2])}"
    if k == "B":
        return f"B {e[1]} {proto(e[2])} {proto(e[3])}"
    if k == "Q":
        return f"Q {proto(e[1])} {proto(e[2])} {proto(e[3])}"
    if k == "K":
        return f"K {e[1]} {proto(e[2])}"
    raise ValueError(e)


def render_chr(v, variant=0):
    c = chr(v)
    if variant == 0 and 32 <= v < 127 and c not in "'\\\"?":
        return f"'{c}'"
    if variant == 1:
        return "'\\x%x'" % v
    return "'\\%o'" % v


def render_c(e):
    """fully parenthesised C text"""
    k = e[0]
    if k == "L":
        base, suf, v = e[1], e[2], e[3]
        txt = str(v) if base == "d" else (hex(v) if base == "x" else ("0%o" % v if v else "0"))
        return txt + SUFTXT[suf]
    if k == "C":
        return render_chr(e[1], e[1] % 3 if 32 <= e[1] < 127 else 1 + e[1] % 2)
    if k == "U":
        return f"({UNOPS[e[1]]}{render_c(e[2])})"
    if k == "B":
        return f"({render_c(e[2])} {BINOPS[e[1]]} {render_c(e[3])})"
    if k == "Q":
        return f"({render_c(e[1])} ? {render_c(e[2])} : {render_c(e[3])})"
    if k == "K":
        return f"(({CNAME[e[1]]}){render_c(e[2])})"
    raise ValueError(e)


def size(e):
    return 1 + sum(size(x) for x in e[1:] if isinstance(x, tuple))


def root(e):
    return e[0] + (":" + e[1] if e[0] in "UBK" else "")


def subtrees(e):
    yield e
    for x in e[1:]:
        if isinstance(x, tuple):
            yield from subtrees(x)


# ---------------------------------------------------------------------------------------------
# generation

BOUNDS = sorted({0, 1, 2, 3, 5, 7, 8, 10, 31, 32, 33, 63, 64, 100, 127, 128, 129, 200, 255, 256, 257, 300, 1000,
                 32767, 32768, 65535, 65536, 2147483647, 2147483648, 2147483649, 4294967295, 4294967296,
                 4294967297, 9007199254740993, 1000000000000000007, 9223372036854775807, 9223372036854775808,
                 18446744073709551615})


def gen_lit(rng, small=False):
    r = rng.random()
    if small or r < 0.55:
        v = rng.randint(0, 12)
    elif r < 0.85:
        v = rng.choice(BOUNDS)
    elif r < 0.97:
        v = rng.getrandbits(rng.choice([8, 16, 31, 32, 33, 63, 64]))
    else:
        v = (1 << 64) + rng.randint(0, 5)            # has no type: diagnostic expected
    base = rng.choice("ddxxo") if not small else "d"
    suf = rng.choice(SUFFIXES) if rng.random() < 0.45 else "n"
    return ("L", base, suf, v)


WIDE = sorted({(1 << 53) - 1, 1 << 53, (1 << 53) + 1, (1 << 53) + 3, 9007199254740993, (1 << 62) - 1, (1 << 62) + 1,
               (1 << 63) - 1, (1 << 63) - 2, (1 << 63) - 25, 1 << 63, (1 << 63) + 1, (1 << 64) - 1, (1 << 64) - 2,
               (1 << 64) - 59, 10 ** 18, 10 ** 18 + 7, 999999999999999989, 1234567890123456789, 12345678901234567890,
               4611686018427387847, 6148914691236517205, 0x7fffffff00000001, 0xfffffffffffffffb})
WIDE_TYPES = ["long", "llong", "ulong", "ullong"]
SUF_OF = {"long": "l", "llong": "ll", "ulong": "ul", "ullong": "ull"}


def gen_wide_binop(rng, op=None):
    """one binary operator on operands of the 64-bit range (beyond 2^53: not representable as a double), for every
    operator incl. / % << >> and the comparisons, at the types long / long long / unsigned long / unsigned long long"""
    op = op or rng.choice(list(BINOPS))
    ta, tb = rng.choice(WIDE_TYPES), rng.choice(WIDE_TYPES)

    def operand(t):
        r = rng.random()
        v = rng.choice(WIDE) if r < 0.7 else rng.getrandbits(rng.randint(60, 64)) | (1 << 59)
        if t in ("long", "llong") and v > (1 << 63) - 1:
            v = v % (1 << 63) | (1 << 55)
        e = ("L", rng.choice("dx"), SUF_OF[t], v)
        if t in ("long", "llong") and rng.random() < 0.3:
            e = ("U", "neg", e)
        return e
    a = operand(ta)
    if op in ("shl", "shr"):
        b = ("L", "d", rng.choice(["n", "u", "l"]), rng.choice([0, 1, 2, 3, 7, 8, 11, 31, 32, 33, 52, 53, 54, 62, 63]))
    elif op in ("div", "mod") and rng.random() < 0.6:
        b = ("L", "d", rng.choice(["n", SUF_OF[tb]]), rng.choice([1, 2, 3, 4, 7, 10, 1000, 4096, 65537, 1000003, (1 << 31) - 1, (1 << 32) + 1]))
        if rng.random() < 0.25:
            b = ("U", "neg", b)
    else:
        b = operand(tb)
    return ("B", op, a, b)


def gen_expr(rng, depth, ops=None):
    """random tree; `ops` restricts the operator names (both unary and binary)"""
    if depth <= 0 or rng.random() < 0.18:
        if rng.random() < 0.08:
            return ("C", rng.choice([0, 1, 10, 39, 48, 65, 92, 97, 126, 127, 128, 200, 255]))
        return gen_lit(rng)
    r = rng.random()
    if r < 0.14:
        op = rng.choice(list(UNOPS))
        return ("U", op, gen_expr(rng, depth - 1, ops))
    if r < 0.30:
        return ("K", rng.choice(TYPES), gen_expr(rng, depth - 1, ops))
    if r < 0.38:
        return ("Q", gen_expr(rng, depth - 1, ops), gen_expr(rng, depth - 1, ops), gen_expr(rng, depth - 1, ops))
    op = rng.choice(ops or list(BINOPS))
    a = gen_expr(rng, depth - 1, ops)
    if op in ("shl", "shr") and rng.random() < 0.8:
        b = ("L", "d", rng.choice(["n", "n", "u", "l"]), rng.choice([0, 1, 2, 3, 7, 8, 15, 16, 31, 32, 33, 63, 64]))
    elif op in ("div", "mod") and rng.random() < 0.5:
        b = ("L", "d", "n", rng.choice([1, 2, 3, 7, 10]))
        if rng.random() < 0.4:
            b = ("U", "neg", b)
    else:
        b = gen_expr(rng, depth - 1, ops)
    return ("B", op, a, b)


# ---------------------------------------------------------------------------------------------
# the real front-end

def classify(exc):
    from ppci.common import CompilerError
    if isinstance(exc, CompilerError):
        return "diag"
    return "internal:" + type(exc).__name__


def quiet():
    logging.disable(logging.CRITICAL)


def compile_unit(src):
    """-> ("ok", ir module) | ("diag", msg) | ("internal:<Exc>", msg)"""
    from ppci.api import c_to_ir
    quiet()
    try:
        return ("ok", c_to_ir(io.StringIO(src), "x86_64"))
    except Exception as e:  # noqa
        return (classify(e), str(getattr(e, "msg", e))[:200])


def var_bytes(module, name):
    for v in module.variables:
        if v.name == name:
            if v.value is None:
                return None
            out = b""
            for part in v.value:
                if not isinstance(part, (bytes, bytearray)):
                    return "reloc"
                out += bytes(part)
            return out
    return None


def var_amount(module, name):
    for v in module.variables:
        if v.name == name:
            return v.amount
    return None


def case_const(module, fname):
    """the constant the switch of function `fname` compares with (first CJump `==`)"""
    from ppci import ir
    for f in module.functions:
        if f.name == fname:
            for b in f.blocks:
                for i in b:
                    if isinstance(i, ir.CJump) and i.cond == "==" and isinstance(i.b, ir.Const):
                        return i.b.value
    return None


def decl_for(kind, idx, ty, e):
    """one external declaration observing `e` in context `kind`; returns (text, reader)"""
    c = render_c(e)
    if kind == "init":
        return f"{CNAME[ty]} v{idx} = {c};", lambda m: var_bytes(m, f"v{idx}")
    if kind == "einit":
        return f"enum EE{idx} {{ Z{idx} }}; enum EE{idx} v{idx} = {c};", lambda m: var_bytes(m, f"v{idx}")
    if kind == "pinit":
        return f"char *v{idx} = (char *){c};", lambda m: var_bytes(m, f"v{idx}")
    if kind == "case":
        return (f"int f{idx}({CNAME[ty]} x) {{ switch (x) {{ case {c}: return 1; default: return 0; }} }}",
                lambda m: case_const(m, f"f{idx}"))
    if kind == "enum":
        return f"enum {{ E{idx} = {c} }}; long long v{idx} = E{idx};", lambda m: var_bytes(m, f"v{idx}")
    if kind == "arr":
        return f"char v{idx}[{c}];", lambda m: var_amount(m, f"v{idx}")
    raise ValueError(kind)


def run_batch(items, batch=150):
    """items: list of (kind, ty, tree, expect_ok).  Returns list of ("ok", observed) | (class, msg).
    Declarations the model expects to compile are batched into one translation unit; a batch that
    raises is split until the offending declaration is alone."""
    res = [None] * len(items)

    def go(idxs):
        decls, readers = [], []
        for i in idxs:
            kind, ty, e, _ = items[i]
            d, r = decl_for(kind, i, ty, e)
            decls.append(d)
            readers.append(r)
        st, m = compile_unit("\n".join(decls) + "\n")
        if st == "ok":
            for i, r in zip(idxs, readers):
                res[i] = ("ok", r(m))
        elif len(idxs) == 1:
            res[idxs[0]] = (st, m)
        else:
            h = len(idxs) // 2
            go(idxs[:h])
            go(idxs[h:])

    good = [i for i, it in enumerate(items) if it[3]]
    bad = [i for i, it in enumerate(items) if not it[3]]
    for k in range(0, len(good), batch):
        go(good[k:k + batch])
    for i in bad:
        go([i])
    return res


# ---------------------------------------------------------------------------------------------
# gcc as the oracle of the specification

GENERIC = ", ".join(f'{CNAME[t]}: "{t}"' for t in TYPES)


def gcc_eval(cases, workdir=None):
    """cases: list of (kind, ty, tree[, predicted label]).  Compiles ONE program with gcc -std=c11 and returns per case
    ("ok", type-name-of-expression, observed) where observed is hex bytes (init), int (case/enum/arr).
    All cases must be constant expressions gcc accepts (the caller sends spec-defined ones only)."""
    lines = ["#include <stdio.h>", f"#define TYPENAME(e) _Generic((e), {GENERIC}, default: \"other\")",
             "static void dump(const void *p, int n) { const unsigned char *c = p; for (int i = 0; i < n; i++) printf(\"%02x\", c[i]); }"]
    body = []
    for i, case in enumerate(cases):
        kind, ty, e = case[:3]
        c = render_c(e)
        if kind == "init":
            lines.append(f"static {CNAME[ty]} v{i} = {c};")
            body.append(f'printf("%s ", TYPENAME({c})); dump(&v{i}, sizeof v{i}); printf("\\n");')
        elif kind == "einit":
            lines.append(f"enum EE{i} {{ Z{i} }}; static enum EE{i} v{i} = {c};")
            body.append(f'printf("%s ", TYPENAME({c})); dump(&v{i}, sizeof v{i}); printf("\\n");')
        elif kind == "pinit":
            lines.append(f"static char *v{i} = (char *){c};")
            body.append(f'printf("%s ", TYPENAME({c})); dump(&v{i}, sizeof v{i}); printf("\\n");')
        elif kind == "case":
            # `ty` is the PROMOTED controlling type, case[3] the label value the specification predicts:
            # the switch must select the label for exactly that value
            lit = f"({case[3]}ll)" if case[3] != -(1 << 63) else "(-9223372036854775807ll - 1)"
            if case[3] > (1 << 63) - 1:
                lit = f"({case[3]}ull)"
            lines.append(f"static int f{i}({CNAME[ty]} x) {{ switch (x) {{ case {c}: return 1; default: return 0; }} }}")
            body.append(f'printf("%s %d%d\\n", TYPENAME({c}), f{i}(({CNAME[ty]}){lit}), f{i}(({CNAME[ty]})({lit} + 1)));')
        elif kind == "enum":
            lines.append(f"enum {{ E{i} = {c} }};")
            body.append(f'printf("%s %lld\\n", TYPENAME({c}), (long long)E{i});')
        elif kind == "arr":
            lines.append(f"static char v{i}[{c}];")
            body.append(f'printf("%s %lu\\n", TYPENAME({c}), (unsigned long)sizeof v{i});')
    lines.append("int main(void) {")
    lines += body
    lines.append("return 0; }")
    d = tempfile.mkdtemp(prefix="c27gcc", dir=workdir or "/tmp")
    try:
        src = os.path.join(d, "t.c")
        with open(src, "w") as f:
            f.write("\n".join(lines) + "\n")
        p = subprocess.run(["gcc", "-std=c11", "-w", "-O0", "-o", os.path.join(d, "t"), src], capture_output=True, text=True)
        if p.returncode != 0:
            return None, p.stderr[-1500:]
        q = subprocess.run([os.path.join(d, "t")], capture_output=True, text=True, timeout=60)
        out = [l.split() for l in q.stdout.splitlines()]
        return out, ""
    finally:
        for fn in os.listdir(d):
            os.unlink(os.path.join(d, fn))
        os.rmdir(d)
