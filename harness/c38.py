"""C38 constant folding = run-time arithmetic.

regen : dumps the live `ConstantFolder().ops` table (key -> wrapped Python function), the
        integer types of ppci.ir and `Binop.ops` into lean/PpciVerif/Gen/ConstFold.lean;
        Props.C38.ops_table_matches_source / int_types_match_source re-check the model against it.
check : runs the REAL pass (ConstantFolder().run on 2-5-instruction functions built with
        ppci.irutils.Builder), compares what it did with Model.ConstFold.onInstr (correspondence)
        and evaluates the property on the real output with Spec.IRArith as oracle (both through
        the Lean driver Drivers/C38.lean)."""
from . import common

PROP = "C38"
LEAN_PROPS = "PpciVerif/Props/C38.lean"
LEAN_TARGETS = ["PpciVerif.Props.C38", "Drivers.C38"]
LEVEL = "proof"
LEVEL_TEXT = (
    "Lean theorems, for ALL eight integer IR types, ALL operators in ConstantFolder.ops (+ - * % << >>) and ALL operand values of the type "
    "(no bound): if the run-time operation is defined with value v (Spec.IRArith: wrap-around + - *, truncating %, shifts for 0<=count<bits, "
    "arithmetic/logical >>) then the folder's evaluation returns exactly v; every constant the folder creates lies in its type's range (also for "
    "undefined operands); integer casts fold to the wrapped value; the same for arbitrarily nested constant expressions (induction over the "
    "tree, as eval_const recurses); the chain rewrites (y+c1)+c2 -> y+c3 and (y-c1)-c2 -> y-c3 produce an in-range c3 and the same run-time "
    "value for every y, and c3 is the only in-range constant with that property; the matcher of on_block is characterised operand position by "
    "operand position (chain_matcher_exact; inner/outer constant on the left are left alone) and EVERY rewrite it accepts, and the whole pass over a "
    "single-block function (passTree), preserves the run-time value for all parameter values (rewrite_sound, pass_preserves_value); operations that are undefined for their constant operands "
    "(x % 0, negative shift count) are left unfolded and the pass raises nothing on any well-formed integer constant tree. The operator table and the integer type table of the model are "
    "re-checked (decide) against a dump of the live ppci objects on every run; the leaf helpers correct/cast/irem are translated from the source "
    "text of the checked tree to Lean (Gen.Py_constantfolding, T1 py2lean) on every run and proved equal to the hand model for every value and "
    "type descriptor (gen_correct_eq_model, gen_cast_eq_model, gen_irem_eq_model; gen_correct_eq_wrap, gen_cast_agrees, gen_irem_eq_tmod restate the "
    "facts the folding theorems rest on about the regenerated functions); the hand model of eval_const/on_block (and of the helpers) is tied to the "
    "source by a differential run of the real pass."
)
LEVEL_NOTE = (
    "trusted: Lean kernel; axioms propext/Classical.choice/Quot.sound; Spec.IRArith (IR run-time arithmetic written from DESIGN S2, not validated "
    "against a native run here); the T1 translator translate/py2lean.py and its reading of Python (translate/SEMANTICS.md; `ty` seen through the int "
    "attributes bits/signed/is_integer and the two isinstance tests) for correct/cast/irem; for eval_const/on_block the hand model <-> source correspondence is sampled (8-bit operand pairs exhaustive in thorough, boundary+random "
    "16/32/64-bit), not proved; CPython int semantics of + - * % << >> abs bit_length as modelled. Not covered: float/ptr casts, '/', '&', '|', '^' "
    "(not in the folder's table, never folded), the replace_by/insert_instruction graph surgery (C02/C03)."
)
TECHNIQUE = ("Lean 4 proof (case split over the 8 types, omega on the wrap arithmetic, induction over expression trees) about a hand model, "
             "+ table translation (ops/types dumped from live objects, decide) + source translation (py2lean) of correct/cast/irem with machine-checked "
             "equality regenerated definition = hand model + differential correspondence of the real pass with the model")
RULE = ("binop cases: 8-bit types every operand pair per folder operator (thorough; quick: ~45 left operands x all 256 right operands), "
        "16/32/64-bit: boundary set {min,max,min+1,max-1,0,+-1,+-2^k,+-2^k+-1} x boundary/random + small divisors, shift counts over the whole "
        "range 0..bits-1 plus out-of-range counts; casts between all 64 ordered type pairs; chains (y op c1) op c2 incl. mixed operators; every chain "
        "SHAPE (operators {+,-} x {+,-} and non-chain operators, inner/outer constant left/right/both/neither, second parameter, length-3 chains, the chain "
        "value used twice, chains through casts) - each function the real pass changes is read back whole and compared before/after under Spec for all y "
        "(8-bit) or boundary+random y; nested "
        "constant trees to depth 3. distinct = distinct (tree); non-trivial = exact result outside the type's range (wrap needed), a negative "
        "operand of % or >>, an undefined operation, a value-changing cast, or a chain whose c1+c2 needs wrapping")
TRUSTED = [
    "translate/py2lean.py (T1 translator; reading of the Python fragment in translate/SEMANTICS.md) + runtime Model.PyRt/Model.PyInt: "
    "Gen.Py_constantfolding is its output for correct/cast/irem of ppci/opt/constantfolding.py of the checked tree",
    "hand model Model.ConstFold of ppci/opt/constantfolding.py (Python % = Int.fmod, << = *2^n, >> = floor /2^n, bit_length = log2+1), tied by differential run of the real pass on every check",
    "Gen.ConstFold: dump of ConstantFolder().ops (closure introspection of enhance()), ir.value_types, ir.Binop.ops by harness/c38.py regen()",
    "Spec.IRArith / Spec.ConstExpr: run-time integer semantics of the IR (DESIGN S2); ppci's own ir2py run-time helpers (irem, ishr) follow the same reading",
    "the tree view of the SSA graph (operands followed through .a/.b/.src); the harness reads the whole function back from the Return value after the pass, so replace_by/insert_instruction/re-linking are observed, not assumed",
]
ASSUMPTIONS = [
    "operands of an instruction have the instruction's type (enforced by ir.Binop.__init__) and Const values are ints in their type's range",
    "shift counts sent to the model are <= 300 (larger counts are undefined at run time and would only exercise CPython's big-int limits)",
]

TYPES = ["i8", "i16", "i32", "i64", "u8", "u16", "u32", "u64"]
BITS = {t: int(t[1:]) for t in TYPES}
SPEC_OPS = ["+", "-", "*", "/", "%", "<<", ">>", "&", "|", "^"]


def rng_of(t):
    b = BITS[t]
    return (-(1 << (b - 1)), (1 << (b - 1)) - 1) if t[0] == "i" else (0, (1 << b) - 1)


def in_range(t, v):
    lo, hi = rng_of(t)
    return type(v) is int and lo <= v <= hi


def boundary(t):
    lo, hi = rng_of(t)
    s = {lo, hi, lo + 1, hi - 1, 0, 1, -1, 2, -2, 3, -3, 7, -7, 10, -10, 100, -100}
    for k in range(BITS[t] + 1):
        for sg in (1, -1):
            for d in (-1, 0, 1):
                s.add(sg * (1 << k) + d)
    return sorted(v for v in s if lo <= v <= hi)


# ----------------------------------------------------------------------------------------------
# translation: dump live tables
def regen(ctx):
    from ppci import ir
    from ppci.opt.constantfolding import ConstantFolder
    cf = ConstantFolder()
    rows = []
    for key, fn in cf.ops.items():
        cells = [c.cell_contents for c in (fn.__closure__ or ())]
        fs = [c for c in cells if callable(c)]
        if len(fs) != 1:
            raise ValueError(f"ops[{key!r}] is not enhance(<function>): cannot introspect")
        f = fs[0]
        mod = (getattr(f, "__module__", "") or "").lstrip("_")
        rows.append((key, f"{mod}.{f.__name__}"))
    tys = [(t.name, t.bits, bool(t.signed)) for t in ir.value_types if t.is_integer]

    def s(x):
        return '"' + x.replace("\\", "\\\\").replace('"', '\\"') + '"'
    txt = (
        "/- GENERATED by harness/c38.py regen() from the live ppci objects of the checked tree - do not edit -/\n"
        "namespace Gen.ConstFold\n\n"
        "/-- `ConstantFolder().ops`: IR operator ↦ the Python function wrapped by `enhance` (module.name) -/\n"
        "def ops : List (String × String) := [" + ", ".join(f"({s(k)}, {s(v)})" for k, v in rows) + "]\n\n"
        "/-- integer members of `ppci.ir.value_types`: (name, bits, signed) -/\n"
        "def intTypes : List (String × Nat × Bool) := ["
        + ", ".join(f"({s(n)}, {b}, {'true' if sg else 'false'})" for n, b, sg in tys) + "]\n\n"
        "/-- `ppci.ir.Binop.ops` -/\n"
        "def binopOps : List String := [" + ", ".join(s(o) for o in ir.Binop.ops) + "]\n\n"
        "end Gen.ConstFold\n"
    )
    p = common.LEAN / "PpciVerif" / "Gen" / "ConstFold.lean"
    if not p.exists() or p.read_text() != txt:
        p.parent.mkdir(exist_ok=True)
        p.write_text(txt)
    # T1: translate the leaf helpers correct / cast / irem of the checked tree into Gen/Py_constantfolding.lean
    from . import t1
    t1.regen(ctx, "constantfolding")


# ----------------------------------------------------------------------------------------------
# trees: ("c",ty,v) | ("k",ty,e) | ("b",ty,op,a,b) | ("o",ty,id)
def render(e):
    k = e[0]
    if k == "c" or k == "o":
        return f"{k} {e[1]} {e[2]}"
    if k == "k":
        return f"k {e[1]} {render(e[2])}"
    return f"b {e[1]} {e[2]} {render(e[3])} {render(e[4])}"


def closed(e):
    k = e[0]
    return k == "c" or (k == "k" and closed(e[2])) or (k == "b" and closed(e[3]) and closed(e[4]))


def spec_ok(e):
    """expressible in Spec.ConstExpr (closed, operators known to the spec)"""
    k = e[0]
    return k == "c" or (k == "k" and spec_ok(e[2])) or (k == "b" and e[2] in SPEC_OPS and spec_ok(e[3]) and spec_ok(e[4]))


def render_sub(e, sub):
    """render with parameter `id` replaced by the constant text sub[id] (e.g. "@" for a driver row)"""
    k = e[0]
    if k == "c":
        return f"c {e[1]} {e[2]}"
    if k == "o":
        return f"c {e[1]} {sub[e[2]]}"
    if k == "k":
        return f"k {e[1]} {render_sub(e[2], sub)}"
    return f"b {e[1]} {e[2]} {render_sub(e[3], sub)} {render_sub(e[4], sub)}"


def params_of(e, acc=None):
    acc = {} if acc is None else acc
    if e[0] == "o":
        acc[e[2]] = e[1]
    elif e[0] == "k":
        params_of(e[2], acc)
    elif e[0] == "b":
        params_of(e[3], acc)
        params_of(e[4], acc)
    return acc


def consts_of(e, acc=None):
    acc = [] if acc is None else acc
    if e[0] == "c":
        acc.append((e[1], e[2]))
    elif e[0] == "k":
        consts_of(e[2], acc)
    elif e[0] == "b":
        consts_of(e[3], acc)
        consts_of(e[4], acc)
    return acc


def skeleton(e):
    """shape of a tree without types and values: (c-y)-c"""
    k = e[0]
    if k == "c":
        return "c"
    if k == "o":
        return "y" if e[2] == 0 else "z"
    if k == "k":
        return f"({e[1]}){skeleton(e[2])}"
    a, b = skeleton(e[3]), skeleton(e[4])
    if e[3][0] in "bk":
        a = f"({a})"
    if e[4][0] in "bk":
        b = f"({b})"
    return f"{a}{e[2]}{b}"


def spec_ok_open(e):
    """expressible in Spec.ConstExpr once parameters are replaced by constants"""
    k = e[0]
    return k in "co" or (k == "k" and spec_ok_open(e[2])) or (k == "b" and e[2] in SPEC_OPS and spec_ok_open(e[3]) and spec_ok_open(e[4]))


def focus(e, after):
    """the smallest sub-instruction of `e` that the pass changed (descend while exactly one operand differs)"""
    while after is not None and e[0] == after[0] and e[0] in "bk" and e[1] == after[1]:
        if e[0] == "k":
            if e[2] == after[2] or e[2][0] not in "bk":
                break
            e, after = e[2], after[2]
            continue
        if e[2] != after[2]:
            break
        da, db = e[3] != after[3], e[4] != after[4]
        if da and not db and e[3][0] in "bk" and after[3][0] in "bk":
            e, after = e[3], after[3]
        elif db and not da and e[4][0] in "bk" and after[4][0] in "bk":
            e, after = e[4], after[4]
        else:
            break
    return e


class Real:
    """runs the real pass on a tiny single-block function computing the tree and reads the WHOLE
    function back (from the returned value, through .a/.b/.src) - no assumption on what the pass matches"""

    def __init__(self):
        from ppci import ir, irutils
        from ppci.opt import ConstantFolder
        from ppci.binutils.debuginfo import DebugDb
        self.ir, self.irutils, self.DebugDb = ir, irutils, DebugDb
        self.cf = ConstantFolder()
        self.T = {t.name: t for t in ir.value_types if t.is_integer}

    def emit(self, bld, fn, e, cache):
        """equal sub-trees that contain a parameter become ONE instruction (a value used twice)"""
        if e in cache:
            return cache[e]
        ir = self.ir
        k = e[0]
        if k == "c":
            return bld.emit(ir.Const(e[2], "cn", self.T[e[1]]))       # constants are not shared
        if k == "o":
            v = ir.Parameter(f"y{e[2]}", self.T[e[1]])
            fn.add_parameter(v)
        elif k == "k":
            src = self.emit(bld, fn, e[2], cache)
            v = bld.emit(ir.Cast(src, "cast", self.T[e[1]]))
        else:
            a = self.emit(bld, fn, e[3], cache)
            b = self.emit(bld, fn, e[4], cache)
            v = bld.emit(ir.Binop(a, e[2], b, "binop", self.T[e[1]]))
        if params_of(e):
            cache[e] = v
        return v

    def readback(self, v):
        ir = self.ir
        if isinstance(v, ir.Const):
            return ("c", v.ty.name, v.value)
        if isinstance(v, ir.Parameter):
            return ("o", v.ty.name, int(v.name[1:]))
        if isinstance(v, ir.Cast):
            return ("k", v.ty.name, self.readback(v.src))
        if isinstance(v, ir.Binop):
            return ("b", v.ty.name, v.operation, self.readback(v.a), self.readback(v.b))
        return ("?", type(v).__name__, 0)

    def run(self, e):
        """-> (observation, tree after the pass | None);  observation = `ok <tree after>` | `err <Exc>`"""
        ir = self.ir
        m = ir.Module("t", debug_db=self.DebugDb())
        bld = self.irutils.Builder()
        bld.set_module(m)
        fn = bld.new_function("f", ir.Binding.GLOBAL, self.T[e[1]])
        bld.set_function(fn)
        blk = bld.new_block()
        fn.entry = blk
        bld.set_block(blk)
        root = self.emit(bld, fn, e, {})
        ret = bld.emit(ir.Return(root))
        try:
            self.cf.run(m)
        except Exception as ex:  # noqa: BLE001 - the class name is the observation
            return "err " + type(ex).__name__, None
        after = self.readback(ret.result)
        return "ok " + render(after).replace("?", "unknown"), after


def legacy(e, obs, after):
    """the effect on the ROOT instruction in the vocabulary of Model.ConstFold.Action (for the judges / histogram)"""
    if after is None:
        return obs
    if e[0] == "c":
        return "ok skip"
    if after[0] == "c":
        return f"ok replace {after[1]} {after[2]!r}"
    if after == e:
        return "ok keep"
    if (e[0] == "b" and e[3][0] == "b" and after[0] == "b" and after[2] == e[2] and after[4][0] == "c"
            and after[3] == e[3][3] and params_of(e[3][3])):
        return f"ok rechain {after[4][1]} {after[4][2]!r}"
    return "ok rewritten"


# ----------------------------------------------------------------------------------------------
def exact(op, a, b):
    """exact (unwrapped) mathematical result, for the non-triviality rule only"""
    try:
        return {"+": a + b, "-": a - b, "*": a * b}.get(op, (a << b) if op == "<<" and 0 <= b <= 64 else None)
    except Exception:  # noqa
        return None


def nontrivial_binop(t, op, a, b):
    lo, hi = rng_of(t)
    if op in "+-*" or op == "<<":
        x = exact(op, a, b)
        if x is None or not lo <= x <= hi:
            return True
    if op in ("%", ">>", "/") and (a < 0 or b <= 0):
        return True
    if op in ("<<", ">>") and not 0 <= b < BITS[t]:
        return True
    return False


class Plan:
    """collects cases, then talks to the driver once"""

    def __init__(self, ctx, real):
        self.ctx, self.real = ctx, real
        self.reqs = []          # driver request lines
        self.sinks = []         # per request: callable(reply)
        self.seen = set()

    def ask(self, line, sink):
        self.reqs.append(line)
        self.sinks.append(sink)

    # -- a single tree ---------------------------------------------------------------
    def case(self, kind, e, sig_site, nontriv=False, ys=None):
        r = render(e)
        if r in self.seen:
            return
        self.seen.add(r)
        ctx = self.ctx
        obs, after = self.real.run(e)
        impl = legacy(e, obs, after)
        ctx.count("eval_" + kind)
        ctx.count("outcome_" + " ".join(impl.split()[:2]))
        if nontriv or impl.startswith("err"):
            ctx.nontrivial(r)
        st = {"impl": impl}
        self.ask("pass " + r, lambda m, r=r, obs=obs, kind=kind: (m != obs) and ctx.disagree(kind, r, obs, m))
        if closed(e) and spec_ok(e) and e[0] != "c":
            self.ask("spec " + r, lambda s, r=r, e=e, st=st, site=sig_site: self.judge(site, r, e, st["impl"], s))
        elif impl.startswith("ok replace"):
            self.judge(sig_site, r, e, impl, "ok undef")
        if not closed(e):
            self.judge_rewrite(e, obs, after, ys)
        if len(ctx.samples) < 6 and nontriv:
            ctx.sample({"tree": r, "real_pass": obs})
        return impl

    def judge_rewrite(self, e, obs, after, ys=None):
        """The property on ANY function with parameters that the real pass changed: every constant of the
        new function is a value of its type, and before/after compute the same run-time value (Spec) for
        all values of y0 (8-bit types; boundary+random otherwise), y1 at a few fixed values."""
        ctx = self.ctx
        r = render(e)
        sk = skeleton(focus(e, after))
        if after is None:
            ctx.fail(f"on_block:rewrite[{sk}]:raises-{obs.split()[1]}", f"pass raised {obs[4:]} on `{r}`", r)
            return
        if after == e:
            return
        ctx.count("eval_rewritten_functions")
        bad = [(t, v) for t, v in consts_of(after) if t not in BITS or not in_range(t, v)]
        if bad or "unknown" in obs:
            ctx.fail(f"on_block:rewrite[{sk}]:constant-out-of-range", f"`{r}` becomes `{obs[3:]}`: {bad} not a value of its type", r, impl=obs)
            return
        if not (spec_ok_open(e) and spec_ok_open(after)):
            return
        ps = params_of(e)
        if not set(params_of(after)) <= set(ps):
            ctx.fail(f"on_block:rewrite[{sk}]:new-parameter", f"`{r}` becomes `{obs[3:]}`", r, impl=obs)
            return
        t0 = ps.get(0)
        others = [i for i in ps if i != 0]
        fixed = [{}]
        for i in others:
            lo, hi = rng_of(ps[i])
            fixed = [{**f, i: v} for f in fixed for v in (lo, hi, 1, self.ctx.rng.randint(lo, hi))]
        for f in fixed:
            if t0 is None:
                pts = [None]
            elif BITS[t0] == 8:
                pts = "row"
            else:
                lo, hi = rng_of(t0)
                pts = (ys or []) + [lo, hi, 0, 1, hi - 1, lo + 1, 2, 3] + [ctx.rng.randint(lo, hi) for _ in range(4)]
                pts = [y for y in dict.fromkeys(pts) if lo <= y <= hi]
            st = {}

            def compare(tag, rep, st=st, f=f, pts=pts, t0=t0):
                st[tag] = rep
                if len(st) < 2:
                    return
                bs, as_ = st["before"].split(";"), st["after"].split(";")
                lo = rng_of(t0)[0] if pts == "row" else 0
                for k, (b, a) in enumerate(zip(bs, as_)):
                    ctx.count("eval_rewrite_points")
                    if b != "ok undef" and a != b:
                        y = lo + k if pts == "row" else None
                        ctx.fail(f"on_block:rewrite[{sk}]:value-differs",
                                 f"`{r}` becomes `{obs[3:]}`: y0={y if y is not None else f.get(0)} {f}: before {b[3:]}, after {a[3:]}",
                                 r, impl=obs, y=y if y is not None else f.get(0), others=f)
                        return
            if pts == "row":
                lo, hi = rng_of(t0)
                sub = {**f, 0: "@"}
                self.ask(f"row {lo} {hi} spec {render_sub(e, sub)}", lambda rep, c=compare: c("before", rep))
                self.ask(f"row {lo} {hi} spec {render_sub(after, sub)}", lambda rep, c=compare: c("after", rep))
            else:
                for y in pts:
                    sub = dict(f) if y is None else {**f, 0: y}
                    st2 = {}

                    def cmp1(tag, rep, st2=st2, sub=sub):
                        st2[tag] = rep
                        if len(st2) == 2:
                            ctx.count("eval_rewrite_points")
                            if st2["before"] != "ok undef" and st2["after"] != st2["before"]:
                                ctx.fail(f"on_block:rewrite[{sk}]:value-differs",
                                         f"`{r}` becomes `{obs[3:]}`: parameters {sub}: before {st2['before'][3:]}, after {st2['after'][3:]}",
                                         r, impl=obs, params=sub)
                    self.ask("spec " + render_sub(e, sub), lambda rep, c=cmp1: c("before", rep))
                    self.ask("spec " + render_sub(after, sub), lambda rep, c=cmp1: c("after", rep))

    def judge(self, site, r, e, impl, spec):
        """the property on the real output: spec = `ok <v>` | `ok undef`"""
        ctx = self.ctx
        w = impl.split()
        if w[0] == "err":
            if spec != "ok undef":
                ctx.fail(f"{site}:raises-{w[1]}", f"pass raised {w[1]} on `{r}` whose run-time value is {spec[3:]}", r, impl=impl, spec=spec)
            else:
                ctx.count("undefined_operands_pass_raises_" + w[1])
            return
        if w[1] != "replace":
            return
        ty, v = w[2], w[3]
        try:
            v = int(v)
            isint = "." not in w[3]
        except ValueError:
            isint = False
        if not isint or not in_range(ty, v):
            ctx.fail(f"{site}:out-of-range", f"folded constant {w[3]} of `{r}` is not a value of {ty}", r, impl=impl, spec=spec)
        if ty != e[1]:
            ctx.fail(f"{site}:wrong-type", f"folded constant of `{r}` has type {ty}", r, impl=impl)
        if spec == "ok undef":
            ctx.count("undefined_operands_folded_to_some_value")
        elif spec != f"ok {w[3]}":
            ctx.fail(f"{site}:differs-from-runtime", f"`{r}` folds to {w[3]} but evaluates to {spec[3:]} at run time", r, impl=impl, spec=spec)

    # -- chains ----------------------------------------------------------------------
    def chain(self, t, op1, op2, c1, c2, ys):
        e = ("b", t, op2, ("b", t, op1, ("o", t, 0), c1), c2)
        r = render(e)
        if r in self.seen:
            return
        ctx = self.ctx
        lo, hi = rng_of(t)
        v1 = c1[2] if c1[0] == "c" else None
        v2 = c2[2] if c2[0] == "c" else None
        nt = v1 is not None and v2 is not None and not lo <= v1 + v2 <= hi
        impl = self.case("chain", e, f"on_block:chain{op2}", nontriv=nt, ys=ys)
        if impl is None:
            return
        w = impl.split()
        if w[0] == "err":
            self.ask("spec b %s + %s %s" % (t, render(c1), render(c2)),
                     lambda s, r=r, w=w: (s != "ok undef") and ctx.fail(f"on_block:chain{op2}:raises-{w[1]}", f"pass raised {w[1]} on `{r}`", r))
            return
        if w[1] != "rechain":
            return
        ctx.count("eval_chain_rewrites")
        c3s = w[3]
        try:
            c3 = int(c3s)
            ok = "." not in c3s and w[2] == t and in_range(t, c3)
        except ValueError:
            c3, ok = None, False
        if not ok:
            ctx.fail(f"on_block:chain{op2}:constant-out-of-range",
                     f"`{r}` is rewritten to y {op2} {c3s} but {c3s} is not a value of {t}", r, impl=impl)
        if c3 is None:
            return
        same = op1 == op2 and op1 in ("+", "-")
        if same:
            # Props.C38.chain_unique: an in-range c3 gives the same value for every y  iff  c3 = Spec (c1 + c2)
            self.ask("spec b %s + %s %s" % (t, render(c1), render(c2)),
                     lambda s, r=r, c3=c3, ok=ok: (ok and s != "ok undef" and s != f"ok {c3}") and ctx.fail(
                         f"on_block:chain{op2}:value-differs", f"`{r}` is rewritten to y {op2} {c3}; equal for all y only with {s[3:]}", r, impl=impl, spec=s))
        if v1 is not None and v2 is not None and ok and op1 in SPEC_OPS and op2 in SPEC_OPS:
            for y in (ys if same else ys + [2, 3, 5, 7]):
                if not in_range(t, y):
                    continue
                ctx.count("eval_chain_points")
                self.ask(f"specchain {t} {op1} {op2} {y} {v1} {v2} {c3}",
                         lambda s, r=r, y=y, c3=c3: (s.split()[1] != "undef" and len(set(s.split()[1:])) != 1) and ctx.fail(
                             f"on_block:chain{op1}{op2}:value-differs", f"`{r}` with y={y}: before/after = {s[3:]} (c3={c3})", r, y=y, spec=s))

    # -- exhaustive 8-bit row: all right operands for one left operand -------------------
    def row8(self, kind, t, mk, site_of, ntf, chain=None):
        """mk(v) -> tree for right operand v; one driver line for the whole row"""
        ctx = self.ctx
        lo, hi = rng_of(t)
        impls, trees, obss = [], [], []
        for v in range(lo, hi + 1):
            e = mk(v)
            obs, after = self.real.run(e)
            impl = legacy(e, obs, after)
            obss.append(obs)
            impls.append(impl)
            trees.append(e)
            ctx.count("eval_" + kind)
            ctx.count("outcome_" + " ".join(impl.split()[:2]))
            if ntf(v) or impl.startswith("err"):
                ctx.count("nontrivial_8bit")
        tmpl = render(mk("@"))
        ctx.nontrivial("row " + tmpl)

        def on_model(rep):
            ms = rep.split(";")
            if len(ms) != len(impls):
                raise common.BrokenCheck("row reply length")
            for e, i, m in zip(trees, obss, ms):
                if i != m:
                    ctx.disagree(kind, render(e), i, m)
        self.ask(f"row {lo} {hi} pass {tmpl}", on_model)
        e0 = mk(0)
        if closed(e0) and spec_ok(e0):
            def on_spec(rep):
                ss = rep.split(";")
                for e, i, s in zip(trees, impls, ss):
                    self.judge(site_of, render(e), e, i, s)
            self.ask(f"row {lo} {hi} spec {tmpl}", on_spec)
        elif chain is not None:
            op, c1 = chain

            def on_sum(rep):
                for e, i, s in zip(trees, impls, rep.split(";")):
                    w = i.split()
                    if w[0] == "err":
                        ctx.fail(f"{site_of}:raises-{w[1]}", f"pass raised {w[1]} on `{render(e)}`", render(e))
                    elif w[1] == "rewritten":
                        ob, af = self.real.run(e)
                        self.judge_rewrite(e, ob, af)
                    elif w[1] == "rechain":
                        ctx.count("eval_chain_rewrites")
                        if w[2] != t or "." in w[3] or not in_range(t, int(w[3])):
                            ctx.fail(f"{site_of}:constant-out-of-range",
                                     f"`{render(e)}` is rewritten to y {op} {w[3]} but {w[3]} is not a value of {t}", render(e), impl=i)
                        elif s != f"ok {w[3]}":
                            ctx.fail(f"{site_of}:value-differs",
                                     f"`{render(e)}` is rewritten to y {op} {w[3]}; equal for all y only with {s[3:]}", render(e), impl=i, spec=s)
            self.ask(f"row {lo} {hi} spec b {t} + c {t} {c1} c {t} @", on_sum)
        else:
            for e, i in zip(trees, impls):
                if i.startswith("ok replace"):
                    self.judge(site_of, render(e), e, i, "ok undef")

    def flush(self, force=True):
        """one driver process per flush (start-up costs seconds on a loaded machine): only the last
        call and very large batches actually run"""
        if not self.reqs or (not force and len(self.reqs) < 250000):
            return
        import time
        t0 = time.time()
        out = self.ctx.driver("C38", self.reqs)
        self.ctx.extra_cov["driver_s"] = round(self.ctx.extra_cov.get("driver_s", 0) + time.time() - t0, 1)
        self.ctx.extra_cov["driver_requests"] = self.ctx.extra_cov.get("driver_requests", 0) + len(self.reqs)
        for sink, rep in zip(self.sinks, out):
            if rep == "bad-op":
                raise common.BrokenCheck("driver answered bad-op")
            sink(rep)
        self.reqs, self.sinks = [], []


CORPUS_BINOP = [
    ("i8", "%", -7, 3), ("i8", "%", 7, -3), ("i8", "%", -7, -3), ("i8", "%", -128, -1), ("i8", "%", -128, 127), ("i8", "%", 127, -128),
    ("i32", "%", -7, 3), ("i64", "%", -(1 << 63), 3), ("i16", "%", -1, 32767), ("u8", "%", 200, 7), ("u64", "%", (1 << 64) - 1, 10),
    ("i8", "%", 5, 0), ("u8", "%", 5, 0),
    ("i8", "+", 100, 100), ("i8", "-", -100, 100), ("i8", "*", 16, 8), ("i8", "*", -128, -1), ("u8", "-", 0, 1), ("u8", "+", 255, 1),
    ("i64", "*", (1 << 62), 2), ("u64", "*", (1 << 63), 2), ("i32", "+", (1 << 31) - 1, 1),
    ("i8", "<<", 1, 7), ("i8", "<<", -1, 7), ("i8", "<<", 1, 8), ("i8", "<<", 1, -1), ("u8", "<<", 255, 1), ("i64", "<<", 1, 63),
    ("i8", ">>", -128, 7), ("i8", ">>", -1, 1), ("i8", ">>", -7, 1), ("u8", ">>", 255, 7), ("u8", ">>", 128, 8), ("i8", ">>", 1, -1),
    ("i64", ">>", -(1 << 63), 63), ("u64", ">>", (1 << 64) - 1, 63),
    ("i8", "/", -7, 2), ("i8", "&", -7, 3), ("i8", "|", 1, 2), ("i8", "^", 1, 3), ("i8", "rol", 1, 1), ("i8", "ror", 1, 1),
]
CORPUS_CHAIN = [
    ("i8", "+", 100, 100), ("i8", "-", 100, 100), ("i8", "+", -100, -100), ("i8", "-", -100, -100), ("u8", "+", 200, 100),
    ("u8", "-", 200, 100), ("i8", "+", 127, 1), ("i8", "+", 5, 5), ("i16", "+", 32767, 1), ("i32", "+", (1 << 31) - 1, (1 << 31) - 1),
    ("i64", "-", -(1 << 63), -(1 << 63)), ("u64", "+", (1 << 64) - 1, 1), ("u16", "-", 65535, 65535),
]


def chain_shapes(ctx, P):
    """Every SHAPE of a two/three-step chain, whether or not the current code rewrites it: inner and outer
    operator in {+,-} (other operators as negatives), inner constant left/right/both/neither, the chain on
    the left or right of the outer operation, outer operand constant / y / another parameter, chains of
    length 3, the chain value used twice, chains through casts.  Each function the real pass changes is
    judged before/after against Spec for all y (8-bit) or boundary+random y (Plan.judge_rewrite)."""
    rng, th = ctx.rng, ctx.thorough
    PM = ("+", "-")
    NEG = ("*", "&", "<<", "%", "|")

    for t in TYPES:
        lo, hi = rng_of(t)
        bs = boundary(t)
        eight = BITS[t] == 8
        Y, Z = ("o", t, 0), ("o", t, 1)
        fixed = [5, 3, 7, 2, 11, 1]

        def consts(n, k):
            """k-th assignment of n constants: small fixed, then 100-ish (wrap), then boundary/random"""
            if k == 0:
                return fixed[:n]
            if k == 1:
                return [v for v in (100, 100, 27, 100, 90, 77)][:n]
            return [rng.choice(bs) if rng.random() < 0.6 else rng.randint(lo, hi) for _ in range(n)]

        def fill(shape, k):
            """shape: nested tuples with 'c' placeholders -> tree"""
            n = [0]
            vals = consts(12, k)

            def go(x):
                if x == "c":
                    n[0] += 1
                    return ("c", t, vals[n[0] - 1] if lo <= vals[n[0] - 1] <= hi else vals[n[0] - 1] % (hi + 1))
                if x == "y":
                    return Y
                if x == "z":
                    return Z
                return ("b", t, x[0], go(x[1]), go(x[2]))
            return go(shape)

        def has_param(x):
            return x in ("y", "z") or (isinstance(x, tuple) and (has_param(x[1]) or has_param(x[2])))

        atoms2 = ("y", "c", "z") if eight or th else ("y", "c")
        level1 = [(o, a, b) for o in PM for a in atoms2 for b in atoms2]
        level2 = []
        for inner in level1:
            for o in PM:
                for x in atoms2:
                    level2.append((o, inner, x))
                    level2.append((o, x, inner))
        level2 = [x for x in level2 if has_param(x)]
        nassign = (6 if th else 3) if eight else (4 if th else 2)
        for sh in level2:
            for k in range(nassign):
                P.case("shape2", fill(sh, k), "on_block:shape", nontriv=True)
        # negatives: one of the two operators is not + / -
        for inner in [(o, a, b) for o in PM + NEG[:3] for a in ("y", "c") for b in ("y", "c")]:
            for o in PM + NEG:
                if inner[0] in PM and o in PM:
                    continue
                for sh in ((o, inner, "c"), (o, "c", inner)):
                    if has_param(sh):
                        e = fill(sh, 0)
                        if o in ("<<",) or inner[0] in ("<<",):
                            continue
                        P.case("shape_neg", e, "on_block:shape", nontriv=True)
        # chains of length 3
        l2 = [x for x in level2 if "z" not in str(x)]
        level3 = [(o, s2, x) for s2 in l2 for o in PM for x in ("c", "y")] + [(o, x, s2) for s2 in l2 for o in PM for x in ("c", "y")]
        if not (eight or th):
            level3 = rng.sample(level3, 48)
        elif not th:
            level3 = rng.sample(level3, 160)
        for sh in level3:
            P.case("shape3", fill(sh, rng.randrange(3)), "on_block:shape", nontriv=True)
        # the chain value used twice:  q = y op1 c | c op1 y ;  (q op2 c) op3 q ,  q op3 (q op2 c) , (c op2 q) op3 q
        for o1 in PM:
            for q in ((o1, "y", "c"), (o1, "c", "y")):
                for o2 in PM:
                    for o3 in PM:
                        for sh in ((o3, (o2, q, "c"), q), (o3, q, (o2, q, "c")), (o3, (o2, "c", q), q)):
                            # the same constant in both copies of q, so that they are ONE instruction
                            e = fill(sh, 0)
                            qt = e[3][3] if sh[1] != q else e[3]
                            if sh[1] != q:      # (.. q ..) op3 q
                                qt = e[3][3] if sh[1][1] == q else e[3][4]
                                e = ("b", t, o3, e[3], qt)
                            else:               # q op3 (q op2 c)
                                e = ("b", t, o3, e[3], ("b", t, o2, e[3], e[4][4]))
                            P.case("shape_shared", e, "on_block:shape", nontriv=True)
        # chains through a cast (mixed types): (T)(y:S op1 c) op2 c ,  (T)((y op1 c) op2 c)
        for src in (rng.sample(TYPES, 3) if not th else TYPES):
            if src == t:
                continue
            sl, shh = rng_of(src)
            ys = ("o", src, 0)
            for o1 in PM:
                for o2 in PM:
                    for left in (False, True):
                        c1 = ("c", src, min(5, shh))
                        inner = ("b", src, o1, c1, ys) if left else ("b", src, o1, ys, c1)
                        P.case("shape_cast", ("b", t, o2, ("k", t, inner), ("c", t, 3)), "on_block:shape", nontriv=True)
                        c2 = ("c", src, min(3, shh))
                        P.case("shape_cast", ("k", t, ("b", src, o2, inner, c2)), "on_block:shape", nontriv=True)
        P.flush(force=False)


def non_integer_chains(ctx, real):
    """Regression guard outside the Lean model (which has integer types only): the chain rewrites also
    may fire for ptr and float constants; if they do, the constant must be the plain sum (cast() leaves it
    alone); leaving the instruction alone is fine too; the pass must not raise (commit 4e7434c wrapped with correct() and raised AttributeError here)."""
    ir = real.ir
    for ty, c1, c2 in ((ir.ptr, 4, 8), (ir.ptr, 0, 1 << 40), (ir.f64, 1.5, 2.5), (ir.f32, 0.5, 0.25)):
        for op in "+-":
            m = ir.Module("t", debug_db=real.DebugDb())
            bld = real.irutils.Builder()
            bld.set_module(m)
            fn = bld.new_function("f", ir.Binding.GLOBAL, ty)
            bld.set_function(fn)
            blk = bld.new_block()
            fn.entry = blk
            bld.set_block(blk)
            p = ir.Parameter("p", ty)
            fn.add_parameter(p)
            k1 = bld.emit(ir.Const(c1, "c1", ty))
            k2 = bld.emit(ir.Const(c2, "c2", ty))
            q = bld.emit(ir.Binop(p, op, k1, "q", ty))
            r = bld.emit(ir.Binop(q, op, k2, "r", ty))
            bld.emit(ir.Return(r))
            case = f"({ty} p {op} {c1}) {op} {c2}"
            try:
                real.cf.run(m)
                got = f"ok rechain {r.b.ty} {r.b.value!r}" if (r.a is p and isinstance(r.b, ir.Const)) else "ok keep"
            except Exception as ex:  # noqa: BLE001
                got = "err " + type(ex).__name__
            ctx.count("eval_chain_non_integer")
            want = f"ok rechain {ty} {c1 + c2!r}"
            ctx.count("chain_non_integer_" + got.split()[1])
            if got not in (want, "ok keep"):      # rewriting is optional here; raising or a wrong constant is not
                ctx.disagree("chain-non-integer-type", case, got, want + " | ok keep  (if rewritten: the plain sum, as cast() does for ptr/float)")
    # float -> integer casts of non-finite constants: int(inf)/int(nan) raise in Python; the pass must leave them alone
    for v in (float("inf"), float("-inf"), float("nan")):
        for dst in (ir.i8, ir.u32, ir.i64):
            m = ir.Module("t", debug_db=real.DebugDb())
            bld = real.irutils.Builder()
            bld.set_module(m)
            fn = bld.new_function("f", ir.Binding.GLOBAL, dst)
            bld.set_function(fn)
            blk = bld.new_block()
            fn.entry = blk
            bld.set_block(blk)
            k = bld.emit(ir.Cast(bld.emit(ir.Const(v, "c", ir.f64)), "k", dst))
            ret = bld.emit(ir.Return(k))
            try:
                real.cf.run(m)
                got = "ok keep" if ret.result is k else "ok replaced"
            except Exception as ex:  # noqa: BLE001
                got = "err " + type(ex).__name__
            ctx.count("eval_cast_non_finite")
            if got != "ok keep":
                ctx.disagree("cast-non-finite-float", f"({dst}) {v!r}", got, "ok keep")


def check(ctx):
    import time
    t_check = time.time()
    real = Real()
    non_integer_chains(ctx, real)
    rng = ctx.rng
    P = Plan(ctx, real)
    folder_ops = list(real.cf.ops)            # what the checked tree folds
    all_ops = list(real.ir.Binop.ops)
    other_ops = [o for o in all_ops if o not in folder_ops]
    th = ctx.thorough

    def C(t, v):
        return ("c", t, v)

    def binop_case(t, op, a, b):
        P.case("binop", ("b", t, op, C(t, a), C(t, b)), f"eval_const:{op}", nontrivial_binop(t, op, a, b))

    def ysamples(t, n):
        lo, hi = rng_of(t)
        return [lo, hi, 0, 1, hi - 1] + [rng.randint(lo, hi) for _ in range(n)]

    # ---- fixed corpus first ---------------------------------------------------------------
    for t, op, a, b in CORPUS_BINOP:
        binop_case(t, op, a, b)
    for t, op, c1, c2 in CORPUS_CHAIN:
        P.chain(t, op, op, C(t, c1), C(t, c2), ysamples(t, 3))
    for t, v, to in [("i8", -1, "u8"), ("u8", 255, "i8"), ("i8", -128, "u64"), ("u64", (1 << 64) - 1, "i8"), ("i32", -1, "u16"),
                     ("u16", 65535, "i64"), ("i64", -(1 << 63), "i32"), ("u32", 1 << 31, "i32")]:
        P.case("cast", ("k", to, C(t, v)), "eval_const:cast", True)
    P.flush(force=False)

    # ---- 8-bit types: operand pairs ---------------------------------------------------------
    for t in ("i8", "u8"):
        lo, hi = rng_of(t)
        if th:
            lefts = list(range(lo, hi + 1))
        else:
            lefts = sorted(set([lo, lo + 1, -1 if lo < 0 else 1, 0, 1, 2, 3, 7, 100, hi - 1, hi, (lo + hi) // 2, -7 if lo < 0 else 249]
                               + list(range(lo + rng.randrange(23), hi + 1, 23)) + [rng.randint(lo, hi) for _ in range(4)]))
            lefts = [v for v in lefts if lo <= v <= hi]
        for op in folder_ops:
            for a in lefts:
                P.row8("binop", t, lambda v, t=t, op=op, a=a: ("b", t, op, C(t, a), C(t, v)), f"eval_const:{op}",
                       lambda v, t=t, op=op, a=a: nontrivial_binop(t, op, a, v))
        for op in other_ops:
            for a in (lefts[:: max(1, len(lefts) // 12)] if th else lefts[:: max(1, len(lefts) // 4)]):
                P.row8("binop_unfolded", t, lambda v, t=t, op=op, a=a: ("b", t, op, C(t, a), C(t, v)), f"eval_const:{op}", lambda v: False)
        # chains: (y op c1) op c2
        cl = lefts if th else lefts[::2]
        for op in ("+", "-"):
            for c1 in cl:
                P.row8("chain8", t, lambda v, t=t, op=op, c1=c1: ("b", t, op, ("b", t, op, ("o", t, 0), C(t, c1)), C(t, v)),
                       f"on_block:chain{op}", lambda v, c1=c1, lo=lo, hi=hi: not lo <= c1 + v <= hi, chain=(op, c1))
        # the chain property itself (range + value for sampled y) on a subset handled by P.chain
        bs = boundary(t)
        pairs = [(a, b) for a in bs for b in bs] if th else [(rng.choice(bs), rng.choice(bs)) for _ in range(150)]
        for op in ("+", "-"):
            for c1, c2 in pairs:
                P.chain(t, op, op, C(t, c1), C(t, c2), ysamples(t, 2))
        P.flush(force=False)
    ctx.extra_cov["exhaustive"] = bool(th)
    ctx.extra_cov["exhaustive_domain"] = ("all 65536 operand pairs of i8 and of u8 for each of %s; all (c1,c2) for both chain rewrites" % folder_ops) if th \
        else "quick tier: strided left operands x all 256 right operands (not exhaustive)"

    # ---- 16/32/64-bit: boundary + random ---------------------------------------------------
    mult = 20 if th else 1
    for t in ("i16", "u16", "i32", "u32", "i64", "u64"):
        lo, hi = rng_of(t)
        bs = boundary(t)
        small = [v for v in (1, -1, 2, -2, 3, -3, 7, -7, 10, -10, hi, lo, lo + 1) if lo <= v <= hi]

        def rv():
            return rng.randint(lo, hi) if rng.random() < 0.6 else rng.choice(bs)
        for op in folder_ops + other_ops[:4]:
            n = (60 if op in other_ops else 150) * mult
            if op in ("<<", ">>"):
                counts = list(range(0, BITS[t])) + [c for c in (-1, -2, lo, BITS[t], BITS[t] + 1, 2 * BITS[t], 255) if lo <= c <= hi]
                for a in [lo, hi, -1 if lo < 0 else 1, 1] + [rv() for _ in range(8 * mult)]:
                    for c in counts:
                        binop_case(t, op, a, c)
                continue
            for _ in range(n):
                binop_case(t, op, rng.choice(bs), rng.choice(bs))
            for _ in range(n // 2):
                binop_case(t, op, rv(), rv())
            if op in ("%", "/"):
                for _ in range(n // 2):
                    binop_case(t, op, rv(), rng.choice(small))
                    binop_case(t, op, rng.choice(bs), rng.choice(small + [0]))
        for op1, op2 in (("+", "+"), ("-", "-"), ("+", "-"), ("-", "+"), ("*", "*"), ("+", "*")):
            for _ in range((120 if op1 == op2 and op1 in "+-" else 10) * mult):
                P.chain(t, op1, op2, C(t, rv()), C(t, rv()), ysamples(t, 2))
        P.flush(force=False)

    # ---- casts between every ordered pair of integer types -----------------------------------
    for src in TYPES:
        lo, hi = rng_of(src)
        vals = list(range(lo, hi + 1)) if BITS[src] == 8 else sorted(set(boundary(src) + [rng.randint(lo, hi) for _ in range(40 * mult)]))
        for dst in TYPES:
            dl, dh = rng_of(dst)
            for v in vals:
                P.case("cast", ("k", dst, C(src, v)), "eval_const:cast", not dl <= v <= dh)
    ctx.extra_cov["cast_type_pairs"] = len(TYPES) ** 2
    P.flush(force=False)

    # ---- nested constant trees (eval_const recursion), chains with non-literal constants --------
    def tree(t, d):
        lo, hi = rng_of(t)
        x = rng.random()
        if d == 0 or x < 0.25:
            return C(t, rng.choice(boundary(t)) if rng.random() < 0.5 else rng.randint(lo, hi))
        if x < 0.45:
            s = rng.choice(TYPES)
            return ("k", t, tree(s, d - 1))
        op = rng.choice(folder_ops)
        if op in ("<<", ">>"):
            return ("b", t, op, tree(t, d - 1), C(t, rng.randrange(BITS[t])))
        return ("b", t, op, tree(t, d - 1), tree(t, d - 1))
    for _ in range(600 * mult):
        t = rng.choice(TYPES)
        e = tree(t, 3)
        if e[0] != "c":
            P.case("tree", e, "eval_const:nested", True)
    for _ in range(100 * mult):
        t = rng.choice(TYPES)
        op = rng.choice("+-")
        P.chain(t, op, op, tree(t, 2), tree(t, 2), [])
    # shapes that must be left alone
    chain_shapes(ctx, P)
    for t in TYPES:
        lo, hi = rng_of(t)
        y, y1, c = ("o", t, 0), ("o", t, 1), C(t, hi)
        for e in [("b", t, "+", y, c), ("b", t, "+", c, y), ("b", t, "+", ("b", t, "+", y, c), y1), ("b", t, "+", ("b", t, "+", c, y), c),
                  ("b", t, "-", ("b", t, "-", c, y), c), ("k", t, y), ("b", t, "*", ("b", t, "*", y, c), c), ("b", t, "+", y, y)]:
            P.case("shape", e, "on_block:shape")
    P.flush()
    ctx.extra_cov["check_s"] = round(time.time() - t_check, 1)
    ctx.extra_cov["folder_ops"] = folder_ops
    ctx.extra_cov["unfolded_ops_checked"] = other_ops
    ctx.extra_cov["nontrivial_8bit_cases"] = int(ctx.counts.get("nontrivial_8bit", 0))


def replay(ctx, rp):
    """re-run the failing tree of a replay file on the real pass, then the whole check"""
    case = rp.get("case")
    if isinstance(case, str):
        ctx.note("replayed tree: " + case)
    check(ctx)


def search(ctx):
    """Props no longer build (e.g. the dumped operator table changed): the driver does not depend on
    Gen/Props, so the failing-input search = the ordinary check with the Spec oracle."""
    ok, _log = ctx.lake_build(["Drivers.C38"])
    if ok:
        check(ctx)
    else:
        ctx.note("driver does not build either: no failing-input search possible")
